(* Properties_C12.v — property C12: volume, area, centroid, bounding box and normals are exact and
   frame-independent.  Only statements; every proof is `exact <lemma of GeometryProofs.v>`.
   Models: Geometry.v / Mesh.v at R. *)
From Coq Require Import NArith ZArith Bool List Lia Reals Lra Permutation.
From SC Require Import Num Vec3 VecR Rot Mesh Geometry GeometrySpec GeometryProofs.
From SC Require SourceTies Geometry_gen.
Import ListNotations.
Local Open Scope R_scope.


(* ---- volume: the reported volume is |sum of det(x1,x2,x3)| / 6, the enclosed volume of a closed surface *)
Theorem volume_is_enclosed_volume : forall tris : list triR,
  compute_volume NumR tris = Rabs (rsum (map det3v tris)) / 6.
Proof. exact volume_closed_form. Qed.
Print Assumptions volume_is_enclosed_volume.

(* translation invariance needs the surface to be closed: faces over node ids, positions in a list *)

Theorem volume_translation_invariant : forall (nodes : list vR) (faces : list tri) (t : vR),
  ValidSurface faces -> ids_in_range nodes faces ->
  compute_volume NumR (map (tri_pos NumR (map (fun p => p +v t) nodes)) faces) =
  compute_volume NumR (map (tri_pos NumR nodes) faces).
Proof. exact volume_translate. Qed.
Print Assumptions volume_translation_invariant.

Theorem volume_rotation_invariant : forall (M : mat3) (tris : list triR), orthogonal M ->
  compute_volume NumR (map (tmap (mapply M)) tris) = compute_volume NumR tris.
Proof. exact volume_rotate. Qed.
Print Assumptions volume_rotation_invariant.

Theorem volume_scales_cubically : forall (s : R) (tris : list triR),
  compute_volume NumR (map (tmap (fun p => p *v s)) tris) = Rabs s * Rabs s * Rabs s * compute_volume NumR tris.
Proof. exact volume_scale. Qed.
Print Assumptions volume_scales_cubically.

Theorem volume_face_permutation : forall tris tris' : list triR, Permutation tris tris' ->
  compute_volume NumR tris = compute_volume NumR tris'.
Proof. exact volume_perm. Qed.
Print Assumptions volume_face_permutation.

(* cyclic shift of the node triple of any subset of the triangles *)
Theorem volume_cyclic_shift : forall (tris : list triR) (sel : triR -> bool),
  compute_volume NumR (map (fun p => if sel p then shift1 p else p) tris) = compute_volume NumR tris.
Proof. exact volume_shift. Qed.
Print Assumptions volume_cyclic_shift.

(* renumbering the nodes: faces renamed by sigma over a node list where sigma(i) holds what i held *)
Theorem geometry_node_renumbering : forall (sigma : N -> N) (nodes nodes' : list vR) (faces : list tri),
  (forall i, In i (all_nodes faces) -> pos_of NumR nodes' (sigma i) = pos_of NumR nodes i) ->
  map (tri_pos NumR nodes') (map (rename sigma) faces) = map (tri_pos NumR nodes) faces.
Proof. exact renumber_tris. Qed.
Print Assumptions geometry_node_renumbering.

(* ---- area: the sum of the triangle areas, each half the norm of the edge cross product *)
Theorem area_is_sum_of_triangle_areas : forall tris : list triR,
  compute_area NumR tris = rsum (map (face_area NumR) tris).
Proof. exact area_closed_form. Qed.
Print Assumptions area_is_sum_of_triangle_areas.

Theorem area_rigid_invariant : forall (M : mat3) (t : vR) (tris : list triR), orthogonal M ->
  compute_area NumR (map (tmap (rigid M t)) tris) = compute_area NumR tris.
Proof. exact area_rigid. Qed.
Print Assumptions area_rigid_invariant.

Theorem area_scales_quadratically : forall (s : R) (tris : list triR),
  compute_area NumR (map (tmap (fun p => p *v s)) tris) = s * s * compute_area NumR tris.
Proof. exact area_scale. Qed.
Print Assumptions area_scales_quadratically.

Theorem area_face_permutation : forall tris tris' : list triR, Permutation tris tris' ->
  compute_area NumR tris = compute_area NumR tris'.
Proof. exact area_perm. Qed.
Print Assumptions area_face_permutation.

Theorem area_cyclic_shift : forall (tris : list triR) (sel : triR -> bool),
  compute_area NumR (map (fun p => if sel p then shift1 p else p) tris) = compute_area NumR tris.
Proof. exact area_shift. Qed.
Print Assumptions area_cyclic_shift.

(* winding flips do not change the area either (they do change the sign of a triangle's volume term) *)
Theorem area_winding_flip : forall (tris : list triR) (sel : triR -> bool),
  compute_area NumR (map (fun p => if sel p then flip1 p else p) tris) = compute_area NumR tris.
Proof. exact area_flip. Qed.
Print Assumptions area_winding_flip.

(* ---- centroid: area-weighted mean of the triangle centroids, moving rigidly with the cell *)
Theorem centroid_is_area_weighted_mean : forall (tris : list triR) (A : R),
  compute_centroid NumR tris A =
  vdivs NumR (vsum (map (fun p => face_centroid NumR p *v face_area NumR p) tris)) A.
Proof. exact centroid_closed_form. Qed.
Print Assumptions centroid_is_area_weighted_mean.

Theorem centroid_equivariant : forall (M : mat3) (t : vR) (tris : list triR), orthogonal M ->
  compute_area NumR tris <> 0 ->
  compute_centroid NumR (map (tmap (rigid M t)) tris) (compute_area NumR (map (tmap (rigid M t)) tris)) =
  rigid M t (compute_centroid NumR tris (compute_area NumR tris)).
Proof. exact centroid_rigid. Qed.
Print Assumptions centroid_equivariant.

(* ---- bounding box: every live node inside, every bound attained *)
Theorem aabb_tight : forall (pts : list vR) (lo hi : vR), aabb NumR pts = Some (lo, hi) ->
  (forall p, In p pts -> vx lo <= vx p <= vx hi /\ vy lo <= vy p <= vy hi /\ vz lo <= vz p <= vz hi) /\
  (exists p, In p pts /\ vx p = vx lo) /\ (exists p, In p pts /\ vy p = vy lo) /\ (exists p, In p pts /\ vz p = vz lo) /\
  (exists p, In p pts /\ vx p = vx hi) /\ (exists p, In p pts /\ vy p = vy hi) /\ (exists p, In p pts /\ vz p = vz hi).
Proof. exact aabb_is_tight. Qed.
Print Assumptions aabb_tight.

(* ---- normals: the cached normal is the unit vector along the winding's cross product *)
Theorem normal_follows_winding : forall p : triR, vnorm NumR (face_normal_raw NumR p) <> 0 ->
  face_normal NumR p *v vnorm NumR (face_normal_raw NumR p) = face_normal_raw NumR p /\
  sqn (face_normal NumR p) = 1.
Proof. exact normal_unit. Qed.
Print Assumptions normal_follows_winding.

(* ---- orientation: after the repair the signed volume is non-negative, and only windings change *)
Theorem repair_signed_volume_nonneg : forall (nodes : list vR) (faces faces' : list tri),
  repair_orientation NumR nodes faces = Some faces' ->
  0 <= orient_signed NumR (map (tri_pos NumR nodes) faces').
Proof. exact repair_nonneg. Qed.
Print Assumptions repair_signed_volume_nonneg.

Theorem repair_only_changes_windings : forall (nodes : list vR) (faces faces' : list tri),
  repair_orientation NumR nodes faces = Some faces' -> Forall2 same_triangle faces faces'.
Proof. exact repair_same_triangles. Qed.
Print Assumptions repair_only_changes_windings.

(* THE TIE TO THE SOURCE.  Vec3_gen.v and Geometry_gen.v are regenerated from src/math_modules/vec3.{cpp,hpp} and
   src/mesh/cell.cpp on every run; SourceTies.v proves them equal to Vec3.v / Geometry.v by reflexivity, for every number type:
   the face normal and area, the per-face volume term and its finalisation (/6, abs), the area sum, the area-weighted centroid,
   the bounding-box update of one node and the signed volume of the orientation test are what the code computes now.
   (Statements: SourceTies.vec3_tie, SourceTies.geometry_tie.) *)
Theorem vector_algebra_is_what_the_source_says : SourceTies.vec3_tie.
Proof. exact SourceTies.vec3_model_is_what_the_source_says. Qed.
Print Assumptions vector_algebra_is_what_the_source_says.

Theorem geometry_model_is_what_the_source_says : SourceTies.geometry_tie.
Proof. exact SourceTies.geometry_model_is_what_the_source_says. Qed.
Print Assumptions geometry_model_is_what_the_source_says.

(* WHAT THE REGENERATED CODE DOES: two statements of C12 about the translated loop of cell::compute_volume itself (the per-face term
   and the finalisation as regenerated from cell.cpp, folded over the used faces from 0, at R; convertible with the model): the
   reported volume does not depend on where the closed surface is placed, and it scales with the cube of the size. *)
Definition regenerated_volume (tris : list triR) : R :=
  Geometry_gen.vol_final_gen NumR (fold_left (fun v p => nadd NumR v (Geometry_gen.vol_term_gen NumR p)) tris (nzero NumR)).

Theorem regenerated_volume_translation_invariant : forall (nodes : list vR) (faces : list tri) (t : vR),
  ValidSurface faces -> ids_in_range nodes faces ->
  regenerated_volume (map (tri_pos NumR (map (fun p => p +v t) nodes)) faces) =
  regenerated_volume (map (tri_pos NumR nodes) faces).
Proof. exact volume_translate. Qed.
Print Assumptions regenerated_volume_translation_invariant.
