(* Schedule.v — what the per-cell parallel loops of the solver and the two parallel protocols (exception handler,
   simultaneous divisions) mean under ANY interleaving.
   A parallel loop is a set of tasks; a task is a list of atomic steps; a step acts on one component of the shared
   state (the cell it belongs to).  A schedule is any sequence of steps (of any tasks, in any order that keeps each
   task's own order): running it is a fold. *)
From Coq Require Import Arith Bool List NArith.
From SC Require Import Population.
Import ListNotations.

Section Loops.
  Context {A : Type}.                         (* the state of one component (one cell) *)
  Definition step := (nat * (A -> A))%type.   (* (component touched, action on it) *)

  Fixpoint upd (l : list A) (n : nat) (f : A -> A) : list A :=
    match l, n with
    | [], _ => []
    | x :: r, O => f x :: r
    | x :: r, S k => x :: upd r k f
    end.
  Definition run_schedule (sched : list step) (s : list A) : list A :=
    fold_left (fun st x => upd st (fst x) (snd x)) sched s.

  (* the steps a schedule applies to component i, in the order it applies them *)
  Definition proj (i : nat) (sched : list step) : list (A -> A) :=
    map snd (filter (fun x => Nat.eqb (fst x) i) sched).

  (* the sequential execution: task after task *)
  Definition task_steps (i : nat) (fs : list (A -> A)) : list step := map (fun f => (i, f)) fs.
  Definition sequential (tasks : list (list (A -> A))) : list step :=
    concat (map (fun it => task_steps (fst it) (snd it)) (combine (seq 0 (length tasks)) tasks)).

  (* a schedule is an interleaving of the tasks when, for every component, it applies exactly that task's steps in
     that task's order (task i only touches component i) *)
  Definition interleaving (tasks : list (list (A -> A))) (sched : list step) : Prop :=
    forall i, proj i sched = nth i tasks [].
End Loops.

(* ---- parallel_exception_handler (include/utils.hpp): every task runs inside try; a throwing task stores its exception
   in the shared slot inside a critical section; after the loop the slot is rethrown if set *)
Section Handler.
  Context {E : Type}.
  Inductive outcome := Done | Threw (e : E).
  (* the slot after the loop: the exception of the task that entered the critical section last; `order` is the order in
     which the tasks finished (any permutation of the task indices) *)
  Definition handler (results : list outcome) (order : list nat) : option E :=
    fold_left (fun slot i => match nth i results Done with Threw e => Some e | Done => slot end) order None.
End Handler.

(* ---- cell_divider::run: threads read cell_lst[i] and, in a critical section, publish the two daughters.
   Events of a schedule, seen from the vector: a read of element i takes two instants (the address of the buffer is
   loaded, then the element is loaded through it); a push_back happens atomically inside the critical section and
   reallocates the buffer when the vector is full (every pointer into the old buffer is then dangling). *)
Inductive vevent := ReadBegin (thread : nat) | ReadEnd (thread : nat) | Push.
Record vstate := mkvs { v_size : nat; v_cap : nat; v_gen : nat; v_pending : list (nat * nat) (* thread, generation seen *) ; v_stale : bool }.
Definition vstep (s : vstate) (e : vevent) : vstate :=
  match e with
  | ReadBegin t => mkvs (v_size s) (v_cap s) (v_gen s) ((t, v_gen s) :: v_pending s) (v_stale s)
  | ReadEnd t =>
      let stale := existsb (fun p => Nat.eqb (fst p) t && negb (Nat.eqb (snd p) (v_gen s))) (v_pending s) in
      mkvs (v_size s) (v_cap s) (v_gen s) (filter (fun p => negb (Nat.eqb (fst p) t)) (v_pending s)) (v_stale s || stale)
  | Push =>
      if Nat.ltb (v_size s) (v_cap s) then mkvs (S (v_size s)) (v_cap s) (v_gen s) (v_pending s) (v_stale s)
      else mkvs (S (v_size s)) (2 * S (v_cap s)) (S (v_gen s)) (v_pending s) (v_stale s)
  end.
Definition vrun (es : list vevent) (s : vstate) : vstate := fold_left vstep es s.
(* the protocol that appends inside the parallel region allows any order of events; the protocol that defers the
   appends to after the loop only produces schedules in which no Push precedes a read event *)
Fixpoint deferred (es : list vevent) : bool :=
  match es with
  | [] => true
  | Push :: r => forallb (fun e => match e with Push => true | _ => false end) r
  | _ :: r => deferred r
  end.
