(* GeometryProofs.v — proofs of the C12 facts about Geometry.v / Mesh.v at R stated in Properties_C12.v *)
From Coq Require Import NArith ZArith Bool List Lia Reals Lra Psatz Nsatz Permutation.
From SC Require Import Num Vec3 VecR Rot Mesh Geometry GeometrySpec MeshProofs.
Import ListNotations.
Local Open Scope R_scope.

(* ------------------------------------------------------------------ sums *)
Lemma fold_left_Rplus {A} (f : A -> R) (l : list A) (a : R) :
  fold_left (fun v p => v + f p) l a = a + rsum (map f l).
Proof.
  revert a. induction l as [|x l IH]; intros a; cbn [fold_left map rsum fold_right].
  - ring.
  - rewrite IH. unfold rsum. ring.
Qed.

Lemma rsum_perm (l l' : list R) : Permutation l l' -> rsum l = rsum l'.
Proof.
  intros P. induction P as [| x l l' P IH | x y l | l l' l'' P1 IH1 P2 IH2]; unfold rsum in *; cbn [fold_right].
  - reflexivity.
  - rewrite IH. reflexivity.
  - ring.
  - rewrite IH1. exact IH2.
Qed.

Lemma rsum_map_ext {A} (f g : A -> R) (l : list A) : (forall a, f a = g a) -> rsum (map f l) = rsum (map g l).
Proof. intros E. rewrite (map_ext f g E). reflexivity. Qed.

Lemma rsum_map_scal {A} (c : R) (f : A -> R) (l : list A) : rsum (map (fun p => c * f p) l) = c * rsum (map f l).
Proof. unfold rsum. induction l as [|x l IH]; cbn [map fold_right]; [ring | rewrite IH; ring]. Qed.

Lemma rsum_app (l l' : list R) : rsum (l ++ l') = rsum l + rsum l'.
Proof. unfold rsum. induction l as [|x l IH]; cbn [app fold_right]; [ring | rewrite IH; ring]. Qed.

(* ------------------------------------------------------------------ volume *)
Lemma vol_term_det (p : triR) : vol_term NumR p = det3v p.
Proof.
  destruct p as [[[x1 y1 z1] [x2 y2 z2]] [x3 y3 z3]].
  unfold vol_term, det3v. vunfold. cbn [vx vy vz]. ring.
Qed.

Lemma six_signed_volume_sum (tris : list triR) : six_signed_volume NumR tris = rsum (map det3v tris).
Proof.
  unfold six_signed_volume. cbn [nadd nzero NumR].
  rewrite (fold_left_Rplus (vol_term NumR)).
  rewrite (rsum_map_ext _ _ tris vol_term_det). ring.
Qed.

Lemma Rabs_div6 (x : R) : Rabs (x / 6) = Rabs x / 6.
Proof. unfold Rdiv. rewrite Rabs_mult. rewrite (Rabs_pos_eq (/ 6)); [reflexivity | lra]. Qed.

Lemma volume_closed_form : forall tris : list triR,
  compute_volume NumR tris = Rabs (rsum (map det3v tris)) / 6.
Proof.
  intros tris. unfold compute_volume. cbn [nabs ndiv nofZ NumR].
  rewrite six_signed_volume_sum. apply Rabs_div6.
Qed.

Lemma volume_perm : forall tris tris' : list triR, Permutation tris tris' ->
  compute_volume NumR tris = compute_volume NumR tris'.
Proof.
  intros tris tris' P. rewrite !volume_closed_form.
  rewrite (rsum_perm _ _ (Permutation_map det3v P)). reflexivity.
Qed.

Lemma det3v_shift1 (p : triR) : det3v (shift1 p) = det3v p.
Proof.
  destruct p as [[[x1 y1 z1] [x2 y2 z2]] [x3 y3 z3]].
  unfold det3v, shift1. vunfold. cbn [vx vy vz]. ring.
Qed.

Lemma volume_shift : forall (tris : list triR) (sel : triR -> bool),
  compute_volume NumR (map (fun p => if sel p then shift1 p else p) tris) = compute_volume NumR tris.
Proof.
  intros tris sel. rewrite !volume_closed_form. rewrite map_map.
  rewrite (rsum_map_ext (fun x => det3v (if sel x then shift1 x else x)) det3v); [reflexivity|].
  intros p. destruct (sel p); [apply det3v_shift1 | reflexivity].
Qed.

Lemma det3v_scale (s : R) (p : triR) : det3v (tmap (fun q => q *v s) p) = (s * s * s) * det3v p.
Proof.
  destruct p as [[[x1 y1 z1] [x2 y2 z2]] [x3 y3 z3]].
  unfold det3v, tmap. vunfold. cbn [vx vy vz]. ring.
Qed.

Lemma volume_scale : forall (s : R) (tris : list triR),
  compute_volume NumR (map (tmap (fun p => p *v s)) tris) = Rabs s * Rabs s * Rabs s * compute_volume NumR tris.
Proof.
  intros s tris. rewrite !volume_closed_form. rewrite map_map.
  rewrite (rsum_map_ext (fun x => det3v (tmap (fun p => p *v s) x)) (fun x => (s * s * s) * det3v x)).
  2:{ intros p. apply det3v_scale. }
  rewrite rsum_map_scal. rewrite !Rabs_mult. unfold Rdiv. ring.
Qed.

Lemma det3v_rot (M : mat3) (p : triR) : det3v (tmap (mapply M) p) = det3 M * det3v p.
Proof.
  destruct M as [a11 a12 a13 a21 a22 a23 a31 a32 a33].
  destruct p as [[[x1 y1 z1] [x2 y2 z2]] [x3 y3 z3]].
  unfold det3v, tmap, mapply, det3. vunfold. cbn [vx vy vz m11 m12 m13 m21 m22 m23 m31 m32 m33]. ring.
Qed.

Lemma det3_sq (M : mat3) : orthogonal M -> det3 M * det3 M = 1.
Proof.
  intros (H1 & H2 & H3 & H4 & H5 & H6).
  destruct M as [a b c d e f g h i].
  unfold det3. cbn [m11 m12 m13 m21 m22 m23 m31 m32 m33] in *.
  nsatz.
Qed.

Lemma Rabs_det3 (M : mat3) : orthogonal M -> Rabs (det3 M) = 1.
Proof.
  intros H. pose proof (det3_sq M H) as E.
  pose proof (Rabs_pos (det3 M)) as P.
  assert (E' : Rabs (det3 M) * Rabs (det3 M) = 1).
  { rewrite <- Rabs_mult. rewrite E. apply Rabs_R1. }
  nra.
Qed.

Lemma volume_rotate : forall (M : mat3) (tris : list triR), orthogonal M ->
  compute_volume NumR (map (tmap (mapply M)) tris) = compute_volume NumR tris.
Proof.
  intros M tris HM. rewrite !volume_closed_form. rewrite map_map.
  rewrite (rsum_map_ext (fun x => det3v (tmap (mapply M) x)) (fun x => det3 M * det3v x)).
  2:{ intros p. apply det3v_rot. }
  rewrite rsum_map_scal. rewrite Rabs_mult. rewrite (Rabs_det3 M HM). unfold Rdiv. ring.
Qed.

(* ------------------------------------------------------------------ translation of a closed surface *)
Lemma pos_of_map (f : vR -> vR) (nodes : list vR) (i : N) : (N.to_nat i < length nodes)%nat ->
  pos_of NumR (map f nodes) i = f (pos_of NumR nodes i).
Proof.
  intros H. unfold pos_of.
  rewrite (nth_indep (map f nodes) (vzero NumR) (f (vzero NumR))).
  - apply map_nth.
  - rewrite map_length. exact H.
Qed.

Lemma tri_pos_abc (nodes : list vR) (a b c : N) :
  tri_pos NumR nodes (a, b, c) = (pos_of NumR nodes a, pos_of NumR nodes b, pos_of NumR nodes c).
Proof. reflexivity. Qed.

Lemma hedge_sum_faces (g : N -> N -> R) (faces : list tri) :
  fold_right (fun e acc => g (fst e) (snd e) + acc) 0 (all_hedges faces) =
  rsum (map (fun f : tri => let '(a, b, c) := f in g a b + g b c + g c a) faces).
Proof.
  unfold all_hedges, rsum. induction faces as [|f r IH].
  - reflexivity.
  - destruct f as [[a b] c]. cbn [flat_map hedges app fold_right map fst snd].
    rewrite IH. ring.
Qed.

Lemma det3v_translate (p1 p2 p3 t : vR) :
  det3v (p1 +v t, p2 +v t, p3 +v t) =
  det3v (p1, p2, p3) + (t ·  (p1 × p2) + t ·  (p2 × p3) + t ·  (p3 × p1)).
Proof.
  destruct p1 as [x1 y1 z1], p2 as [x2 y2 z2], p3 as [x3 y3 z3], t as [tx ty tz].
  unfold det3v. vunfold. cbn [vx vy vz]. ring.
Qed.

Lemma translate_sum (nodes : list vR) (t : vR) (faces : list tri) : ids_in_range nodes faces ->
  rsum (map det3v (map (tri_pos NumR (map (fun p => p +v t) nodes)) faces)) =
  rsum (map det3v (map (tri_pos NumR nodes) faces)) +
  rsum (map (fun f : tri => let '(a, b, c) := f in
               t ·  (pos_of NumR nodes a × pos_of NumR nodes b) +
               t ·  (pos_of NumR nodes b × pos_of NumR nodes c) +
               t ·  (pos_of NumR nodes c × pos_of NumR nodes a)) faces).
Proof.
  unfold ids_in_range, all_nodes. induction faces as [|f r IH]; intros Hr.
  - unfold rsum; cbn [map fold_right]. ring.
  - destruct f as [[a b] c]. cbn [flat_map tri_nodes app] in Hr.
    inversion Hr as [|? ? Ha Hr1]; subst. inversion Hr1 as [|? ? Hb Hr2]; subst.
    inversion Hr2 as [|? ? Hc Hr3]; subst.
    specialize (IH Hr3).
    cbn [map]. unfold rsum in *. cbn [fold_right]. rewrite IH.
    rewrite !tri_pos_abc. rewrite !pos_of_map by assumption.
    rewrite det3v_translate. ring.
Qed.

Lemma volume_translate : forall (nodes : list vR) (faces : list tri) (t : vR),
  ValidSurface faces -> ids_in_range nodes faces ->
  compute_volume NumR (map (tri_pos NumR (map (fun p => p +v t) nodes)) faces) =
  compute_volume NumR (map (tri_pos NumR nodes) faces).
Proof.
  intros nodes faces t HV Hr. rewrite !volume_closed_form.
  rewrite (translate_sum nodes t faces Hr).
  rewrite <- (hedge_sum_faces (fun a b => t ·  (pos_of NumR nodes a × pos_of NumR nodes b))).
  rewrite (antisym_sum_zero_R faces (fun a b => t ·  (pos_of NumR nodes a × pos_of NumR nodes b)) HV).
  - rewrite Rplus_0_r. reflexivity.
  - intros a b. destruct (pos_of NumR nodes a) as [x1 y1 z1], (pos_of NumR nodes b) as [x2 y2 z2], t as [tx ty tz].
    vunfold. cbn [vx vy vz]. ring.
Qed.

Lemma renumber_tris : forall (sigma : N -> N) (nodes nodes' : list vR) (faces : list tri),
  (forall i, In i (all_nodes faces) -> pos_of NumR nodes' (sigma i) = pos_of NumR nodes i) ->
  map (tri_pos NumR nodes') (map (rename sigma) faces) = map (tri_pos NumR nodes) faces.
Proof.
  intros sigma nodes nodes' faces H. rewrite map_map. apply map_ext_in.
  intros [[a b] c] Hin. unfold rename, tri_pos.
  assert (Hn : forall i, In i [a; b; c] -> In i (all_nodes faces)).
  { intros i Hi. unfold all_nodes. apply in_flat_map. exists (a, b, c). split; [exact Hin | exact Hi]. }
  rewrite (H a), (H b), (H c).
  - reflexivity.
  - apply Hn; cbn; auto.
  - apply Hn; cbn; auto.
  - apply Hn; cbn; auto.
Qed.

(* ------------------------------------------------------------------ area *)
Lemma area_closed_form : forall tris : list triR,
  compute_area NumR tris = rsum (map (face_area NumR) tris).
Proof.
  intros tris. unfold compute_area. cbn [nadd nzero NumR].
  rewrite (fold_left_Rplus (face_area NumR)). ring.
Qed.

Lemma area_map_invariant (f : triR -> triR) (tris : list triR) :
  (forall p, face_area NumR (f p) = face_area NumR p) ->
  compute_area NumR (map f tris) = compute_area NumR tris.
Proof.
  intros H. rewrite !area_closed_form. rewrite map_map.
  apply rsum_map_ext. exact H.
Qed.

Lemma face_area_unfold (p : triR) : face_area NumR p = 1 / 2 * sqrt (sqn (face_normal_raw NumR p)).
Proof. reflexivity. Qed.

Lemma sqn_cross_rot (M : mat3) (u v : vR) : orthogonal M ->
  sqn (mapply M u × mapply M v) = sqn (u × v).
Proof. intros H. rewrite !lagrange, !sqn_rot, dot_rot by assumption. reflexivity. Qed.

Lemma face_area_rigid (M : mat3) (t : vR) (p : triR) : orthogonal M ->
  face_area NumR (tmap (rigid M t) p) = face_area NumR p.
Proof.
  intros H. destruct p as [[p1 p2] p3]. rewrite !face_area_unfold.
  unfold tmap, face_normal_raw. rewrite !rigid_sub. rewrite sqn_cross_rot by assumption. reflexivity.
Qed.

Lemma area_rigid : forall (M : mat3) (t : vR) (tris : list triR), orthogonal M ->
  compute_area NumR (map (tmap (rigid M t)) tris) = compute_area NumR tris.
Proof. intros M t tris H. apply area_map_invariant. intros p. apply face_area_rigid; assumption. Qed.

Lemma raw_scale (s : R) (p : triR) :
  sqn (face_normal_raw NumR (tmap (fun q => q *v s) p)) = (s * s) * (s * s) * sqn (face_normal_raw NumR p).
Proof.
  destruct p as [[[x1 y1 z1] [x2 y2 z2]] [x3 y3 z3]].
  unfold tmap, face_normal_raw. vunfold. cbn [vx vy vz]. ring.
Qed.

Lemma face_area_scale (s : R) (p : triR) :
  face_area NumR (tmap (fun q => q *v s) p) = s * s * face_area NumR p.
Proof.
  rewrite !face_area_unfold. rewrite raw_scale.
  assert (Hs : 0 <= s * s) by nra.
  rewrite sqrt_mult.
  - rewrite (sqrt_square (s * s) Hs). unfold Rdiv. ring.
  - nra.
  - apply sqn_nonneg.
Qed.

Lemma area_scale : forall (s : R) (tris : list triR),
  compute_area NumR (map (tmap (fun p => p *v s)) tris) = s * s * compute_area NumR tris.
Proof.
  intros s tris. rewrite !area_closed_form. rewrite map_map.
  rewrite (rsum_map_ext (fun x => face_area NumR (tmap (fun p => p *v s) x)) (fun x => (s * s) * face_area NumR x)).
  - apply rsum_map_scal.
  - intros p. apply face_area_scale.
Qed.

Lemma area_perm : forall tris tris' : list triR, Permutation tris tris' ->
  compute_area NumR tris = compute_area NumR tris'.
Proof.
  intros tris tris' P. rewrite !area_closed_form.
  apply rsum_perm. apply Permutation_map. exact P.
Qed.

Lemma raw_shift1 (p : triR) : face_normal_raw NumR (shift1 p) = face_normal_raw NumR p.
Proof.
  destruct p as [[[x1 y1 z1] [x2 y2 z2]] [x3 y3 z3]].
  unfold shift1, face_normal_raw. vunfold. apply vec3_eq; cbn [vx vy vz]; ring.
Qed.

Lemma area_shift : forall (tris : list triR) (sel : triR -> bool),
  compute_area NumR (map (fun p => if sel p then shift1 p else p) tris) = compute_area NumR tris.
Proof.
  intros tris sel. apply (area_map_invariant (fun p => if sel p then shift1 p else p)).
  intros p. destruct (sel p); [|reflexivity].
  rewrite !face_area_unfold, raw_shift1. reflexivity.
Qed.

Lemma raw_flip1 (p : triR) : sqn (face_normal_raw NumR (flip1 p)) = sqn (face_normal_raw NumR p).
Proof.
  destruct p as [[[x1 y1 z1] [x2 y2 z2]] [x3 y3 z3]].
  unfold flip1, face_normal_raw. vunfold. cbn [vx vy vz]. ring.
Qed.

Lemma area_flip : forall (tris : list triR) (sel : triR -> bool),
  compute_area NumR (map (fun p => if sel p then flip1 p else p) tris) = compute_area NumR tris.
Proof.
  intros tris sel. apply (area_map_invariant (fun p => if sel p then flip1 p else p)).
  intros p. destruct (sel p); [|reflexivity].
  rewrite !face_area_unfold, raw_flip1. reflexivity.
Qed.

(* ------------------------------------------------------------------ centroid *)
Lemma fold_left_vadd {A} (f : A -> vR) (l : list A) (a : vR) :
  fold_left (fun c p => c +v f p) l a = a +v vsum (map f l).
Proof.
  revert a. induction l as [|x l IH]; intros a; cbn [fold_left map].
  - unfold vsum; cbn [fold_right]. destruct a as [ax ay az]. vunfold. apply vec3_eq; cbn [vx vy vz]; ring.
  - rewrite IH. unfold vsum; cbn [fold_right].
    destruct a as [ax ay az]. vunfold. apply vec3_eq; cbn [vx vy vz]; ring.
Qed.

Lemma centroid_closed_form : forall (tris : list triR) (A : R),
  compute_centroid NumR tris A =
  vdivs NumR (vsum (map (fun p => face_centroid NumR p *v face_area NumR p) tris)) A.
Proof.
  intros tris A. unfold compute_centroid.
  rewrite (fold_left_vadd (fun p => face_centroid NumR p *v face_area NumR p)).
  f_equal. vunfold. apply vec3_eq; cbn [vx vy vz]; ring.
Qed.

Lemma face_centroid_rigid (M : mat3) (t : vR) (p : triR) :
  face_centroid NumR (tmap (rigid M t) p) = rigid M t (face_centroid NumR p).
Proof.
  destruct M as [a11 a12 a13 a21 a22 a23 a31 a32 a33].
  destruct p as [[[x1 y1 z1] [x2 y2 z2]] [x3 y3 z3]]. destruct t as [tx ty tz].
  unfold face_centroid, tmap, rigid, mapply. vunfold.
  cbn [vx vy vz m11 m12 m13 m21 m22 m23 m31 m32 m33 nofZ NumR].
  apply vec3_eq; cbn [vx vy vz]; field.
Qed.

Lemma vsum_rigid {A} (M : mat3) (t : vR) (c : A -> vR) (a : A -> R) (l : list A) :
  vsum (map (fun p => rigid M t (c p) *v a p) l) =
  mapply M (vsum (map (fun p => c p *v a p) l)) +v t *v rsum (map a l).
Proof.
  unfold vsum, rsum. induction l as [|x l IH]; cbn [map fold_right].
  - destruct M as [a11 a12 a13 a21 a22 a23 a31 a32 a33]. destruct t as [tx ty tz].
    unfold mapply. vunfold. cbn [vx vy vz m11 m12 m13 m21 m22 m23 m31 m32 m33].
    apply vec3_eq; cbn [vx vy vz]; ring.
  - rewrite IH.
    destruct M as [a11 a12 a13 a21 a22 a23 a31 a32 a33]. destruct t as [tx ty tz].
    destruct (c x) as [cx cy cz].
    unfold rigid, mapply. vunfold. cbn [vx vy vz m11 m12 m13 m21 m22 m23 m31 m32 m33].
    apply vec3_eq; cbn [vx vy vz]; ring.
Qed.

Lemma centroid_rigid : forall (M : mat3) (t : vR) (tris : list triR), orthogonal M ->
  compute_area NumR tris <> 0 ->
  compute_centroid NumR (map (tmap (rigid M t)) tris) (compute_area NumR (map (tmap (rigid M t)) tris)) =
  rigid M t (compute_centroid NumR tris (compute_area NumR tris)).
Proof.
  intros M t tris HM HA.
  rewrite (area_rigid M t tris HM). rewrite !centroid_closed_form. rewrite map_map.
  rewrite (map_ext (fun x => face_centroid NumR (tmap (rigid M t) x) *v face_area NumR (tmap (rigid M t) x))
                   (fun x => rigid M t (face_centroid NumR x) *v face_area NumR x)).
  2:{ intros p. rewrite face_centroid_rigid, (face_area_rigid M t p HM). reflexivity. }
  rewrite (vsum_rigid M t (face_centroid NumR) (face_area NumR) tris).
  rewrite <- area_closed_form.
  set (Ar := compute_area NumR tris) in *.
  set (W := vsum (map (fun p => face_centroid NumR p *v face_area NumR p) tris)).
  destruct M as [a11 a12 a13 a21 a22 a23 a31 a32 a33]. destruct t as [tx ty tz]. destruct W as [wx wy wz].
  unfold rigid, mapply. vunfold. cbn [vx vy vz m11 m12 m13 m21 m22 m23 m31 m32 m33].
  apply vec3_eq; cbn [vx vy vz]; field; exact HA.
Qed.

(* ------------------------------------------------------------------ bounding box *)
Definition LoInv (S : vR -> Prop) (c : vR -> R) (l : R) : Prop :=
  (forall p, S p -> l <= c p) /\ (exists p, S p /\ c p = l).
Definition HiInv (S : vR -> Prop) (c : vR -> R) (h : R) : Prop :=
  (forall p, S p -> c p <= h) /\ (exists p, S p /\ c p = h).

Lemma LoInv_step (S : vR -> Prop) (c : vR -> R) (l : R) (q : vR) : LoInv S c l ->
  LoInv (fun p => S p \/ p = q) c (if Rltb (c q) l then c q else l).
Proof.
  intros [Hb [w [Hw Ew]]]. destruct (Rltb_spec (c q) l) as [Hlt | Hge]; split.
  - intros p [Hp | Hp]; [specialize (Hb p Hp); lra | subst p; lra].
  - exists q. split; [right; reflexivity | reflexivity].
  - intros p [Hp | Hp]; [apply Hb; assumption | subst p; lra].
  - exists w. split; [left; assumption | assumption].
Qed.

Lemma HiInv_step (S : vR -> Prop) (c : vR -> R) (h : R) (q : vR) : HiInv S c h ->
  HiInv (fun p => S p \/ p = q) c (if Rltb h (c q) then c q else h).
Proof.
  intros [Hb [w [Hw Ew]]]. destruct (Rltb_spec h (c q)) as [Hlt | Hge]; split.
  - intros p [Hp | Hp]; [specialize (Hb p Hp); lra | subst p; lra].
  - exists q. split; [right; reflexivity | reflexivity].
  - intros p [Hp | Hp]; [apply Hb; assumption | subst p; lra].
  - exists w. split; [left; assumption | assumption].
Qed.

Lemma LoInv_ext (S S' : vR -> Prop) c l : (forall p, S p <-> S' p) -> LoInv S c l -> LoInv S' c l.
Proof.
  intros E [Hb [w [Hw Ew]]]. split.
  - intros p Hp. apply Hb. apply E. assumption.
  - exists w. split; [apply E; assumption | assumption].
Qed.
Lemma HiInv_ext (S S' : vR -> Prop) c h : (forall p, S p <-> S' p) -> HiInv S c h -> HiInv S' c h.
Proof.
  intros E [Hb [w [Hw Ew]]]. split.
  - intros p Hp. apply Hb. apply E. assumption.
  - exists w. split; [apply E; assumption | assumption].
Qed.

Definition BoxInv (S : vR -> Prop) (lo hi : vR) : Prop :=
  LoInv S vx (vx lo) /\ LoInv S vy (vy lo) /\ LoInv S vz (vz lo) /\
  HiInv S vx (vx hi) /\ HiInv S vy (vy hi) /\ HiInv S vz (vz hi).

Lemma BoxInv_ext (S S' : vR -> Prop) lo hi : (forall p, S p <-> S' p) -> BoxInv S lo hi -> BoxInv S' lo hi.
Proof.
  intros E (H1 & H2 & H3 & H4 & H5 & H6).
  repeat split; first [eapply LoInv_ext; eassumption | eapply HiInv_ext; eassumption].
Qed.

Definition astep (b : vR * vR) (q : vR) : vR * vR :=
  let '(lo, hi) := b in
  (mkv (if Rltb (vx q) (vx lo) then vx q else vx lo)
       (if Rltb (vy q) (vy lo) then vy q else vy lo)
       (if Rltb (vz q) (vz lo) then vz q else vz lo),
   mkv (if Rltb (vx hi) (vx q) then vx q else vx hi)
       (if Rltb (vy hi) (vy q) then vy q else vy hi)
       (if Rltb (vz hi) (vz q) then vz q else vz hi)).

Lemma aabb_cons (p : vR) (r : list vR) : aabb NumR (p :: r) = Some (fold_left astep r (p, p)).
Proof. reflexivity. Qed.

Lemma aabb_fold (r : list vR) : forall (S : vR -> Prop) (lo hi lo' hi' : vR),
  BoxInv S lo hi -> fold_left astep r (lo, hi) = (lo', hi') ->
  BoxInv (fun p => S p \/ In p r) lo' hi'.
Proof.
  induction r as [|q r IH]; intros S lo hi lo' hi' HI HF.
  - cbn [fold_left] in HF. injection HF as E1 E2. subst lo' hi'.
    apply (BoxInv_ext S); [|assumption]. intros p. cbn [In]. tauto.
  - cbn [fold_left] in HF. unfold astep at 2 in HF.
    destruct HI as (H1 & H2 & H3 & H4 & H5 & H6).
    assert (HS : BoxInv (fun p => S p \/ p = q)
                   (mkv (if Rltb (vx q) (vx lo) then vx q else vx lo)
                        (if Rltb (vy q) (vy lo) then vy q else vy lo)
                        (if Rltb (vz q) (vz lo) then vz q else vz lo))
                   (mkv (if Rltb (vx hi) (vx q) then vx q else vx hi)
                        (if Rltb (vy hi) (vy q) then vy q else vy hi)
                        (if Rltb (vz hi) (vz q) then vz q else vz hi))).
    { unfold BoxInv. cbn [vx vy vz].
      repeat split; first [apply LoInv_step; assumption | apply HiInv_step; assumption]. }
    pose proof (IH (fun p => S p \/ p = q) _ _ _ _ HS HF) as HB.
    apply (BoxInv_ext (fun p => (S p \/ p = q) \/ In p r)); [|exact HB].
    intros p. cbn [In]. split.
    + intros [[H | H] | H]; [left; assumption | right; left; symmetry; assumption | right; right; assumption].
    + intros [H | [H | H]]; [left; left; assumption | left; right; symmetry; assumption | right; assumption].
Qed.

Lemma aabb_is_tight : forall (pts : list vR) (lo hi : vR), aabb NumR pts = Some (lo, hi) ->
  (forall p, In p pts -> vx lo <= vx p <= vx hi /\ vy lo <= vy p <= vy hi /\ vz lo <= vz p <= vz hi) /\
  (exists p, In p pts /\ vx p = vx lo) /\ (exists p, In p pts /\ vy p = vy lo) /\ (exists p, In p pts /\ vz p = vz lo) /\
  (exists p, In p pts /\ vx p = vx hi) /\ (exists p, In p pts /\ vy p = vy hi) /\ (exists p, In p pts /\ vz p = vz hi).
Proof.
  intros pts lo hi H. destruct pts as [|p0 r].
  - cbn in H. discriminate H.
  - rewrite aabb_cons in H. injection H as HF.
    assert (HI0 : BoxInv (fun x => x = p0) p0 p0).
    { unfold BoxInv, LoInv, HiInv.
      repeat split; try (intros p Hp; subst p; lra); exists p0; split; reflexivity. }
    pose proof (aabb_fold r _ _ _ _ _ HI0 HF) as HB.
    apply (BoxInv_ext _ (fun x => In x (p0 :: r))) in HB.
    2:{ intros x. cbn [In]. split; intros [Hx | Hx]; auto. }
    destruct HB as ([B1 X1] & [B2 X2] & [B3 X3] & [B4 X4] & [B5 X5] & [B6 X6]).
    split; [|repeat split; assumption].
    intros p Hp. specialize (B1 p Hp). specialize (B2 p Hp). specialize (B3 p Hp).
    specialize (B4 p Hp). specialize (B5 p Hp). specialize (B6 p Hp). lra.
Qed.

(* ------------------------------------------------------------------ normals *)
Lemma sqn_vdivs (n : vR) (l : R) : l <> 0 -> sqn (vdivs NumR n l) = sqn n / (l * l).
Proof. intros Hl. destruct n as [x y z]. vunfold. cbn [vx vy vz]. field. exact Hl. Qed.

Lemma vdivs_scale (n : vR) (l : R) : l <> 0 -> vdivs NumR n l *v l = n.
Proof. intros Hl. destruct n as [x y z]. vunfold. apply vec3_eq; cbn [vx vy vz]; field; exact Hl. Qed.

Lemma normal_unit : forall p : triR, vnorm NumR (face_normal_raw NumR p) <> 0 ->
  face_normal NumR p *v vnorm NumR (face_normal_raw NumR p) = face_normal_raw NumR p /\
  sqn (face_normal NumR p) = 1.
Proof.
  intros p Hl. unfold face_normal. cbn [neqb nzero NumR].
  set (n := face_normal_raw NumR p) in *. set (l := vnorm NumR n) in *.
  destruct (Reqb_spec l 0) as [E | NE]; [contradiction|].
  split.
  - apply vdivs_scale. exact NE.
  - rewrite sqn_vdivs by exact NE.
    assert (Hll : l * l = sqn n).
    { unfold l, vnorm. cbn [nsqrt NumR]. apply sqrt_sqrt. apply sqn_nonneg. }
    rewrite <- Hll. field. exact NE.
Qed.

(* ------------------------------------------------------------------ orientation repair *)
Definition flipt (t : tri) : tri := let '(a, b, c) := t in (a, c, b).

Lemma orient_signed_sum (tris : list triR) : orient_signed NumR tris = rsum (map (orient_term NumR) tris).
Proof.
  unfold orient_signed. cbn [nadd nzero NumR].
  rewrite (fold_left_Rplus (orient_term NumR)). ring.
Qed.

Lemma orient_term_flip (nodes : list vR) (t : tri) :
  orient_term NumR (tri_pos NumR nodes (flipt t)) = (-1) * orient_term NumR (tri_pos NumR nodes t).
Proof.
  destruct t as [[a b] c]. unfold flipt. rewrite !tri_pos_abc.
  destruct (pos_of NumR nodes a) as [x1 y1 z1], (pos_of NumR nodes b) as [x2 y2 z2], (pos_of NumR nodes c) as [x3 y3 z3].
  unfold orient_term. cbn [vx vy vz nadd nsub nmul NumR]. ring.
Qed.

Lemma repair_nonneg : forall (nodes : list vR) (faces faces' : list tri),
  repair_orientation NumR nodes faces = Some faces' ->
  0 <= orient_signed NumR (map (tri_pos NumR nodes) faces').
Proof.
  intros nodes faces faces' H. unfold repair_orientation in H.
  destruct (orient_consistently faces) as [fs|]; [|discriminate H].
  injection H as H.
  assert (Hf : faces' = if Rltb (orient_signed NumR (map (tri_pos NumR nodes) fs)) 0 then map flipt fs else fs).
  { rewrite <- H. reflexivity. }
  clear H.
  destruct (Rltb_spec (orient_signed NumR (map (tri_pos NumR nodes) fs)) 0) as [Hlt | Hge].
  - subst faces'. rewrite orient_signed_sum in *. rewrite !map_map.
    rewrite (rsum_map_ext (fun x => orient_term NumR (tri_pos NumR nodes (flipt x)))
               (fun x => (-1) * orient_term NumR (tri_pos NumR nodes x))).
    2:{ intros t. apply orient_term_flip. }
    rewrite rsum_map_scal. rewrite map_map in Hlt. lra.
  - subst faces'. lra.
Qed.

Lemma same_triangle_refl (t : tri) : same_triangle t t.
Proof. destruct t as [[a b] c]. unfold same_triangle. left. reflexivity. Qed.

Lemma same_triangle_trans (t u v : tri) : same_triangle t u -> same_triangle u v -> same_triangle t v.
Proof.
  destruct t as [[a b] c]. unfold same_triangle at 1.
  intros [H | [H | [H | [H | [H | H]]]]]; subst u; unfold same_triangle;
    intros [H | [H | [H | [H | [H | H]]]]]; subst v; auto 10.
Qed.

Lemma same_triangle_flipt (t : tri) : same_triangle t (flipt t).
Proof. destruct t as [[a b] c]. unfold same_triangle, flipt. auto 10. Qed.

Lemma fix_winding_same (rf cf cf' : tri) : fix_winding rf cf = Some cf' -> same_triangle cf cf'.
Proof.
  destruct cf as [[a b] c]. unfold fix_winding.
  destruct (common_local_ids rf (a, b, c)) as [|[r0 c0] [|[r1 c1] rest]]; try discriminate.
  destruct (Bool.eqb (Nat.eqb (Nat.modulo (r0 + 1) 3) r1) (Nat.eqb (Nat.modulo (c0 + 1) 3) c1));
    intros H; injection H as H; subst cf'; unfold same_triangle; auto 10.
Qed.

Lemma Forall2_same_refl (l : list tri) : Forall2 same_triangle l l.
Proof. induction l as [|t l IH]; constructor; [apply same_triangle_refl | exact IH]. Qed.

Lemma F2_set_nth (l0 l : list tri) : Forall2 same_triangle l0 l ->
  forall (k : nat) (y y' : tri), nth_error l k = Some y -> same_triangle y y' ->
  Forall2 same_triangle l0 (set_nth_tri l k y').
Proof.
  intros HF. induction HF as [|x y0 l0 l Hxy HF IH]; intros k y y' Hn Hs.
  - destruct k; cbn in Hn; discriminate Hn.
  - destruct k as [|k]; cbn [nth_error set_nth_tri] in *.
    + injection Hn as Hn. subst y0. constructor; [|exact HF].
      apply (same_triangle_trans x y y'); assumption.
    + constructor; [exact Hxy|]. apply (IH k y y'); assumption.
Qed.

Lemma orient_loop_same (fuel : nat) : forall (faces : list tri) (checked : list nat) (queue : list (nat * nat))
  (res l0 : list tri), orient_loop fuel faces checked queue = Some res ->
  Forall2 same_triangle l0 faces -> Forall2 same_triangle l0 res.
Proof.
  induction fuel as [|k IH]; intros faces checked queue res l0 H HF.
  - cbn in H. discriminate H.
  - cbn [orient_loop] in H. destruct queue as [|[rid cid] q].
    + injection H as H. subst res. exact HF.
    + destruct (existsb (Nat.eqb cid) checked).
      * apply (IH _ _ _ _ _ H HF).
      * destruct (nth_error faces rid) as [rf|]; [|discriminate H].
        destruct (nth_error faces cid) as [cf|] eqn:Ec; [|discriminate H].
        destruct (fix_winding rf cf) as [cf'|] eqn:Ef; [|discriminate H].
        cbv zeta in H.
        destruct (nbr3 (set_nth_tri faces cid cf') cid) as [[[f1 f2] f3]|]; [|discriminate H].
        apply (IH _ _ _ _ _ H).
        apply (F2_set_nth l0 faces HF cid cf cf' Ec).
        apply (fix_winding_same rf cf cf' Ef).
Qed.

Lemma orient_consistently_same (faces fs : list tri) : orient_consistently faces = Some fs ->
  Forall2 same_triangle faces fs.
Proof.
  unfold orient_consistently. destruct (nbr3 faces 0) as [[[f1 f2] f3]|]; [|discriminate].
  intros H. apply (orient_loop_same _ _ _ _ _ _ H). apply Forall2_same_refl.
Qed.

Lemma F2_flipt (l0 l : list tri) : Forall2 same_triangle l0 l -> Forall2 same_triangle l0 (map flipt l).
Proof.
  intros HF. induction HF as [|x y l0 l Hxy HF IH]; cbn [map]; constructor; [|exact IH].
  apply (same_triangle_trans x y (flipt y)); [exact Hxy | apply same_triangle_flipt].
Qed.

Lemma repair_same_triangles : forall (nodes : list vR) (faces faces' : list tri),
  repair_orientation NumR nodes faces = Some faces' -> Forall2 same_triangle faces faces'.
Proof.
  intros nodes faces faces' H. unfold repair_orientation in H.
  destruct (orient_consistently faces) as [fs|] eqn:E; [|discriminate H].
  injection H as H. apply orient_consistently_same in E.
  assert (Hf : faces' = if Rltb (orient_signed NumR (map (tri_pos NumR nodes) fs)) 0 then map flipt fs else fs).
  { rewrite <- H. reflexivity. }
  clear H.
  destruct (Rltb (orient_signed NumR (map (tri_pos NumR nodes) fs)) 0); subst faces'.
  - apply F2_flipt. exact E.
  - exact E.
Qed.
