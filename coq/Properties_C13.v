(* Properties_C13.v — property C13 (partial): initial surface reconstruction returns a faithful closed mesh or fails
   cleanly.  Only statements; every proof is `exact <lemma of InitProofs.v>`.  Model: Init.v (acceptance gate, retry
   machine, Poisson disk sampling) + Mesh.v + Grid.v.  NOT covered by theorems: the success of ball pivoting and hole
   filling, the fidelity of the result (volume, bounding box, distance to the input surface: no code enforces it; it is
   measured by the check), and that the flood fill of check_face_normal_orientation yields a consistent orientation
   (an explicit premise below; judged on every returned cell by the proved oracle valid_surface_b). *)
From Coq Require Import Reals Lra NArith ZArith Bool List Arith.
From Flocq Require Import Core.Raux.
From SC Require Import Num Mesh MeshProofs Geometry GeometrySpec Grid GridProofs Init InitProofs.
Import ListNotations.

(* ---- the acceptance gate (cell::initialize_cell_properties(true)) *)
(* an open surface (an edge with one face) and an edge with three faces are rejected *)
Theorem gate_rejects_edge_without_two_faces : forall (s : list tri) (e : hedge),
  In e (all_uedges s) -> count_uedge e (all_uedges s) <> 2%nat -> gate_b s = false.
Proof. exact gate_rejects_bad_edge. Qed.
Print Assumptions gate_rejects_edge_without_two_faces.

Theorem gate_rejects_wrong_euler_characteristic : forall s : list tri, euler_edges_b s = false -> gate_b s = false.
Proof. exact gate_rejects_euler. Qed.
Print Assumptions gate_rejects_wrong_euler_characteristic.

(* the gate does not look at windings: the orientation repair, which only changes windings, cannot invalidate it *)
Theorem gate_ignores_windings : forall s s' : list tri, Forall2 same_triangle s s' -> gate_b s' = gate_b s.
Proof. exact gate_same_triangles. Qed.
Print Assumptions gate_ignores_windings.

(* what the gate accepts, once consistently oriented (no directed edge twice) and free of degenerate triangles, is a
   closed, consistently oriented surface with V - E + F = 2: never an open, non-manifold or wrongly counted one *)
Theorem gate_accepts_only_valid_surfaces : forall s : list tri,
  gate_b s = true -> Forall tri_distinct s -> NoDup (all_hedges s) -> ValidSurface s.
Proof. exact gate_accepts_valid. Qed.
Print Assumptions gate_accepts_only_valid_surfaces.

(* a valid surface passes the gate (the gate never rejects a good mesh) *)
Theorem gate_accepts_every_valid_surface : forall s : list tri, ValidSurface s -> gate_b s = true.
Proof. exact valid_passes_gate. Qed.
Print Assumptions gate_accepts_every_valid_surface.

(* ---- the retry machine of simulation_initializer::triangulate_surface: a cell is returned only from an accepted
   attempt, the first one among at most ten; after ten failures the initialisation fails (exception), never more *)
Theorem retry_returns_first_accepted_attempt : forall (C E : Type) (attempts : nat -> attempt (C:=C) (E:=E)) c k,
  triangulate_with_retries attempts = Cell c k <->
  (1 <= k <= 10)%nat /\ attempts (k - 1)%nat = Accepted c /\ (forall i, (i < k - 1)%nat -> exists e, attempts i = Failed e).
Proof. exact retry_cell_iff. Qed.
Print Assumptions retry_returns_first_accepted_attempt.

Theorem retry_gives_up_after_ten_failures : forall (C E : Type) (attempts : nat -> attempt (C:=C) (E:=E)) k,
  triangulate_with_retries attempts = GaveUp k <->
  k = 10%nat /\ (forall i, (i < 10)%nat -> exists e, attempts i = Failed e).
Proof. exact retry_gaveup_iff. Qed.
Print Assumptions retry_gives_up_after_ten_failures.

(* ---- Poisson disk sampling: for EVERY candidate stream (the random points are inputs), the points in the second
   grid stay pairwise at least l_min apart, provided the points it started with were *)
Local Open Scope R_scope.
Definition in_box (lo hi p : R * R * R) : Prop :=
  let '(lx, ly, lz) := lo in let '(hx, hy, hz) := hi in let '(x, y, z) := p in
  lx <= x <= hx /\ ly <= y <= hy /\ lz <= z <= hz.
Definition box_ok (lo hi : R * R * R) : Prop :=
  let '(lx, ly, lz) := lo in let '(hx, hy, hz) := hi in lx < hx /\ ly < hy /\ lz < hz.
Definition points (st : store (A:=opoint (T:=R))) : list (opoint (T:=R)) := concat st.
Definition spaced (l2 : R) (l : list (opoint (T:=R))) : Prop :=
  ForallOrdPairs (fun p q => l2 <= sqd NumR (op_pos p) (op_pos q)) l.
Definition stored_by_position (g : dims (T:=R)) (st : store (A:=opoint (T:=R))) : Prop :=
  forall k o, In o (nth k st []) -> in_range g (idx3 NumR Zfloor g (op_pos o)) = true /\ k = Z.to_nat (flat g (idx3 NumR Zfloor g (op_pos o))).

Theorem poisson_points_at_least_lmin_apart :
  forall (eps lmin : R) (lo hi : R * R * R) (st1 st2 st2' : store (A:=opoint (T:=R))),
  0 <= eps -> 0 < lmin -> box_ok lo hi ->
  let g := update_dimensions NumR Zceil eps lmin lo hi in
  (forall o, In o (points st1) -> in_box lo hi (op_pos o)) ->
  (forall o, In o (points st2) -> in_box lo hi (op_pos o)) ->
  stored_by_position g st1 ->          (* the candidates were placed in the first grid by their positions *)
  length st2 = Z.to_nat (nvox g) ->
  stored_by_position g st2 -> spaced (lmin * lmin) (points st2) ->
  poisson NumR Zfloor g (lmin * lmin) st1 st2 = Some st2' ->
  spaced (lmin * lmin) (points st2') /\ stored_by_position g st2'.
Proof. exact poisson_spacing. Qed.
Print Assumptions poisson_points_at_least_lmin_apart.

(* in particular, starting from the empty grid (initial triangulation), all sampled points are pairwise l_min apart *)
Theorem poisson_cloud_spaced_from_empty_grid :
  forall (eps lmin : R) (lo hi : R * R * R) (st1 st2' : store (A:=opoint (T:=R))),
  0 <= eps -> 0 < lmin -> box_ok lo hi ->
  let g := update_dimensions NumR Zceil eps lmin lo hi in
  (forall o, In o (points st1) -> in_box lo hi (op_pos o)) ->
  stored_by_position g st1 ->
  poisson NumR Zfloor g (lmin * lmin) st1 (empty_store g) = Some st2' ->
  spaced (lmin * lmin) (points st2').
Proof. exact poisson_spacing_empty. Qed.
Print Assumptions poisson_cloud_spaced_from_empty_grid.

(* non-vacuity: the tetrahedron passes the gate *)
Example gate_accepts_tetrahedron : gate_b [(0,1,2); (0,3,1); (0,2,3); (1,3,2)]%N = true.
Proof. vm_compute. reflexivity. Qed.
