(* VecR.v — vec3 over R: destructors, ring-level facts, boolean reflection helpers *)
From Coq Require Import Reals Lra Lia Psatz Bool List.
From SC Require Import Num Vec3.
Local Open Scope R_scope.

Notation vR := (vec3 R).
Notation "a +v b" := (vadd NumR a b) (at level 50, left associativity).
Notation "a -v b" := (vsub NumR a b) (at level 50, left associativity).
Notation "a *v s" := (vscale NumR a s) (at level 40, left associativity).
Notation "a ·  b" := (vdot NumR a b) (at level 40).
Notation "a × b" := (vcross NumR a b) (at level 40).
Notation sqn := (vsqnorm NumR).

Lemma Rleb_spec x y : BoolSpec (x <= y) (y < x) (Rleb x y).
Proof. unfold Rleb; destruct (Rle_dec x y); constructor; lra. Qed.
Lemma Rltb_spec x y : BoolSpec (x < y) (y <= x) (Rltb x y).
Proof. unfold Rltb; destruct (Rlt_dec x y); constructor; lra. Qed.
Lemma Reqb_spec x y : BoolSpec (x = y) (x <> y) (Reqb x y).
Proof. unfold Reqb; destruct (Req_EM_T x y); constructor; auto. Qed.

Lemma vec3_eq (a b : vR) : vx a = vx b -> vy a = vy b -> vz a = vz b -> a = b.
Proof. destruct a, b; simpl; intros; subst; reflexivity. Qed.

(* unfold every vector operation down to coordinates *)
Ltac vunfold :=
  unfold vadd, vsub, vscale, vdivs, vneg, vdot, vcross, vsqnorm, vnorm, vzero in *;
  cbn [vx vy vz nadd nsub nmul ndiv nneg nzero none_ NumR] in *.

Ltac vring := intros; vunfold; try apply vec3_eq; cbn [vx vy vz]; ring.

Lemma sqn_nonneg (a : vR) : 0 <= sqn a.
Proof. vunfold. nra. Qed.

Lemma sqn_dot (a : vR) : sqn a = a ·  a.
Proof. vring. Qed.

Lemma sqn_zero (a : vR) : sqn a = 0 -> a = mkv 0 0 0.
Proof. destruct a as [x y z]; vunfold; cbn; intros H.
  assert (x = 0) by nra. assert (y = 0) by nra. assert (z = 0) by nra. subst; reflexivity. Qed.

Lemma sqn_sub_sym (a b : vR) : sqn (a -v b) = sqn (b -v a).
Proof. vring. Qed.

(* Cauchy-Schwarz through Lagrange's identity *)
Lemma lagrange (a b : vR) : sqn (a × b) = sqn a * sqn b - (a ·  b) * (a ·  b).
Proof. vring. Qed.

Lemma gram_nonneg (a b : vR) : 0 <= sqn a * sqn b - (a ·  b) * (a ·  b).
Proof. rewrite <- lagrange. apply sqn_nonneg. Qed.
