(* MeshOpsSpec.v — vocabulary of the C01 / C11 statements about MeshOps.v *)
From Coq Require Import NArith ZArith Bool List Lia Reals.
From SC Require Import Num Vec3 VecR Mesh Geometry GeometrySpec MeshOps.
Import ListNotations.
Local Open Scope N_scope.

Definition tris (s : list ltri) : list tri := map fst s.

(* apex of the unique triangle that traverses a -> b *)
Definition apex (s : list ltri) (a b : N) : option N :=
  match filter (fun f : ltri => has_dir (fst f) a b) s with
  | [f] => Some (third (fst f) a b)
  | _ => None
  end.

(* total momentum and positions of a node map over R *)
Notation nstateR := (nstate (T:=R)).
Notation nmapR := (list (N * nstateR)).
Notation mstateR := (mstate (T:=R)).
Definition total_momentum (m : nmapR) : vR := vsum (map (fun kv => ns_mom (snd kv)) m).
Definition keys (m : nmapR) : list N := map fst m.

(* a node map that carries exactly the nodes of the surface, each once *)
Definition nodes_match (st : mstateR) : Prop :=
  NoDup (keys (ms_nodes st)) /\ (forall k, In k (keys (ms_nodes st)) <-> In k (all_nodes (tris (ms_faces st)))).

(* well-formedness of one traced operation with respect to the state it is applied to; the last conjunct of the
   split / merge clauses says that the id of the new node is not the key of a live node (cell::add_node takes a free
   slot or appends one) *)
Definition op_wf (st : mstateR) (o : op) : Prop :=
  match o with
  | OpSplit a b e => In (a, b) (all_hedges (tris (ms_faces st))) /\ ~ In e (all_nodes (tris (ms_faces st))) /\
                     apex (ms_faces st) a b <> apex (ms_faces st) b a /\
                     ~ In e (keys (ms_nodes st))
  | OpMerge a b i => In (a, b) (all_hedges (tris (ms_faces st))) /\ ~ In i (all_nodes (tris (ms_faces st))) /\
                     link_ok (ms_faces st) a b = true /\ apex (ms_faces st) a b <> apex (ms_faces st) b a /\
                     ~ In i (keys (ms_nodes st))
  | OpSwap a b => In (a, b) (all_hedges (tris (ms_faces st))) /\ apex (ms_faces st) a b <> apex (ms_faces st) b a /\
                  (forall c d, apex (ms_faces st) a b = Some c -> apex (ms_faces st) b a = Some d ->
                               edge_exists (ms_faces st) c d = false)
  end.

Fixpoint trace_wf (dynamic : bool) (st : mstateR) (ops : list op) : Prop :=
  match ops with
  | [] => True
  | o :: r => op_wf st o /\ match apply_op NumR dynamic st o with Some st' => trace_wf dynamic st' r | None => False end
  end.

Definition positions (nodes : nmapR) (t : tri) : vR * vR * vR :=
  let '(a, b, c) := t in
  let p k := match nget nodes k with Some v => ns_pos v | None => mkv 0 0 0 end%R in (p a, p b, p c).
