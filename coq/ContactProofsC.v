(* ContactProofsC.v — the bounding-box test of the contact phase only discards node-face pairs that the narrow phase
   (resolve_contact) leaves alone: the grid phase equals the same rules applied to ALL node-face pairs with NO box test
   at all (all_pairs_nobox_phase of Contact.v).  Instantiated at R; no axiom besides those of the standard Reals. *)
From Coq Require Import Reals Lra Lia ZArith Bool List.
From Flocq Require Import Core.Raux.
From SC Require Import Num Vec3 VecR Kernel KernelProofs Grid GridProofs Contact ContactProofsA ContactProofsB.
Import ListNotations.
Local Open Scope R_scope.

(* ================================================================ 1. outside the padded box: far from every vertex *)
Section FarR.
  Lemma sq_gt (r d : R) : 0 <= r -> r < d -> r * r < d * d.
  Proof. intros Hr Hd. apply Rmult_le_0_lt_compat; assumption. Qed.

  Lemma far_axis (p q : vR) (r : R) : 0 <= r ->
    (r < vx q - vx p \/ r < vx p - vx q \/ r < vy q - vy p \/ r < vy p - vy q \/ r < vz q - vz p \/ r < vz p - vz q) ->
    r * r < sqn (p -v q).
  Proof.
    intros Hr Hc. vunfold.
    pose proof (Rle_0_sqr (vx p - vx q)) as Sx. pose proof (Rle_0_sqr (vy p - vy q)) as Sy.
    pose proof (Rle_0_sqr (vz p - vz q)) as Sz. unfold Rsqr in Sx, Sy, Sz.
    destruct Hc as [H | [H | [H | [H | [H | H]]]]]; pose proof (sq_gt _ _ Hr H) as Hs.
    - replace ((vx p - vx q) * (vx p - vx q)) with ((vx q - vx p) * (vx q - vx p)) by ring. lra.
    - lra.
    - replace ((vy p - vy q) * (vy p - vy q)) with ((vy q - vy p) * (vy q - vy p)) by ring. lra.
    - lra.
    - replace ((vz p - vz q) * (vz p - vz q)) with ((vz q - vz p) * (vz q - vz p)) by ring. lra.
    - lra.
  Qed.

  Variables (cut_adh cut_rep : R).
  Hypothesis Hadh : 0 <= cut_adh.
  Hypothesis Hrep : 0 <= cut_rep.
  Notation padR := (pad NumR cut_adh cut_rep).

  Lemma in_box_false_cases (a b c p : vR) :
    in_box NumR (face_box NumR cut_adh cut_rep a b c) p = false ->
    vx p < min3 NumR (vx a) (vx b) (vx c) - padR \/ max3 NumR (vx a) (vx b) (vx c) + padR < vx p \/
    vy p < min3 NumR (vy a) (vy b) (vy c) - padR \/ max3 NumR (vy a) (vy b) (vy c) + padR < vy p \/
    vz p < min3 NumR (vz a) (vz b) (vz c) - padR \/ max3 NumR (vz a) (vz b) (vz c) + padR < vz p.
  Proof.
    unfold in_box, face_box. cbn [b_lo b_hi vx vy vz nltb nadd nsub NumR].
    rewrite !andb_false_iff, !negb_false_iff, !orb_true_iff, !Rltb_true. tauto.
  Qed.

  Lemma outside_far (a b c p : vR) :
    in_box NumR (face_box NumR cut_adh cut_rep a b c) p = false ->
    padR * padR < sqn (p -v a) /\ padR * padR < sqn (p -v b) /\ padR * padR < sqn (p -v c).
  Proof using Hadh Hrep.
    intros Hout. pose proof (pad_nonneg cut_adh cut_rep Hadh Hrep) as Hp.
    apply in_box_false_cases in Hout.
    destruct (min3_le (vx a) (vx b) (vx c)) as (Lx1 & Lx2 & Lx3).
    destruct (min3_le (vy a) (vy b) (vy c)) as (Ly1 & Ly2 & Ly3).
    destruct (min3_le (vz a) (vz b) (vz c)) as (Lz1 & Lz2 & Lz3).
    destruct (max3_ge (vx a) (vx b) (vx c)) as (Ux1 & Ux2 & Ux3).
    destruct (max3_ge (vy a) (vy b) (vy c)) as (Uy1 & Uy2 & Uy3).
    destruct (max3_ge (vz a) (vz b) (vz c)) as (Uz1 & Uz2 & Uz3).
    remember (pad NumR cut_adh cut_rep) as P eqn:EP.
    repeat split; apply (far_axis _ _ P Hp);
      destruct Hout as [H | [H | [H | [H | [H | H]]]]];
      [ left | right; left | right; right; left | right; right; right; left
      | right; right; right; right; left | right; right; right; right; right
      | left | right; left | right; right; left | right; right; right; left
      | right; right; right; right; left | right; right; right; right; right
      | left | right; left | right; right; left | right; right; right; left
      | right; right; right; right; left | right; right; right; right; right ]; lra.
  Qed.

  Lemma pad_sq_ge_adh : cut2_adh NumR cut_adh <= padR * padR.
  Proof using Hadh Hrep.
    unfold cut2_adh. cbn [nmul NumR].
    pose proof (nmax_ge cut_rep cut_adh) as [_ H]. fold (pad NumR cut_adh cut_rep) in H.
    apply Rmult_le_compat; assumption.
  Qed.
End FarR.

(* ================================================================ 2. one contact outside the box changes nothing *)
Section NoopR.
  Variables (dmax c45 cut_adh cut_rep : R).
  Hypothesis Hadh : 0 <= cut_adh.
  Hypothesis Hrep : 0 <= cut_rep.
  Hypothesis Hdmax : cut_adh * cut_adh <= dmax.
  Notation resolveR := (resolve_contact NumR dmax c45 cut_adh cut_rep).

  Lemma cpl_dist_far (n1 fn : cnode (T:=R)) maxcurv :
    cut2_adh NumR cut_adh <= sqn (cn_pos n1 -v cn_pos fn) ->
    cut2_adh NumR cut_adh <= cpl_dist NumR dmax c45 n1 fn maxcurv.
  Proof using Hdmax.
    intros Hfar. destruct (cpl_dist_cases dmax c45 n1 fn maxcurv) as [E | E]; rewrite E; [| exact Hfar].
    unfold cut2_adh. cbn [nmul NumR]. exact Hdmax.
  Qed.

  Lemma cpl_choice_ge (n1 a b c : cnode (T:=R)) ia ib ic maxcurv m i d :
    m <= cpl_dist NumR dmax c45 n1 a maxcurv -> m <= cpl_dist NumR dmax c45 n1 b maxcurv ->
    m <= cpl_dist NumR dmax c45 n1 c maxcurv ->
    cpl_choice NumR dmax c45 n1 a b c ia ib ic maxcurv = (i, d) -> m <= d.
  Proof.
    intros Ha Hb Hc Hch. unfold cpl_choice in Hch. cbv zeta in Hch.
    destruct (_ && _) in Hch; [| destruct (_ && _) in Hch]; injection Hch as Hi Hdd; subst d; assumption.
  Qed.

  (* the key step: a node outside the padded box of a non-degenerate face is left alone by resolve_contact *)
  Lemma resolve_outside_box_noop (st : state (T:=R)) c1i n1i c2i f c1 c2 n1 a b c :
    nth_error st c1i = Some c1 -> nth_error st c2i = Some c2 -> nth_error (cc_nodes c1) n1i = Some n1 ->
    nth_error (cc_nodes c2) (cf_n1 f) = Some a -> nth_error (cc_nodes c2) (cf_n2 f) = Some b ->
    nth_error (cc_nodes c2) (cf_n3 f) = Some c ->
    nondegenerate (cn_pos a) (cn_pos b) (cn_pos c) ->
    in_box NumR (face_box NumR cut_adh cut_rep (cn_pos a) (cn_pos b) (cn_pos c)) (cn_pos n1) = false ->
    resolveR st c1i n1i (c2i, f) = Some st.
  Proof using Hadh Hrep Hdmax.
    intros E1 E2 En1 Ea Eb Ec ND Hout.
    assert (HI : interaction NumR cut_adh cut_rep (cn_pos n1) (cn_pos a) (cn_pos b) (cn_pos c)
                             (cf_normal f) (cf_area f) (cf_rep f) (cc_type c1) (cc_type c2) = None).
    { apply interaction_beyond_cutoff.
      destruct (Rle_lt_dec (cut2_max NumR cut_adh cut_rep)
                           (k_dist (kernel NumR (cn_pos n1) (cn_pos a) (cn_pos b) (cn_pos c)))) as [Hge | Hlt];
        [exact Hge | exfalso].
      rewrite (cutoff_in_box cut_adh cut_rep Hadh Hrep _ _ _ _ ND Hlt) in Hout. discriminate Hout. }
    destruct (outside_far cut_adh cut_rep Hadh Hrep _ _ _ _ Hout) as (Fa & Fb & Fc).
    pose proof (pad_sq_ge_adh cut_adh cut_rep Hadh Hrep) as Hpad.
    assert (Da : cut2_adh NumR cut_adh <= cpl_dist NumR dmax c45 n1 a (cc_maxcurv c1)) by (apply cpl_dist_far; lra).
    assert (Db : cut2_adh NumR cut_adh <= cpl_dist NumR dmax c45 n1 b (cc_maxcurv c1)) by (apply cpl_dist_far; lra).
    assert (Dc : cut2_adh NumR cut_adh <= cpl_dist NumR dmax c45 n1 c (cc_maxcurv c1)) by (apply cpl_dist_far; lra).
    unfold resolve_contact. cbv beta iota zeta. rewrite E1, E2, En1, Ea, Eb, Ec, HI.
    destruct (Nat.eqb (cc_type c1) 0 && Nat.eqb (cc_type c2) 0); [| reflexivity].
    destruct (cpl_choice NumR dmax c45 n1 a b c (cf_n1 f) (cf_n2 f) (cf_n3 f) (cc_maxcurv c1)) as [n2i d] eqn:Ech.
    pose proof (cpl_choice_ge _ _ _ _ _ _ _ _ _ _ _ Da Db Dc Ech) as Hd.
    assert (Ed : nltb NumR d (cut2_adh NumR cut_adh) = false).
    { change (Rltb d (cut2_adh NumR cut_adh) = false). apply Rltb_false. exact Hd. }
    rewrite Ed. cbn [andb]. reflexivity.
  Qed.
End NoopR.

(* ================================================================ 3. lists *)
Section ListFactsC.
  Lemma all_some_nth {A} (l : list (option A)) r i x :
    all_some l = Some r -> nth_error r i = Some x -> nth_error l i = Some (Some x).
  Proof.
    revert r i. induction l as [| o l' IH]; intros r i H Hx; cbn [all_some] in H.
    - injection H as <-. destruct i; discriminate Hx.
    - destruct o as [a |]; [| discriminate H].
      destruct (all_some l') as [r' |] eqn:E'; cbn [option_map] in H; [| discriminate H].
      injection H as <-. destruct i as [| j]; cbn [nth_error] in Hx |- *.
      + injection Hx as <-. reflexivity.
      + exact (IH r' j eq_refl Hx).
  Qed.

  Lemma node_pos_posmap (s : state (T:=R)) ci k :
    node_pos s ci k = match nth_error (posmap s) ci with Some l => nth_error l k | None => None end.
  Proof.
    unfold node_pos, posmap. rewrite nth_error_map.
    destruct (nth_error s ci) as [c |]; cbn [option_map]; [| reflexivity].
    rewrite nth_error_map. reflexivity.
  Qed.

  Lemma node_pos_some (s : state (T:=R)) ci k c p :
    nth_error s ci = Some c -> node_pos s ci k = Some p ->
    exists n, nth_error (cc_nodes c) k = Some n /\ cn_pos n = p.
  Proof.
    intros Ec H. unfold node_pos in H. rewrite Ec in H.
    destruct (nth_error (cc_nodes c) k) as [n |]; cbn [option_map] in H; [| discriminate H].
    injection H as H. exists n. split; [reflexivity | exact H].
  Qed.
End ListFactsC.

(* ================================================================ 4. the node loop with and without the box test *)
Section LoopC.
  Variables (dmax c45 c90 cut_adh cut_rep : R).
  Hypothesis Hadh : 0 <= cut_adh.
  Hypothesis Hrep : 0 <= cut_rep.
  Hypothesis Hdmax : cut_adh * cut_adh <= dmax.
  Notation stateR := (@state R).
  Notation tryR := (try_face NumR dmax c45 c90 cut_adh cut_rep).
  Notation tryN := (try_face_nobox NumR dmax c45 c90 cut_adh cut_rep).
  Notation resolveR := (resolve_contact NumR dmax c45 cut_adh cut_rep).

  Variables (boxes : list (@box R)) (gfs : list (nat * @cface R)) (st1 : stateR).
  Hypothesis Hboxes : all_some (map (face_box_of NumR cut_adh cut_rep st1) gfs) = Some boxes.
  Hypothesis Hnd : nd_faces gfs st1.

  Definition PinvC (s : stateR) : Prop := posmap s = posmap st1.

  Lemma try_sim ci ni s fid s' : PinvC s ->
    tryR boxes gfs ci ni (Some s) fid = Some s' -> tryN gfs ci ni (Some s) fid = Some s' /\ PinvC s'.
  Proof using Hadh Hrep Hdmax Hboxes Hnd.
    intros Hs H. split; [| unfold PinvC in *; rewrite (try_posmap _ _ _ _ _ _ _ _ _ _ _ _ H); exact Hs].
    unfold try_face in H. unfold try_face_nobox.
    destruct (nth_error s ci) as [c1 |] eqn:Ec1; [| discriminate H].
    destruct (nth_error gfs fid) as [gf |] eqn:Egf; [| discriminate H].
    destruct (nth_error boxes fid) as [bx |] eqn:Ebx; [| discriminate H].
    destruct (nth_error s (fst gf)) as [c2 |] eqn:Ec2; [| discriminate H].
    destruct (nth_error (cc_nodes c1) ni) as [n1 |] eqn:En1; [| discriminate H].
    destruct (negb (Nat.eqb (cc_id c1) (cc_id c2))); [| exact H].
    destruct (in_box NumR bx (cn_pos n1)) eqn:Ebox; cbn [andb] in H; [exact H |].
    destruct (nltb NumR (vdot NumR (cn_normal n1) (cf_normal (snd gf))) c90); [| exact H].
    injection H as <-.
    (* the box of the face is the box of its three vertices, which s has at the same positions as st1 *)
    pose proof (all_some_nth _ _ _ _ Hboxes Ebx) as Hb.
    rewrite (map_nth_error (face_box_of NumR cut_adh cut_rep st1) fid gfs Egf) in Hb.
    injection Hb as Hb.
    destruct gf as [c2i f]. cbn [fst] in Ec2. unfold face_box_of in Hb.
    rewrite !node_pos_posmap, <- Hs, <- !node_pos_posmap in Hb.
    destruct (node_pos s c2i (cf_n1 f)) as [p1 |] eqn:P1; [| discriminate Hb].
    destruct (node_pos s c2i (cf_n2 f)) as [p2 |] eqn:P2; [| discriminate Hb].
    destruct (node_pos s c2i (cf_n3 f)) as [p3 |] eqn:P3; [| discriminate Hb].
    injection Hb as Hb. subst bx.
    destruct (node_pos_some s c2i _ c2 p1 Ec2 P1) as (a & Ea & Pa).
    destruct (node_pos_some s c2i _ c2 p2 Ec2 P2) as (b & Eb & Pb).
    destruct (node_pos_some s c2i _ c2 p3 Ec2 P3) as (c & Ec & Pc).
    subst p1 p2 p3.
    assert (ND : nondegenerate (cn_pos a) (cn_pos b) (cn_pos c)).
    { assert (NDs : nd_faces gfs s) by (apply (nd_faces_shape gfs st1 s); [exact Hs | exact Hnd]).
      exact (NDs c2i f (nth_error_In _ _ Egf) c2 Ec2 a b c Ea Eb Ec). }
    exact (resolve_outside_box_noop dmax c45 cut_adh cut_rep Hadh Hrep Hdmax s ci ni c2i f c1 c2 n1 a b c
                                    Ec1 Ec2 En1 Ea Eb Ec ND Ebox).
  Qed.

  (* the loops of node_loop_nobox as named functions *)
  Definition innerN (ci : nat) (acc2 : option stateR) (ni : nat) : option stateR :=
    match acc2 with None => None | Some st2 =>
      match nth_error st2 ci with None => None | Some c =>
        match nth_error (cc_nodes c) ni with None => None | Some n =>
          if node_active NumR c n then fold_left (tryN gfs ci ni) (rev (seq 0 (length gfs))) (Some st2) else Some st2
        end end end.

  Definition outerN (acc : option stateR) (ci : nat) : option stateR :=
    match acc with None => None | Some st =>
      match nth_error st ci with None => None | Some c0 =>
        fold_left (innerN ci) (seq 0 (length (cc_nodes c0))) (Some st)
      end end.

  Lemma node_loop_nobox_eq st0 :
    node_loop_nobox NumR dmax c45 c90 cut_adh cut_rep gfs st0 = fold_left outerN (seq 0 (length st0)) (Some st0).
  Proof. reflexivity. Qed.

  Notation innerA := (innerF dmax c45 c90 cut_adh cut_rep (cands_all gfs) boxes gfs).
  Notation outerA := (outerF dmax c45 c90 cut_adh cut_rep (cands_all gfs) boxes gfs).

  Lemma innerA_None ci ni : innerA ci None ni = None.
  Proof. reflexivity. Qed.

  Lemma outerA_None ci : outerA None ci = None.
  Proof. reflexivity. Qed.

  Lemma inner_simC ci s ni s' : PinvC s -> innerA ci (Some s) ni = Some s' -> innerN ci (Some s) ni = Some s' /\ PinvC s'.
  Proof using Hadh Hrep Hdmax Hboxes Hnd.
    intros Hs H. unfold innerF in H. unfold innerN.
    destruct (nth_error s ci) as [c |]; [| discriminate H].
    destruct (nth_error (cc_nodes c) ni) as [n |]; [| discriminate H].
    destruct (node_active NumR c n); [| injection H as <-; split; [reflexivity | exact Hs]].
    unfold cands_all in H.
    exact (fold_opt_sim (tryR boxes gfs ci ni) (tryN gfs ci ni) PinvC
                        (try_None dmax c45 c90 cut_adh cut_rep boxes gfs ci ni) (try_sim ci ni) _ s s' Hs H).
  Qed.

  Lemma outer_simC s ci s' : PinvC s -> outerA (Some s) ci = Some s' -> outerN (Some s) ci = Some s' /\ PinvC s'.
  Proof using Hadh Hrep Hdmax Hboxes Hnd.
    intros Hs H. unfold outerF in H. unfold outerN.
    destruct (nth_error s ci) as [c0 |]; [| discriminate H].
    exact (fold_opt_sim (innerA ci) (innerN ci) PinvC (innerA_None ci) (inner_simC ci) _ s s' Hs H).
  Qed.

  Lemma node_loop_nobox_sim r :
    node_loop NumR dmax c45 c90 cut_adh cut_rep (cands_all gfs) boxes gfs st1 = Some r ->
    node_loop_nobox NumR dmax c45 c90 cut_adh cut_rep gfs st1 = Some r.
  Proof using Hadh Hrep Hdmax Hboxes Hnd.
    rewrite node_loop_eq, node_loop_nobox_eq. intros H.
    exact (proj1 (fold_opt_sim outerA outerN PinvC outerA_None outer_simC _ st1 r eq_refl H)).
  Qed.
End LoopC.

(* ================================================================ 5. the phase *)
Definition faces_nondegenerate (st : Contact.state (T:=R)) : Prop :=
  forall c f a b cc, In c st -> In f (cc_faces c) ->
    nth_error (cc_nodes c) (cf_n1 f) = Some a -> nth_error (cc_nodes c) (cf_n2 f) = Some b -> nth_error (cc_nodes c) (cf_n3 f) = Some cc ->
    nondegenerate (cn_pos a) (cn_pos b) (cn_pos cc).

Lemma all_pairs_nobox (eps dmax inf c45 c90 lmin cut_adh cut_rep : R)
  (Hadh : 0 <= cut_adh) (Hrep : 0 <= cut_rep) :
  forall st r,
  faces_nondegenerate st -> cut_adh * cut_adh <= dmax ->
  all_pairs_phase NumR Zceil eps dmax inf c45 c90 lmin cut_adh cut_rep st = Some r ->
  all_pairs_nobox_phase NumR Zceil eps dmax inf c45 c90 lmin cut_adh cut_rep st = Some r.
Proof.
  intros st r FN Hdmax H. unfold all_pairs_phase in H. unfold all_pairs_nobox_phase.
  destruct (prepare NumR Zceil eps dmax inf lmin cut_adh cut_rep st) as [p |] eqn:Ep; [| discriminate H].
  destruct (node_loop NumR dmax c45 c90 cut_adh cut_rep (fun _ => Some (all_faces_desc p))
                      (p_boxes p) (p_gfs p) (p_state p)) as [st2 |] eqn:Eloop; [| discriminate H].
  destruct (prepare_spec eps dmax inf lmin cut_adh cut_rep st p Ep) as (Est & Egfs & Eboxes & _).
  assert (Hboxes : all_some (map (face_box_of NumR cut_adh cut_rep (p_state p)) (p_gfs p)) = Some (p_boxes p)).
  { rewrite Est, Egfs. exact Eboxes. }
  assert (Hnd : nd_faces (p_gfs p) (p_state p)).
  { rewrite Est, Egfs. apply reset_nd. exact FN. }
  rewrite (node_loop_nobox_sim dmax c45 c90 cut_adh cut_rep Hadh Hrep Hdmax (p_boxes p) (p_gfs p) (p_state p)
                               Hboxes Hnd st2 Eloop).
  exact H.
Qed.

Lemma grid_all_pairs_nobox (eps dmax inf c45 c90 lmin cut_adh cut_rep : R)
  (Hlmin : 0 < lmin) (Hadh : 0 <= cut_adh) (Hrep : 0 <= cut_rep) :
  forall st r s,
  faces_nondegenerate st -> cut_adh * cut_adh <= dmax ->
  contact_phase NumR Zfloor Zceil eps dmax inf c45 c90 lmin cut_adh cut_rep st = Some (r, s) ->
  all_pairs_nobox_phase NumR Zceil eps dmax inf c45 c90 lmin cut_adh cut_rep st = Some r.
Proof.
  intros st r s FN Hdmax H.
  apply (all_pairs_nobox eps dmax inf c45 c90 lmin cut_adh cut_rep Hadh Hrep st r FN Hdmax).
  exact (grid_all_pairs eps dmax inf c45 c90 lmin cut_adh cut_rep Hlmin Hadh Hrep st r s H).
Qed.
