(* MeshProofs.v — proofs of the shared facts about Mesh.v stated in Properties_Mesh.v *)
From Coq Require Import NArith ZArith Bool List Lia Reals Lra Permutation.
From SC Require Import Num Vec3 VecR Mesh.
Import ListNotations.

(* ------------------------------------------------------------------ boolean reflection *)
Lemma hedge_eqb_eq (e f : hedge) : hedge_eqb e f = true <-> e = f.
Proof.
  destruct e as [a b], f as [c d]. unfold hedge_eqb. cbn [fst snd].
  rewrite andb_true_iff, !N.eqb_eq. split.
  - intros [H1 H2]; subst; reflexivity.
  - intros H; inversion H; subst; split; reflexivity.
Qed.

Lemma existsb_eqb_In {A} (eqb : A -> A -> bool) (Heq : forall x y, eqb x y = true <-> x = y)
  (x : A) (l : list A) : existsb (eqb x) l = true <-> In x l.
Proof.
  rewrite existsb_exists. split.
  - intros (y & Hy & E). apply Heq in E. subst; assumption.
  - intros H. exists x. split; [assumption | apply Heq; reflexivity].
Qed.

Lemma nodup_b_spec {A} (eqb : A -> A -> bool) (Heq : forall x y, eqb x y = true <-> x = y)
  (l : list A) : nodup_b eqb l = true <-> NoDup l.
Proof.
  induction l as [|a l IH].
  - cbn. split; intros _; [constructor | reflexivity].
  - cbn [nodup_b]. rewrite andb_true_iff, negb_true_iff, IH. split.
    + intros [H1 H2]. constructor; [|assumption].
      intro Hin. apply (existsb_eqb_In eqb Heq) in Hin. congruence.
    + intros H; inversion H as [|x l' Hn Hd]; subst. split; [|assumption].
      destruct (existsb (eqb a) l) eqn:E; [|reflexivity].
      apply (existsb_eqb_In eqb Heq) in E. contradiction.
Qed.

Lemma tri_distinct_b_spec (t : tri) : tri_distinct_b t = true <-> tri_distinct t.
Proof.
  destruct t as [[a b] c]. unfold tri_distinct_b, tri_distinct.
  rewrite !andb_true_iff, !negb_true_iff, !N.eqb_neq. tauto.
Qed.

Lemma mem_hedge_In (e : hedge) (l : list hedge) : mem_hedge e l = true <-> In e l.
Proof. unfold mem_hedge. apply existsb_eqb_In. exact hedge_eqb_eq. Qed.

Lemma closed_b_spec (s : list tri) :
  closed_b s = true <-> (forall e, In e (all_hedges s) -> In (hswap e) (all_hedges s)).
Proof.
  unfold closed_b. rewrite forallb_forall. split; intros H e He.
  - apply mem_hedge_In. apply H; assumption.
  - apply mem_hedge_In. apply H; assumption.
Qed.

Lemma euler_ok_b_spec (s : list tri) : euler_ok_b s = true <-> euler_ok s.
Proof. unfold euler_ok_b, euler_ok. apply Z.eqb_eq. Qed.

Lemma valid_surface_b_spec : forall s : list tri, valid_surface_b s = true <-> ValidSurface s.
Proof.
  intros s. unfold valid_surface_b. rewrite !andb_true_iff. split.
  - intros [[[H1 H2] H3] H4]. constructor.
    + apply Forall_forall. intros t Ht. apply tri_distinct_b_spec.
      rewrite forallb_forall in H1. apply H1; assumption.
    + apply (nodup_b_spec hedge_eqb hedge_eqb_eq). assumption.
    + apply closed_b_spec. assumption.
    + apply euler_ok_b_spec. assumption.
  - intros [H1 H2 H3 H4]. repeat split.
    + apply forallb_forall. intros t Ht. apply tri_distinct_b_spec.
      rewrite Forall_forall in H1. apply H1; assumption.
    + apply (nodup_b_spec hedge_eqb hedge_eqb_eq). assumption.
    + apply closed_b_spec. assumption.
    + apply euler_ok_b_spec. assumption.
Qed.

(* ------------------------------------------------------------------ half-edges vs their reversals *)
Lemma hswap_invol (e : hedge) : hswap (hswap e) = e.
Proof. destruct e as [a b]. reflexivity. Qed.

Lemma hswap_inj (e f : hedge) : hswap e = hswap f -> e = f.
Proof. intros H. rewrite <- (hswap_invol e), <- (hswap_invol f), H. reflexivity. Qed.

Lemma hedges_perm_swap : forall s : list tri, ValidSurface s ->
  Permutation (all_hedges s) (map hswap (all_hedges s)).
Proof.
  intros s [_ Hnd Hcl _].
  apply NoDup_Permutation.
  - assumption.
  - apply FinFun.Injective_map_NoDup; [|assumption].
    intros e f. apply hswap_inj.
  - intros e. split.
    + intros He. rewrite <- (hswap_invol e). apply in_map. apply Hcl. assumption.
    + intros He. apply in_map_iff in He. destruct He as (f & Hf & Hin). subst e.
      apply Hcl. assumption.
Qed.

(* ------------------------------------------------------------------ antisymmetric sums vanish *)
Local Open Scope R_scope.

Lemma fold_right_Rplus_perm {A} (f : A -> R) (l l' : list A) : Permutation l l' ->
  fold_right (fun e acc => f e + acc) 0 l = fold_right (fun e acc => f e + acc) 0 l'.
Proof.
  intros P. induction P as [| x l l' P IH | x y l | l l' l'' P1 IH1 P2 IH2].
  - reflexivity.
  - cbn [fold_right]. rewrite IH. reflexivity.
  - cbn [fold_right]. ring.
  - rewrite IH1. exact IH2.
Qed.

Lemma fold_right_Rplus_map {A B} (h : A -> B) (f : B -> R) (l : list A) :
  fold_right (fun e acc => f e + acc) 0 (map h l) = fold_right (fun e acc => f (h e) + acc) 0 l.
Proof. induction l as [|a l IH]; cbn [map fold_right]; [reflexivity | rewrite IH; reflexivity]. Qed.

Lemma fold_right_Rplus_opp {A} (f : A -> R) (l : list A) :
  fold_right (fun e acc => - f e + acc) 0 l = - fold_right (fun e acc => f e + acc) 0 l.
Proof. induction l as [|a l IH]; cbn [fold_right]; [ring | rewrite IH; ring]. Qed.

Lemma fold_right_Rplus_ext {A} (f f' : A -> R) (l : list A) : (forall a, f a = f' a) ->
  fold_right (fun e acc => f e + acc) 0 l = fold_right (fun e acc => f' e + acc) 0 l.
Proof. intros E. induction l as [|a l IH]; cbn [fold_right]; [reflexivity | rewrite IH, E; reflexivity]. Qed.

Lemma antisym_sum_zero_R : forall (s : list tri) (g : N -> N -> R), ValidSurface s ->
  (forall a b, g a b = - g b a) ->
  fold_right (fun e acc => g (fst e) (snd e) + acc) 0 (all_hedges s) = 0.
Proof.
  intros s g HV Hg.
  pose proof (hedges_perm_swap s HV) as P.
  pose proof (fold_right_Rplus_perm (fun e => g (fst e) (snd e)) _ _ P) as E.
  cbv beta in E.
  rewrite (fold_right_Rplus_map hswap (fun e => g (fst e) (snd e))) in E.
  rewrite (fold_right_Rplus_ext (fun e => g (fst (hswap e)) (snd (hswap e)))
             (fun e => - g (fst e) (snd e))) in E.
  2:{ intros [a b]. cbn [hswap fst snd]. apply Hg. }
  rewrite (fold_right_Rplus_opp (fun e => g (fst e) (snd e))) in E.
  lra.
Qed.

(* vector-valued: componentwise *)
Lemma fold_right_vadd_x {A} (f : A -> vR) (l : list A) :
  vx (fold_right (fun e acc => f e +v acc) (mkv 0 0 0) l) = fold_right (fun e acc => vx (f e) + acc) 0 l.
Proof. induction l as [|a l IH]; cbn [fold_right]; [reflexivity|]. rewrite <- IH. reflexivity. Qed.
Lemma fold_right_vadd_y {A} (f : A -> vR) (l : list A) :
  vy (fold_right (fun e acc => f e +v acc) (mkv 0 0 0) l) = fold_right (fun e acc => vy (f e) + acc) 0 l.
Proof. induction l as [|a l IH]; cbn [fold_right]; [reflexivity|]. rewrite <- IH. reflexivity. Qed.
Lemma fold_right_vadd_z {A} (f : A -> vR) (l : list A) :
  vz (fold_right (fun e acc => f e +v acc) (mkv 0 0 0) l) = fold_right (fun e acc => vz (f e) + acc) 0 l.
Proof. induction l as [|a l IH]; cbn [fold_right]; [reflexivity|]. rewrite <- IH. reflexivity. Qed.

Lemma antisym_sum_zero_V : forall (s : list tri) (g : N -> N -> vR), ValidSurface s ->
  (forall a b, g a b = mkv 0 0 0 -v g b a) ->
  fold_right (fun e acc => g (fst e) (snd e) +v acc) (mkv 0 0 0) (all_hedges s) = mkv 0 0 0.
Proof.
  intros s g HV Hg.
  apply vec3_eq; cbn [vx vy vz].
  - rewrite (fold_right_vadd_x (fun e => g (fst e) (snd e))).
    apply (antisym_sum_zero_R s (fun a b => vx (g a b)) HV).
    intros a b. rewrite (Hg a b). vunfold. ring.
  - rewrite (fold_right_vadd_y (fun e => g (fst e) (snd e))).
    apply (antisym_sum_zero_R s (fun a b => vy (g a b)) HV).
    intros a b. rewrite (Hg a b). vunfold. ring.
  - rewrite (fold_right_vadd_z (fun e => g (fst e) (snd e))).
    apply (antisym_sum_zero_R s (fun a b => vz (g a b)) HV).
    intros a b. rewrite (Hg a b). vunfold. ring.
Qed.

(* ------------------------------------------------------------------ non-vacuity *)
Lemma tetra_is_valid : ValidSurface [(0,1,2); (0,3,1); (0,2,3); (1,3,2)]%N.
Proof. apply valid_surface_b_spec. vm_compute. reflexivity. Qed.
