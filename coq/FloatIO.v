(* FloatIO.v — exact conversions between binary64 and Z, computed inside Coq from Prim2SF
   (sign, mantissa, exponent): floor / ceil to Z. No oracle, no axiom. *)
From Coq Require Import ZArith Floats Bool.
Local Open Scope Z_scope.

(* value of a finite float as (numerator m, exponent e): x = m * 2^e *)
Definition f_decode (x : float) : option (Z * Z) :=
  match Prim2SF x with
  | S754_zero _ => Some (0, 0)
  | S754_finite s m e => Some (if s then Z.neg m else Z.pos m, e)
  | _ => None
  end.

(* floor of a finite float; 0 for nan/inf (the C++ result of the cast is then undefined: the callers of the
   model never reach this case on finite inputs, and the correspondence would expose it) *)
Definition f_floorZ (x : float) : Z :=
  match f_decode x with
  | Some (m, e) => if 0 <=? e then m * 2 ^ e else m / 2 ^ (- e)
  | None => 0
  end.

Definition f_ceilZ (x : float) : Z :=
  match f_decode x with
  | Some (m, e) => if 0 <=? e then m * 2 ^ e else - ((- m) / 2 ^ (- e))
  | None => 0
  end.

Definition f_eps : float := 0x1p-52%float.
