(* PopulationProofs.v — proofs of the C08 statements (Properties_C08.v) about the population bookkeeping model
   of Population.v: the invariant PopInv is established by the constructor and preserved by every event, ids are
   never reused, stored references designate the right cell, and the exact effect of one division. *)
From Coq Require Import NArith Arith Bool List Lia.
From SC Require Import Population PopulationSpec.
Import ListNotations.
Local Open Scope N_scope.

(* ---------------------------------------------------------------- generic list facts *)

Lemma NoDup_app_intro : forall (A : Type) (l1 l2 : list A),
  NoDup l1 -> NoDup l2 -> (forall x, In x l1 -> In x l2 -> False) -> NoDup (l1 ++ l2).
Proof.
  intros A l1 l2 H1 H2 Hd. induction l1 as [|a l1 IH]; cbn [app]; [exact H2|].
  inversion H1 as [|a' l' Hna Hnd]; subst.
  constructor.
  - intro Hin. apply in_app_or in Hin. destruct Hin as [Hin|Hin]; [exact (Hna Hin)|].
    apply (Hd a); [left; reflexivity|exact Hin].
  - apply IH; [exact Hnd|]. intros x Hx1 Hx2. apply (Hd x); [right; exact Hx1|exact Hx2].
Qed.

Lemma filter_neq_notin : forall (x : N) (l : list N),
  ~ In x l -> filter (fun i => negb (i =? x)) l = l.
Proof.
  intros x l. induction l as [|a l IH]; intro Hn; cbn [filter]; [reflexivity|].
  destruct (N.eqb_spec a x) as [E|E].
  - exfalso. apply Hn. left. exact E.
  - cbn [negb]. f_equal. apply IH. intro Hin. apply Hn. right. exact Hin.
Qed.

Lemma filter_map_in : forall (f : pcell -> bool) cells i,
  In i (map p_id (filter f cells)) -> In i (map p_id cells).
Proof.
  intros f cells i Hin. apply in_map_iff in Hin. destruct Hin as [c [Hc Hin]].
  apply filter_In in Hin. destruct Hin as [Hin _]. rewrite <- Hc. apply in_map. exact Hin.
Qed.

Lemma filter_map_nodup : forall (f : pcell -> bool) cells,
  NoDup (map p_id cells) -> NoDup (map p_id (filter f cells)).
Proof.
  intros f. induction cells as [|a r IH]; intro H; cbn [filter]; [exact H|].
  cbn [map] in H. inversion H as [|x l Hna Hnd]; subst.
  destruct (f a); [|apply IH; exact Hnd].
  cbn [map]. constructor; [|apply IH; exact Hnd].
  intro Hin. apply Hna. apply filter_map_in with f. exact Hin.
Qed.

(* ---------------------------------------------------------------- renumber *)

Lemma renumber_ids : forall cells k, map p_id (renumber cells k) = map p_id cells.
Proof.
  induction cells as [|c r IH]; intro k; cbn [renumber map]; [reflexivity|].
  cbn [p_id]. f_equal. apply IH.
Qed.

Lemma renumber_length : forall cells k, length (renumber cells k) = length cells.
Proof.
  induction cells as [|c r IH]; intro k; cbn [renumber length]; [reflexivity|].
  f_equal. apply IH.
Qed.

Lemma renumber_local : forall cells k j c,
  nth_error (renumber cells k) j = Some c -> p_local c = (k + j)%nat.
Proof.
  induction cells as [|a r IH]; intros k j c H.
  - destruct j; cbn [renumber nth_error] in H; discriminate H.
  - destruct j as [|j]; cbn [renumber nth_error] in H.
    + inversion H; subst. cbn [p_local]. lia.
    + apply IH in H. lia.
Qed.

(* ---------------------------------------------------------------- remove_positions *)

Lemma rp_in : forall cells k ms c, In c (remove_positions cells k ms) -> In c cells.
Proof.
  induction cells as [|a r IH]; intros k ms c H; cbn [remove_positions] in H; [exact H|].
  destruct (existsb (Nat.eqb k) ms).
  - right. exact (IH _ _ _ H).
  - destruct H as [H|H]; [left; exact H|right; exact (IH _ _ _ H)].
Qed.

Lemma rp_ids_in : forall cells k ms i,
  In i (map p_id (remove_positions cells k ms)) -> In i (map p_id cells).
Proof.
  intros cells k ms i Hin. apply in_map_iff in Hin. destruct Hin as [c [Hc Hin]].
  apply rp_in in Hin. rewrite <- Hc. apply in_map. exact Hin.
Qed.

Lemma rp_nodup : forall cells k ms,
  NoDup (map p_id cells) -> NoDup (map p_id (remove_positions cells k ms)).
Proof.
  induction cells as [|a r IH]; intros k ms H; cbn [remove_positions]; [exact H|].
  cbn [map] in H. inversion H as [|x l Hna Hnd]; subst.
  destruct (existsb (Nat.eqb k) ms).
  - apply IH. exact Hnd.
  - cbn [map]. constructor; [|apply IH; exact Hnd].
    intro Hin. apply Hna. apply rp_ids_in with (S k) ms. exact Hin.
Qed.

Lemma rp_app : forall l1 l2 k ms,
  remove_positions (l1 ++ l2) k ms =
  remove_positions l1 k ms ++ remove_positions l2 (k + length l1)%nat ms.
Proof.
  induction l1 as [|a r IH]; intros l2 k ms; cbn [app remove_positions length].
  - rewrite Nat.add_0_r. reflexivity.
  - rewrite IH. replace (S k + length r)%nat with (k + S (length r))%nat by lia.
    destruct (existsb (Nat.eqb k) ms); reflexivity.
Qed.

Lemma rp_none : forall cells k ms,
  (forall m, In m ms -> (m < k)%nat) -> remove_positions cells k ms = cells.
Proof.
  induction cells as [|a r IH]; intros k ms H; cbn [remove_positions]; [reflexivity|].
  destruct (existsb (Nat.eqb k) ms) eqn:E.
  - apply existsb_exists in E. destruct E as [m [Hin Hm]]. apply Nat.eqb_eq in Hm. subst m.
    apply H in Hin. lia.
  - f_equal. apply IH. intros m Hm. apply H in Hm. lia.
Qed.

(* removing the single position of c from a list with unique ids = filtering c's id out of the id list *)
Lemma rp_one : forall cells k m c, nth_error cells m = Some c -> NoDup (map p_id cells) ->
  map p_id (remove_positions cells k [(k + m)%nat]) =
  filter (fun i => negb (i =? p_id c)) (map p_id cells).
Proof.
  induction cells as [|a r IH]; intros k m c Hn Hnd.
  - destruct m; cbn [nth_error] in Hn; discriminate Hn.
  - cbn [map] in Hnd. inversion Hnd as [|x l Hna Hnd']; subst.
    cbn [remove_positions existsb]. cbn [map filter].
    destruct m as [|m]; cbn [nth_error] in Hn.
    + inversion Hn; subst a. rewrite Nat.add_0_r, Nat.eqb_refl. cbn [orb].
      rewrite N.eqb_refl. cbn [negb].
      rewrite rp_none by (intros x [Hx|[]]; lia).
      symmetry. apply filter_neq_notin. exact Hna.
    + destruct (Nat.eqb_spec k (k + S m)) as [E|E]; [lia|]. cbn [orb].
      destruct (N.eqb_spec (p_id a) (p_id c)) as [E2|E2].
      * exfalso. apply Hna. rewrite E2. apply in_map. apply nth_error_In with m. exact Hn.
      * cbn [negb map]. f_equal. replace (k + S m)%nat with (S k + m)%nat by lia.
        apply IH; assumption.
Qed.

(* ---------------------------------------------------------------- append_daughters *)

(* the daughters appended by n successful divisions starting at counter k: ids k, k+1, ..., k+2n-1 *)
Fixpoint fresh (k : N) (n : nat) : list pcell :=
  match n with
  | O => []
  | S n' => mkpc k 0 :: mkpc (N.succ k) 0 :: fresh (N.succ (N.succ k)) n'
  end.

Lemma append_daughters_eq : forall ms p,
  append_daughters p ms =
  mkpop (p_cells p ++ fresh (p_counter p) (length ms)) (p_counter p + 2 * N.of_nat (length ms)).
Proof.
  unfold append_daughters.
  induction ms as [|m ms IH]; intro p; cbn [fold_left length fresh].
  - rewrite app_nil_r. replace (p_counter p + 2 * N.of_nat 0) with (p_counter p) by lia.
    destruct p; reflexivity.
  - rewrite IH. cbn [p_cells p_counter]. rewrite <- app_assoc. cbn [app]. f_equal.
    rewrite Nat2N.inj_succ. lia.
Qed.

Lemma fresh_in : forall n k i, In i (map p_id (fresh k n)) -> k <= i < k + 2 * N.of_nat n.
Proof.
  induction n as [|n IH]; intros k i H; cbn [fresh map In p_id] in H; [contradiction|].
  rewrite Nat2N.inj_succ.
  destruct H as [H|[H|H]]; [subst; lia|subst; lia|]. apply IH in H. lia.
Qed.

Lemma fresh_nodup : forall n k, NoDup (map p_id (fresh k n)).
Proof.
  induction n as [|n IH]; intro k; cbn [fresh map p_id]; [constructor|].
  constructor; [|constructor; [|apply IH]].
  - intros [H|H]; [lia|]. apply fresh_in in H. lia.
  - intro H. apply fresh_in in H. lia.
Qed.

Lemma divide_cons_eq : forall m ms p,
  divide (m :: ms) p =
  mkpop (renumber (remove_positions (p_cells p ++ fresh (p_counter p) (length (m :: ms))) 0 (m :: ms)) 0)
        (p_counter p + 2 * N.of_nat (length (m :: ms))).
Proof.
  intros m ms p. unfold divide. rewrite append_daughters_eq. reflexivity.
Qed.

(* ---------------------------------------------------------------- the invariant *)

Lemma inv_renumber : forall cells cnt,
  NoDup (map p_id cells) -> (forall i, In i (map p_id cells) -> i < cnt) ->
  PopInv (mkpop (renumber cells 0) cnt).
Proof.
  intros cells cnt Hnd Hb. unfold PopInv, ids. cbn [p_cells p_counter]. rewrite renumber_ids.
  split; [|split; assumption].
  intros k c H. apply renumber_local in H. lia.
Qed.

Lemma divide_none : forall p, divide [] p = p.
Proof. intro p. reflexivity. Qed.

Lemma step_inv : forall p e, PopInv p -> event_ok p e -> PopInv (pstep p e).
Proof.
  intros p e Hinv _. destruct e as [ms|rs]; cbn [pstep].
  - destruct ms as [|m ms]; [rewrite divide_none; exact Hinv|].
    destruct Hinv as [Hl [Hnd Hb]].
    rewrite divide_cons_eq. set (n := length (m :: ms)).
    assert (Hnd2 : NoDup (map p_id (p_cells p ++ fresh (p_counter p) n))).
    { rewrite map_app. apply NoDup_app_intro; [exact Hnd|apply fresh_nodup|].
      intros x H1 H2. apply Hb in H1. apply fresh_in in H2. lia. }
    apply inv_renumber.
    + apply rp_nodup. exact Hnd2.
    + intros i Hi. apply rp_ids_in in Hi. rewrite map_app in Hi.
      apply in_app_or in Hi. destruct Hi as [Hi|Hi].
      * apply Hb in Hi. lia.
      * apply fresh_in in Hi. lia.
  - destruct Hinv as [Hl [Hnd Hb]]. unfold remove. apply inv_renumber.
    + apply filter_map_nodup. exact Hnd.
    + intros i Hi. apply filter_map_in in Hi. apply Hb. exact Hi.
Qed.

Lemma run_inv : forall es p, PopInv p -> events_ok es p -> PopInv (run es p).
Proof.
  induction es as [|e es IH]; intros p Hinv Hok; cbn [run]; [exact Hinv|].
  cbn [events_ok] in Hok. destruct Hok as [H1 H2].
  apply IH; [apply step_inv; assumption|exact H2].
Qed.

(* ---------------------------------------------------------------- ids are never reused *)

Lemma pstep_counter : forall p e, p_counter p <= p_counter (pstep p e).
Proof.
  intros p e. destruct e as [ms|rs]; cbn [pstep].
  - destruct ms as [|m ms]; [rewrite divide_none; apply N.le_refl|].
    rewrite divide_cons_eq. cbn [p_counter]. lia.
  - unfold remove. cbn [p_counter]. apply N.le_refl.
Qed.

Lemma pstep_ids : forall p e i, In i (ids (pstep p e)) -> In i (ids p) \/ p_counter p <= i.
Proof.
  intros p e i H. destruct e as [ms|rs]; cbn [pstep] in H.
  - destruct ms as [|m ms]; [rewrite divide_none in H; left; exact H|].
    rewrite divide_cons_eq in H. unfold ids in H. cbn [p_cells] in H.
    rewrite renumber_ids in H. apply rp_ids_in in H. rewrite map_app in H.
    apply in_app_or in H. destruct H as [H|H]; [left; exact H|].
    right. apply fresh_in in H. lia.
  - unfold remove, ids in H. cbn [p_cells] in H. rewrite renumber_ids in H.
    apply filter_map_in in H. left. exact H.
Qed.

Lemma run_counter : forall es p, p_counter p <= p_counter (run es p).
Proof.
  induction es as [|e es IH]; intro p; cbn [run]; [apply N.le_refl|].
  apply N.le_trans with (p_counter (pstep p e)); [apply pstep_counter|apply IH].
Qed.

Lemma run_ids_gen : forall es p i, In i (ids (run es p)) -> In i (ids p) \/ p_counter p <= i.
Proof.
  induction es as [|e es IH]; intros p i H; cbn [run] in H; [left; exact H|].
  apply IH in H. destruct H as [H|H].
  - apply pstep_ids in H. exact H.
  - right. apply N.le_trans with (p_counter (pstep p e)); [apply pstep_counter|exact H].
Qed.

Lemma run_ids : forall es p i, PopInv p -> events_ok es p ->
  In i (ids (run es p)) -> In i (ids p) \/ p_counter p <= i.
Proof. intros es p i _ _ H. exact (run_ids_gen es p i H). Qed.

Lemma run_app : forall es1 es2 p, run (es1 ++ es2) p = run es2 (run es1 p).
Proof.
  induction es1 as [|e es1 IH]; intros es2 p; cbn [app run]; [reflexivity|]. apply IH.
Qed.

Lemma gone_forever : forall es1 es2 p i, PopInv p -> events_ok (es1 ++ es2) p ->
  In i (ids p) -> ~ In i (ids (run es1 p)) -> ~ In i (ids (run (es1 ++ es2) p)).
Proof.
  intros es1 es2 p i Hinv _ Hin Hgone Hback. rewrite run_app in Hback.
  apply (run_ids_gen es2 (run es1 p) i) in Hback. destruct Hback as [Hback|Hback]; [exact (Hgone Hback)|].
  destruct Hinv as [_ [_ Hb]]. apply Hb in Hin.
  pose proof (run_counter es1 p) as Hmono. lia.
Qed.

(* ---------------------------------------------------------------- references *)

Lemma deref_store : forall p j r, PopInv p ->
  store_ref p j = Some r -> deref p r = nth_error (p_cells p) j.
Proof.
  intros p j r Hinv H. unfold store_ref in H. unfold deref.
  destruct (nth_error (p_cells p) j) as [c|] eqn:E; cbn [option_map] in H; [|discriminate H].
  inversion H; subst r. destruct Hinv as [Hl _]. rewrite (Hl j c E). exact E.
Qed.

(* ---------------------------------------------------------------- one division *)

Lemma divide_one : forall p m c, PopInv p -> nth_error (p_cells p) m = Some c ->
  ids (divide [m] p) = filter (fun i => negb (i =? p_id c)) (ids p) ++ [p_counter p; N.succ (p_counter p)] /\
  p_counter (divide [m] p) = N.succ (N.succ (p_counter p)).
Proof.
  intros p m c Hinv Hn. destruct Hinv as [Hl [Hnd Hb]].
  assert (Hm : (m < length (p_cells p))%nat) by (apply nth_error_Some; rewrite Hn; discriminate).
  rewrite divide_cons_eq. unfold ids. cbn [p_cells p_counter length fresh].
  split; [|lia].
  rewrite renumber_ids, rp_app, map_app. f_equal.
  - exact (rp_one (p_cells p) 0 m c Hn Hnd).
  - rewrite rp_none; [reflexivity|]. intros x [Hx|[]]. subst x. lia.
Qed.

(* ---------------------------------------------------------------- the constructor *)

Lemma init_in : forall n k i, In i (map p_id (init_cells n k)) -> k <= i < k + N.of_nat n.
Proof.
  induction n as [|n IH]; intros k i H; cbn [init_cells map In p_id] in H; [contradiction|].
  rewrite Nat2N.inj_succ. destruct H as [H|H]; [subst; lia|]. apply IH in H. lia.
Qed.

Lemma init_nodup : forall n k, NoDup (map p_id (init_cells n k)).
Proof.
  induction n as [|n IH]; intro k; cbn [init_cells map p_id]; [constructor|].
  constructor; [|apply IH]. intro H. apply init_in in H. lia.
Qed.

Lemma init_local : forall n k j c,
  nth_error (init_cells n k) j = Some c -> p_local c = (N.to_nat k + j)%nat.
Proof.
  induction n as [|n IH]; intros k j c H.
  - destruct j; cbn [init_cells nth_error] in H; discriminate H.
  - destruct j as [|j]; cbn [init_cells nth_error] in H.
    + inversion H; subst. cbn [p_local]. lia.
    + apply IH in H. rewrite N2Nat.inj_succ in H. lia.
Qed.

Lemma init_inv : forall n, PopInv (init_pop n).
Proof.
  intro n. unfold init_pop, PopInv, ids. cbn [p_cells p_counter]. split; [|split].
  - intros k c H. apply init_local in H. rewrite H. reflexivity.
  - apply init_nodup.
  - intros i H. apply init_in in H. lia.
Qed.

(* ---------------------------------------------------------------- the boolean form of the invariant *)

Lemma locals_ok_spec : forall cells k,
  locals_ok cells k = true <-> (forall j c, nth_error cells j = Some c -> p_local c = (k + j)%nat).
Proof.
  induction cells as [|a r IH]; intro k; cbn [locals_ok].
  - split; [|intros _; reflexivity]. intros _ j c H. destruct j; cbn [nth_error] in H; discriminate H.
  - rewrite andb_true_iff, Nat.eqb_eq, IH. split.
    + intros [H1 H2] j c H. destruct j as [|j]; cbn [nth_error] in H.
      * inversion H; subst. lia.
      * apply H2 in H. lia.
    + intro H. split.
      * rewrite (H 0%nat a eq_refl). lia.
      * intros j c Hj. rewrite (H (S j) c Hj). lia.
Qed.

Lemma nodupN_b_spec : forall l, nodupN_b l = true <-> NoDup l.
Proof.
  induction l as [|x r IH]; cbn [nodupN_b].
  - split; [intros _; constructor|intros _; reflexivity].
  - rewrite andb_true_iff, negb_true_iff, IH. split.
    + intros [H1 H2]. constructor; [|exact H2]. intro Hin.
      assert (E : existsb (N.eqb x) r = true)
        by (apply existsb_exists; exists x; split; [exact Hin|apply N.eqb_refl]).
      rewrite E in H1. discriminate H1.
    + intro H. inversion H as [|y l Hna Hnd]; subst. split; [|exact Hnd].
      destruct (existsb (N.eqb x) r) eqn:E; [|reflexivity].
      apply existsb_exists in E. destruct E as [y [Hin Hy]]. apply N.eqb_eq in Hy. subst y.
      contradiction.
Qed.

Lemma popinv_b_correct : forall p, popinv_b p = true <-> PopInv p.
Proof.
  intro p. unfold popinv_b, PopInv.
  rewrite !andb_true_iff, locals_ok_spec, nodupN_b_spec, forallb_forall.
  split.
  - intros [[H1 H2] H3]. split; [|split].
    + intros k c H. apply H1 in H. lia.
    + exact H2.
    + intros i Hi. apply N.ltb_lt. apply H3. exact Hi.
  - intros [H1 [H2 H3]]. split; [split|].
    + intros j c H. apply H1 in H. lia.
    + exact H2.
    + intros i Hi. apply N.ltb_lt. apply H3. exact Hi.
Qed.
