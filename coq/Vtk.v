(* Vtk.v — the cell-data file of mesh_writer and its reading by mesh_reader, at token level.
   A file is a list of tokens: section keywords, unsigned integers, and coordinate numerals (an abstract type F:
   the text "%.4e" produces; the reader's strtod is the function `sem`).  Every regular-expression search of the
   reader is modelled as the token scan it performs on a file made of such tokens. *)
From Coq Require Import NArith Arith Bool List.
Import ListNotations.
Local Open Scope N_scope.

Section Vtk.
  Context {F V : Type}.            (* F: coordinate numerals in the file ; V: their value once read *)
  Variable sem : F -> option V.    (* strtod + finiteness test; None = rejected *)

  Inductive tok :=
  | KPoints | KCells | KCellTypes | KCellData | KFieldTypeId (* "cell_type_id 1 n int" header words *) | KOther
  | I (n : N) | X (x : F).

  (* ---------------------------------------------------------------- what is written *)
  Record wcell := mkwc { w_coords : list F;              (* 3 numerals per node slot, in slot order *)
                         w_faces : list (N * N * N);     (* local node ids *)
                         w_type : N }.                   (* global cell type id *)

  Definition nnodes (c : wcell) : N := N.of_nat (length (w_coords c)) / 3.

  Fixpoint offsets (cells : list wcell) (acc : N) : list N :=
    match cells with [] => [] | c :: r => acc :: offsets r (acc + nnodes c) end.

  Definition face_toks (off : N) (f : N * N * N) : list tok :=
    let '(a, b, c) := f in [I 3; I (a + off); I (b + off); I (c + off)].
  Definition cell_toks (off : N) (c : wcell) : list tok :=
    let nf := N.of_nat (length (w_faces c)) in
    I (1 + nf * 4) :: I nf :: flat_map (face_toks off) (w_faces c).

  Definition total_nodes (cells : list wcell) : N := fold_left (fun a c => a + nnodes c) cells 0.
  Definition total_ints (cells : list wcell) : N :=
    fold_left (fun a c => a + (1 + N.of_nat (length (w_faces c)) * 4)) cells (N.of_nat (length cells)).

  (* write_cell_data_file + add_cell_data_arrays_to_mesh (only the array the reader uses is kept distinct; the
     other arrays are KOther-headed blocks of integers and numerals that the reader skips) *)
  Definition write_file (cells : list wcell) : list tok :=
    let nc := N.of_nat (length cells) in
    [KPoints; I (total_nodes cells)] ++ flat_map (fun c => map X (w_coords c)) cells ++
    [KCells; I nc; I (total_ints cells)] ++
    flat_map (fun oc => cell_toks (fst oc) (snd oc)) (combine (offsets cells 0) cells) ++
    [KCellTypes; I nc] ++ repeat (I 42) (length cells) ++
    [KCellData; I nc; KOther; I 1; I nc] ++ map (fun c => I 0) cells ++     (* cell_id array (values irrelevant to the reader) *)
    [KFieldTypeId; I 1; I nc] ++ map (fun c => I (w_type c)) cells ++
    [KOther].

  (* ---------------------------------------------------------------- what is read *)
  Inductive rerr := ENoPoints | EBadNumber | ECount | ENoCellTypes | ENotPolyhedron | ENoCells | ECorrupt | EDangling | ENoTypeArray.
  Inductive res (A : Type) := Ok (a : A) | Err (e : rerr).
  Arguments Ok {A}. Arguments Err {A}.

  Fixpoint after (k : tok -> bool) (l : list tok) : option (list tok) :=
    match l with [] => None | t :: r => if k t then Some r else after k r end.
  Definition isK (which : nat) (t : tok) : bool :=
    match which, t with
    | 0%nat, KPoints => true | 1%nat, KCells => true | 2%nat, KCellTypes => true | 3%nat, KFieldTypeId => true
    | _, _ => false end.

  (* numerals up to the next token that is not a numeral *)
  Fixpoint take_X (l : list tok) : list F :=
    match l with X x :: r => x :: take_X r | _ => [] end.
  Fixpoint take_I (l : list tok) : list N :=
    match l with I n :: r => n :: take_I r | _ => [] end.

  Fixpoint sem_all (l : list F) : option (list V) :=
    match l with
    | [] => Some []
    | x :: r => match sem x, sem_all r with Some v, Some vs => Some (v :: vs) | _, _ => None end
    end.

  (* get_node_pos *)
  Definition read_points (file : list tok) : res (list V) :=
    match after (isK 0) file with
    | Some (I n :: rest) =>
        match sem_all (take_X rest) with
        | Some vs => if N.of_nat (length vs) / 3 =? n then Ok vs else Err ECount
        | None => Err EBadNumber
        end
    | _ => Err ENoPoints
    end.

  (* one cell record: first integer = number of integers that follow *)
  Fixpoint split_cells (fuel : nat) (ints : list N) : res (list (list N)) :=
    match fuel with
    | O => Err ECorrupt
    | S k =>
        match ints with
        | [] => Ok []
        | n :: r =>
            let len := N.to_nat n in
            if Nat.ltb (length r) len then Err ECorrupt else
            match split_cells k (skipn len r) with
            | Ok cs => Ok (firstn len r :: cs)
            | Err e => Err e
            end
        end
    end.

  (* read_cell_faces: CELL_TYPES n followed by n times 42; CELLS section as records *)
  Definition read_faces (file : list tok) : res (list (list N)) :=
    match after (isK 2) file with
    | Some (I n :: rest) =>
        let tys := take_I rest in
        if negb (forallb (N.eqb 42) tys) then Err ENotPolyhedron else
        if negb (N.of_nat (length tys) =? n) then Err ECount else
        match after (isK 1) file with
        | Some (I _ :: I _ :: rest2) => split_cells (S (length rest2)) (take_I rest2)
        | _ => Err ENoCells
        end
    | _ => Err ENoCellTypes
    end.

  (* faces of one record: nb_faces, then per face: k, k ids *)
  Fixpoint parse_faces (fuel : nat) (l : list N) : res (list (list N)) :=
    match fuel with
    | O => Err ECorrupt
    | S f =>
        match l with
        | [] => Ok []
        | k :: r =>
            let len := N.to_nat k in
            if Nat.ltb (length r) len then Err ECorrupt else
            match parse_faces f (skipn len r) with
            | Ok fs => Ok (firstn len r :: fs)
            | Err e => Err e
            end
        end
    end.

  (* sorted set of the ids used by the faces (std::set<unsigned>) *)
  Fixpoint insert_sorted (x : N) (l : list N) : list N :=
    match l with
    | [] => [x]
    | y :: r => if x <? y then x :: l else if x =? y then l else y :: insert_sorted x r
    end.
  Definition used_ids (faces : list (list N)) : list N := fold_left (fun s f => fold_left (fun s' x => insert_sorted x s') f s) faces [].

  Fixpoint index_of (x : N) (l : list N) (k : N) : option N :=
    match l with [] => None | y :: r => if x =? y then Some k else index_of x r (N.succ k) end.

  Record rmesh := mkrm { r_coords : list V; r_faces : list (list N) }.

  Definition coords_of (pts : list V) (g : N) : option (list V) :=
    let i := N.to_nat (g * 3) in
    if Nat.leb (i + 3) (length pts) then Some (firstn 3 (skipn i pts)) else None.

  Fixpoint gather (pts : list V) (ids : list N) : option (list V) :=
    match ids with
    | [] => Some []
    | g :: r => match coords_of pts g, gather pts r with Some c, Some cs => Some (c ++ cs) | _, _ => None end
    end.

  Definition renumber_face (ids : list N) (f : list N) : option (list N) :=
    fold_right (fun x acc => match index_of x ids 0, acc with Some k, Some l => Some (k :: l) | _, _ => None end) (Some []) f.
  Fixpoint all_some {A} (l : list (option A)) : option (list A) :=
    match l with [] => Some [] | Some a :: r => option_map (cons a) (all_some r) | None :: _ => None end.

  (* get_cell_mesh for one record (with the bounds check the reader needs: EDangling) *)
  Definition cell_mesh (pts : list V) (rec : list N) : res rmesh :=
    match rec with
    | [] => Err ECorrupt
    | nf :: body =>
        match parse_faces (S (length body)) body with
        | Err e => Err e
        | Ok faces =>
            if negb (N.of_nat (length faces) =? nf) then Err ECount else
            let ids := used_ids faces in
            match gather pts ids, all_some (map (renumber_face ids) faces) with
            | Some cs, Some fs => Ok (mkrm cs fs)
            | _, _ => Err EDangling
            end
        end
    end.

  Fixpoint map_res {A B} (f : A -> res B) (l : list A) : res (list B) :=
    match l with
    | [] => Ok []
    | a :: r => match f a with Err e => Err e | Ok b => match map_res f r with Ok bs => Ok (b :: bs) | Err e => Err e end end
    end.

  (* get_cell_types: the integers after the cell_type_id header (name, "1", n, type word are folded into the keyword
     followed by I 1 and I n) *)
  Definition read_types (file : list tok) : res (list N) :=
    match after (isK 3) file with
    | Some (I _ :: I _ :: rest) => Ok (take_I rest)
    | _ => Err ENoTypeArray
    end.

  Definition read_file (file : list tok) : res (list rmesh * list N) :=
    match read_points file with
    | Err e => Err e
    | Ok pts =>
        match read_faces file with
        | Err e => Err e
        | Ok recs =>
            match map_res (cell_mesh pts) recs with
            | Err e => Err e
            | Ok ms => match read_types file with Ok tys => Ok (ms, tys) | Err e => Err e end
            end
        end
    end.
End Vtk.
