(* Init.v — the parts of the initial surface reconstruction that are logic:
   (1) the acceptance gate cell::initialize_cell_properties(true): generate_edge_set (a third face on an edge is an
       exception), is_manifold (every edge has two faces, V - E + F = 2), check_face_normal_orientation (Geometry.v);
   (2) the retry machine of simulation_initializer::triangulate_surface (10 attempts);
   (3) poisson_sampling::poisson_disk_sampling over two grids of identical geometry (Grid.v).
   The randomised / geometric stages (uniform sampling, ball pivoting, hole filling) enter only as inputs. *)
From Coq Require Import NArith ZArith Bool List Arith.
From SC Require Import Num Mesh Grid.
Import ListNotations.

(* ------------------------------------------------------------------ (1) the gate *)
Local Open Scope N_scope.
Definition uedge (e : hedge) : hedge := if fst e <? snd e then e else hswap e.        (* undirected: (min, max) *)
Definition all_uedges (s : list tri) : list hedge := map uedge (all_hedges s).
Definition count_uedge (e : hedge) (l : list hedge) : nat := length (filter (hedge_eqb e) l).
Fixpoint dedup_h (l : list hedge) : list hedge :=
  match l with [] => [] | x :: r => if mem_hedge x r then dedup_h r else x :: dedup_h r end.
(* generate_edge_set + is_manifold: every undirected edge carries exactly two faces *)
Definition edges_two_b (s : list tri) : bool :=
  let u := all_uedges s in forallb (fun e => Nat.eqb (count_uedge e u) 2) u.
(* V - E + F = 2 with E the number of distinct undirected edges *)
Definition euler_edges_b (s : list tri) : bool :=
  (Z.of_nat (n_vertices s) - Z.of_nat (length (dedup_h (all_uedges s))) + Z.of_nat (length s) =? 2)%Z.
Definition gate_b (s : list tri) : bool := edges_two_b s && euler_edges_b s.
Local Close Scope N_scope.

(* ------------------------------------------------------------------ (2) the retry machine *)
Section Retry.
  Context {C E : Type}.
  Inductive attempt := Accepted (c : C) | Failed (e : E).
  Inductive result := Cell (c : C) (tries : nat) | GaveUp (tries : nat).
  (* for(i = 0; i < 10; ++i){ try{ ...; break;} catch(...){...}  if(i == 9) throw } *)
  Fixpoint retry (fuel : nat) (k : nat) (attempts : nat -> attempt) : result :=
    match fuel with
    | O => GaveUp k
    | S f => match attempts k with Accepted c => Cell c (S k) | Failed _ => retry f (S k) attempts end
    end.
  Definition triangulate_with_retries (attempts : nat -> attempt) : result := retry 10 0 attempts.
End Retry.

(* ------------------------------------------------------------------ (3) Poisson disk sampling *)
Section Poisson.
  Context {T : Type} (N : Num T) (floorZ : T -> Z).
  Notation pos := (T * T * T)%type.
  Record opoint := mkop { op_pos : pos; op_created : bool }.        (* created_by_poisson_sampling_ *)

  Definition sqd (p q : pos) : T :=
    let '(px, py, pz) := p in let '(qx, qy, qz) := q in
    let dx := nsub N px qx in let dy := nsub N py qy in let dz := nsub N pz qz in
    nadd N (nadd N (nmul N dx dx) (nmul N dy dy)) (nmul N dz dz).

  (* the inner loop over the points already inserted around the voxel: reject when one is closer than l_min or when 30
     points have been examined *)
  Fixpoint accept (l2 : T) (c : pos) (nbrs : list opoint) (tries : nat) : bool :=
    match nbrs with
    | [] => true
    | q :: r => if nltb N (sqd (op_pos q) c) l2 || Nat.leb 30 tries then false else accept l2 c r (S tries)
    end.

  (* at most 30 candidates of the voxel are tried; the first accepted one is placed (by its position) and the voxel is done *)
  Fixpoint try_cands (g : dims (T:=T)) (l2 : T) (st2 : store (A:=opoint)) (nbrs : list opoint) (cands : list opoint) (k : nat)
    : option (store (A:=opoint)) :=
    match cands, k with
    | c :: r, S k' => if accept l2 (op_pos c) nbrs 0 then place N floorZ g st2 (op_pos c) c else try_cands g l2 st2 nbrs r k'
    | _, _ => Some st2
    end.

  Definition poisson (g : dims (T:=T)) (l2 : T) (st1 st2 : store (A:=opoint)) : option (store (A:=opoint)) :=
    fold_left (fun acc v => match acc with
                            | None => None
                            | Some s2 => try_cands g l2 s2 (neighborhood_idx g s2 v) (content st1 (flat g v)) 30
                            end)
              (all_voxels g) (Some st2).

  Definition poisson_cloud (g : dims (T:=T)) (l2 : T) (st1 st2 : store (A:=opoint)) : option (list opoint) :=
    option_map (grid_content g) (poisson g l2 st1 st2).
End Poisson.
