(* Properties_C03.v — property C03: a time step advances every node by the documented integration law.
   Only statements; every proof is `exact <lemma of IntegratorProofs.v>`.  Model: Integrator.v at R. *)
From Coq Require Import Reals ZArith Bool List Lia Lra.
From SC Require Import Num Vec3 VecR Integrator Integrator_gen IntegratorSpec IntegratorProofs.
Import ListNotations.
Local Open Scope R_scope.

(* 1. one update advances simulated time by exactly one time step; n updates by n time steps *)
Theorem time_advances_by_dt : forall contact over dt damping (s : stateR),
  s_time (step NumR contact over dt damping s) = s_time s + dt.
Proof. exact step_time. Qed.
Print Assumptions time_advances_by_dt.

Theorem n_steps_time : forall n contact over dt damping (s : stateR),
  s_time (steps NumR n contact over dt damping s) = s_time s + INR n * dt.
Proof. exact steps_time. Qed.
Print Assumptions n_steps_time.

(* 2. contact model 1: the loop over cells and node slots gives every node exactly the value the law prescribes
      (each live node of each non-static cell updated once, a coupled pair together; everything else untouched) *)
Theorem step1_is_the_law : forall over dt damping (s : stateR), WF s ->
  s_nodes (step NumR 1 over dt damping s) = map (final1 over dt damping s) (seq 0 (length (s_nodes s))) /\
  s_cells (step NumR 1 over dt damping s) = s_cells s.
Proof. exact step1_spec. Qed.
Print Assumptions step1_is_the_law.

(* same for contact model 0 (no couplings) *)
Theorem step0_is_the_law : forall over dt damping (s : stateR),
  (forall g, (g < length (s_nodes s))%nat -> (n_cell (node_at s g) < length (s_cells s))%nat) ->
  s_nodes (step NumR 0 over dt damping s) = map (final0 over dt damping s) (seq 0 (length (s_nodes s))).
Proof. exact step0_spec. Qed.
Print Assumptions step0_is_the_law.

(* well-formedness is kept, so the law holds over any number of consecutive steps *)
Theorem wf_preserved : forall over dt damping (s : stateR), WF s -> WF (step NumR 1 over dt damping s).
Proof. exact step1_WF. Qed.
Print Assumptions wf_preserved.

(* 3. the closed forms of the statement: semi-implicit Euler ... *)
Theorem uncoupled_node_semi_implicit : forall dt damping m (n : inodeR),
  let n' := upd_single NumR false dt damping m n in
  n_mom n' = n_mom n +v (n_force n -v n_mom n *v (damping / m)) *v dt /\
  n_pos n' = n_pos n +v n_mom n' *v (dt / m) /\
  n_force n' = mkv 0 0 0.
Proof. exact upd_dyn_closed. Qed.
Print Assumptions uncoupled_node_semi_implicit.

(* ... and overdamped *)
Theorem uncoupled_node_overdamped : forall dt damping m (n : inodeR),
  let n' := upd_single NumR true dt damping m n in
  n_pos n' = n_pos n +v n_force n *v (dt / damping) /\ n_force n' = mkv 0 0 0.
Proof. exact upd_over_closed. Qed.
Print Assumptions uncoupled_node_overdamped.

(* 4. forces of all integrated nodes are zero after the step; nodes of static cells and unused slots are untouched *)
Theorem forces_zero_after_step : forall over dt damping (s : stateR) g, WF s ->
  (g < length (s_nodes s))%nat -> integrated s (node_at s g) = true ->
  n_force (final1 over dt damping s g) = mkv 0 0 0.
Proof. exact final1_force_zero. Qed.
Print Assumptions forces_zero_after_step.

Theorem static_cells_untouched : forall over dt damping (s : stateR) g,
  integrated s (node_at s g) = false -> final1 over dt damping s g = node_at s g.
Proof. exact final1_static. Qed.
Print Assumptions static_cells_untouched.

(* 5. a mutually coupled pair receives the same displacement and the same new momentum; the averaging keeps the
      pair's total momentum and total force *)
Theorem mutual_pair_same_displacement : forall over dt damping (s : stateR) g h, WF s ->
  (g < length (s_nodes s))%nat -> integrated s (node_at s g) = true -> n_cpl (node_at s g) = Some h ->
  n_pos (final1 over dt damping s g) -v n_pos (node_at s g) = n_pos (final1 over dt damping s h) -v n_pos (node_at s h) /\
  (over = false -> n_mom (final1 over dt damping s g) = n_mom (final1 over dt damping s h)).
Proof. exact pair_same_displacement. Qed.
Print Assumptions mutual_pair_same_displacement.

Theorem mutual_pair_totals_preserved : forall (p1 p2 : vR),
  ((p1 +v p2) *v half NumR) +v ((p1 +v p2) *v half NumR) = p1 +v p2.
Proof. exact averaging_keeps_total. Qed.
Print Assumptions mutual_pair_totals_preserved.

(* the pair's new total momentum is the old total plus twice the common increment computed from the averages *)
Theorem mutual_pair_total_momentum : forall dt damping m1 m2 (n1 n2 : inodeR),
  let r := upd_pair NumR false dt damping m1 m2 n1 n2 in
  let avg_p := (n_mom n1 +v n_mom n2) *v half NumR in
  let avg_f := (n_force n1 +v n_force n2) *v half NumR in
  let avg_m := (m1 + m2) * half NumR in
  n_mom (fst r) +v n_mom (snd r) =
  (n_mom n1 +v n_mom n2) +v ((avg_f -v avg_p *v (damping / avg_m)) *v dt) *v 2.
Proof. exact pair_total_momentum. Qed.
Print Assumptions mutual_pair_total_momentum.

(* non-vacuity: a two-cell population with one mutual coupling is well-formed *)
Example wf_witness :
  WF (mkstate [mkcell false 0%nat 1; mkcell false 1%nat 2]
              [mknode true 0%nat (mkv 0 0 0) (mkv 1 0 0) (mkv 0 1 0) (Some 1%nat) [];
               mknode true 1%nat (mkv 1 0 0) (mkv 0 0 0) (mkv 0 0 1) (Some 0%nat) []] 0).
Proof. exact wf_example. Qed.

(* 0. THE TIE TO THE SOURCE.  Integrator_gen.v is regenerated from src/time_integration/time_integration.cpp on every run
      (harness/translate_integrator.py): the per-node update blocks of update_nodes_positions, for contact models 0 and 1 and
      both dynamic models, executed symbolically statement by statement.  They are the hand-written upd_dyn / upd_over /
      upd_pair about which the theorems above speak, for every number type (so also for the extracted binary64 instance);
      the guards around the blocks (static cells and free slots skipped, has_value, c1->get_local_id() > c2_id without an
      else-branch, simulation_time_ += dt_ once) are checked by the translator, which fails closed. *)
Theorem integrator_model_is_what_the_source_says :
  (integrator_translation_ok = true :> bool) /\
  (forall (T : Type) (N : Num T) dt damping m (n : @inode T),
     single0_dyn_gen N dt damping m n = upd_single N false dt damping m n /\
     single0_over_gen N dt damping m n = upd_single N true dt damping m n /\
     single1_dyn_gen N dt damping m n = upd_single N false dt damping m n /\
     single1_over_gen N dt damping m n = upd_single N true dt damping m n) /\
  (forall (T : Type) (N : Num T) dt damping m1 m2 (n1 n2 : @inode T),
     pair1_dyn_gen N dt damping m1 m2 n1 n2 = upd_pair N false dt damping m1 m2 n1 n2 /\
     pair1_over_gen N dt damping m1 m2 n1 n2 = upd_pair N true dt damping m1 m2 n1 n2).
Proof.
  split; [reflexivity|]. split.
  - intros; split; [reflexivity|]. split; [reflexivity|]. split; reflexivity.
  - intros; split; reflexivity.
Qed.
Print Assumptions integrator_model_is_what_the_source_says.

(* WHAT THE REGENERATED CODE DOES: the pair statement of C03 about the translated block itself (pair1_dyn_gen at R; convertible with
   the model): the new total momentum of a coupled pair is the old total plus twice the common increment computed from the averages. *)
Theorem regenerated_pair_total_momentum : forall dt damping m1 m2 (n1 n2 : inodeR),
  let r := pair1_dyn_gen NumR dt damping m1 m2 n1 n2 in
  let avg_p := (n_mom n1 +v n_mom n2) *v half NumR in
  let avg_f := (n_force n1 +v n_force n2) *v half NumR in
  let avg_m := (m1 + m2) * half NumR in
  n_mom (fst r) +v n_mom (snd r) =
  (n_mom n1 +v n_mom n2) +v ((avg_f -v avg_p *v (damping / avg_m)) *v dt) *v 2.
Proof. exact pair_total_momentum. Qed.
Print Assumptions regenerated_pair_total_momentum.
