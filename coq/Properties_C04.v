(* Properties_C04.v — property C04: growth, pressure, division trigger and removal follow the cell-cycle law.
   Only statements; every proof is `exact <lemma of CellCycleProofs.v>`.  Model: CellCycle.v at R with ln/exp. *)
From Coq Require Import Reals Lra Bool ZArith List.
From SC Require Import Num CellCycle CellCycle_gen CellCycleProofs.
Import ListNotations.
Local Open Scope R_scope.

(* 0. THE MODEL IS THE SOURCE.  CellCycle_gen.v is regenerated on every run from cell::update_target_volume, the pressure
   assignments of cell::update_pressure, cell::is_below_min_vol and epithelial_cell::is_ready_to_divide
   (harness/translate_cellcycle.py: member assignments read as a chain of lets).  The hand-written functions of CellCycle.v,
   about which everything below is stated, are those functions, for every number type. *)
Theorem cellcycle_model_is_what_the_source_says : (cellcycle_translation_ok = true :> bool) /\
  (forall (T : Type) (N : Num T) (dt g minvol vt : T), update_target_volume_gen N dt g minvol vt = update_target_volume N dt g minvol vt) /\
  (forall (T : Type) (N : Num T) (L : Libm T) (K pmax V vt : T), update_pressure_gen N L K pmax V vt = update_pressure N L K pmax V vt) /\
  (forall (T : Type) (N : Num T) (V minvol : T), is_below_gen N V minvol = is_below N V minvol) /\
  (forall (T : Type) (N : Num T) (V vdiv : T), epithelial_is_ready_gen N V vdiv = is_ready N 0%Z V vdiv) /\
  (* initialize_random_properties: a value is drawn iff the standard deviation is not zero (and, for the division volume, the mean is
     finite) and is then capped at three standard deviations; the solver's initial target volume.  The source tests `std != 0`
     where the model tests `std == 0` with the branches exchanged: equal by cases on the test, not by reflexivity. *)
  (forall (T : Type) (N : Num T) (avg sd raw : T) (inf_ : bool),
     growth_of_gen N avg sd raw = growth_of N avg sd raw /\
     divvol_of_gen N inf_ avg sd raw = divvol_of N inf_ avg sd raw) /\
  (forall (T : Type) (N : Num T) (L : Libm T) (V p0 K : T), initial_target_gen N L V p0 K = initial_target N L V p0 K).
Proof.
  split; [reflexivity|]. split; [intros; reflexivity|]. split; [intros; reflexivity|]. split; [intros; reflexivity|].
  split; [intros; reflexivity|]. split; [|intros; reflexivity].
  intros T N avg sd raw inf_. unfold growth_of_gen, divvol_of_gen, growth_of, divvol_of, clamp3, three.
  destruct (neqb N sd (nzero N)); destruct inf_; split; reflexivity.
Qed.
Print Assumptions cellcycle_model_is_what_the_source_says.

(* the target volume increases by growth_rate*dt per iteration and never drops below the type's minimum volume *)
Theorem target_volume_step : forall dt g minvol vt,
  update_target_volume NumR dt g minvol vt = Rmax (vt + dt * g) minvol.
Proof. exact CellCycleProofs.target_volume_step. Qed.
Print Assumptions target_volume_step.

Theorem target_volume_grows_by_rate_times_dt : forall dt g minvol vt, minvol <= vt + dt * g ->
  update_target_volume NumR dt g minvol vt = vt + g * dt.
Proof. exact target_unclamped. Qed.
Print Assumptions target_volume_grows_by_rate_times_dt.

Theorem target_ge_min : forall minvol (h : list (R * R)) vt, h <> [] ->
  minvol <= fold_left (fun v s => update_target_volume NumR (fst s) (snd s) minvol v) h vt.
Proof. exact target_history_ge_min. Qed.
Print Assumptions target_ge_min.

(* pressure = -K ln(V/V_target) capped at the type's maximum pressure *)
Theorem pressure_law : forall K pmax V vt,
  update_pressure NumR LibmR K pmax V vt = Rmin (- K * ln (V / vt)) pmax.
Proof. exact CellCycleProofs.pressure_law. Qed.
Print Assumptions pressure_law.

(* an infinite cap is the case where the bound never binds *)
Theorem pressure_uncapped : forall K pmax V vt, - K * ln (V / vt) <= pmax ->
  update_pressure NumR LibmR K pmax V vt = - K * ln (V / vt).
Proof. exact CellCycleProofs.pressure_uncapped. Qed.
Print Assumptions pressure_uncapped.

(* eligible for division exactly when epithelial (class 0) and the volume has reached the division volume *)
Theorem ready_iff : forall cls V vdiv, is_ready NumR cls V vdiv = true <-> (cls = 0%Z /\ vdiv <= V).
Proof. exact CellCycleProofs.ready_iff. Qed.
Print Assumptions ready_iff.

(* drawn growth rates and division volumes stay within mean +- 3 sigma (sigma = 0 and infinite mean included) *)
Theorem growth_rate_within_3sigma : forall avg sd raw, 0 <= sd ->
  avg - 3 * sd <= growth_of NumR avg sd raw <= avg + 3 * sd.
Proof. exact growth_within. Qed.
Print Assumptions growth_rate_within_3sigma.

Theorem division_volume_within_3sigma : forall b avg sd raw, 0 <= sd ->
  avg - 3 * sd <= divvol_of NumR b avg sd raw <= avg + 3 * sd.
Proof. exact divvol_within. Qed.
Print Assumptions division_volume_within_3sigma.

Theorem clamp_is_identity_inside : forall avg sd x, avg - 3 * sd <= x <= avg + 3 * sd -> clamp3 NumR avg sd x = x.
Proof. exact clamp_identity. Qed.
Print Assumptions clamp_is_identity_inside.

(* a cell is removed exactly when its volume is below the minimum volume, and the survivors are a sub-list *)
Theorem removed_iff_below_min : forall (cells : list (nat * R * R)) c,
  In c (survivors NumR cells) <-> In c cells /\ ~ (snd (fst c) < snd c).
Proof. exact (@survivors_iff nat). Qed.
Print Assumptions removed_iff_below_min.

(* the initial target volume V*exp(P0/K) reproduces the initial pressure *)
Theorem initial_pressure_consistent : forall V p0 K pmax, 0 < V -> 0 < K -> p0 <= pmax ->
  update_pressure NumR LibmR K pmax V (initial_target NumR LibmR V p0 K) = p0.
Proof. exact CellCycleProofs.initial_pressure_consistent. Qed.
Print Assumptions initial_pressure_consistent.

Example cycle_witness : 0 < 2 /\ 0 < 2500 /\ 10 <= 100.
Proof. lra. Qed.

(* a cell found below its minimum volume by the force phase is not in the population when the next iteration starts (the
   removal is the last population change of the iteration: order read from src/solver.cpp, Properties_C08) *)
From SC Require Import Population IterationDefs Iteration IterationProofs.
Theorem below_minimum_cells_are_gone_after_the_iteration : forall (inp : inputs) (s : istate) (i : N),
  In i (in_below inp) -> ~ In i (ids (i_pop (run_iteration documented_order inp s))).
Proof. exact below_min_cells_gone. Qed.
Print Assumptions below_minimum_cells_are_gone_after_the_iteration.

(* WHAT THE REGENERATED CODE DOES: the two laws of C04 about the translated member functions themselves (at R; convertible with the
   model, so the proofs are the model's): the target volume grows by rate times time step and never drops below the minimum volume;
   the pressure is -K ln(V / V_target) capped at the maximum pressure. *)
Theorem regenerated_target_volume_step : forall dt g minvol vt,
  update_target_volume_gen NumR dt g minvol vt = Rmax (vt + dt * g) minvol.
Proof. exact CellCycleProofs.target_volume_step. Qed.
Print Assumptions regenerated_target_volume_step.

Theorem regenerated_pressure_law : forall K pmax V vt,
  update_pressure_gen NumR LibmR K pmax V vt = Rmin (- K * ln (V / vt)) pmax.
Proof. exact CellCycleProofs.pressure_law. Qed.
Print Assumptions regenerated_pressure_law.
