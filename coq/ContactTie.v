(* ContactTie.v — the narrow phase of the default contact model is what the source says NOW.
   Narrow_gen.v is regenerated from src/contact_models/contact_node_node_via_coupling.cpp (resolve_contact) and
   contact_model_abstract.cpp (constructor) on every run by harness/translate_narrowphase.py.
   cpl_decision is the expression that Contact.resolve_contact evaluates to decide a coupling (lemma
   resolve_contact_uses_the_decision: resolve_contact is exactly "decision, else repulsion" around it); the generated
   functions equal cpl_decision, interaction and the squared cut-offs by reflexivity, for every number type. *)
From Coq Require Import NArith ZArith Bool List.
From SC Require Import Num Vec3 Kernel Grid Contact Narrow_gen.
Import ListNotations.
Local Open Scope bool_scope.

Definition cpl_decision {T : Type} (N : Num T) (dmax c45 cut_adh : T) (n1 a b c : @cnode T) (ia ib ic : nat) (maxcurv : T) : option (nat * T) :=
  let '(n2i, d) := cpl_choice N dmax c45 n1 a b c ia ib ic maxcurv in
  if nltb N d (cut2_adh N cut_adh) && nltb N d (cn_sqd n1) then Some (n2i, d) else None.

Lemma resolve_contact_uses_the_decision :
  forall (T : Type) (N : Num T) (dmax c45 cut_adh cut_rep : T) (st : @state T) (c1i n1i c2i : nat) (f : @cface T)
         (c1 c2 : @ccell T) (n1 a b c : @cnode T),
    nth_error st c1i = Some c1 -> nth_error st c2i = Some c2 ->
    nth_error (cc_nodes c1) n1i = Some n1 ->
    nth_error (cc_nodes c2) (cf_n1 f) = Some a -> nth_error (cc_nodes c2) (cf_n2 f) = Some b -> nth_error (cc_nodes c2) (cf_n3 f) = Some c ->
    resolve_contact N dmax c45 cut_adh cut_rep st c1i n1i (c2i, f) =
      match (if Nat.eqb (cc_type c1) 0 && Nat.eqb (cc_type c2) 0
             then cpl_decision N dmax c45 cut_adh n1 a b c (cf_n1 f) (cf_n2 f) (cf_n3 f) (cc_maxcurv c1) else None) with
      | Some (n2i, d) =>
          Some (upd_node (upd_node st c1i n1i (fun n => set_cpl n (Some (cc_local c2, n2i)) d))
                         c2i n2i (fun n => set_cpl n (Some (cc_local c1, n1i)) d))
      | None =>
          match interaction N cut_adh cut_rep (cn_pos n1) (cn_pos a) (cn_pos b) (cn_pos c) (cf_normal f) (cf_area f) (cf_rep f) (cc_type c1) (cc_type c2) with
          | Some (fn, fa, fb, fc) =>
              let s1 := upd_node st c2i (cf_n1 f) (fun n => add_force N n fa) in
              let s2 := upd_node s1 c2i (cf_n2 f) (fun n => add_force N n fb) in
              let s3 := upd_node s2 c2i (cf_n3 f) (fun n => add_force N n fc) in
              Some (upd_node s3 c1i n1i (fun n => add_force N n fn))
          | None => Some st
          end
      end.
Proof.
  intros T N dmax c45 cut_adh cut_rep st c1i n1i c2i f c1 c2 n1 a b c H1 H2 Hn Ha Hb Hc.
  unfold resolve_contact, cpl_decision. rewrite H1, H2, Hn, Ha, Hb, Hc.
  destruct (Nat.eqb (cc_type c1) 0 && Nat.eqb (cc_type c2) 0); [|reflexivity].
  destruct (cpl_choice N dmax c45 n1 a b c (cf_n1 f) (cf_n2 f) (cf_n3 f) (cc_maxcurv c1)) as [n2i d].
  destruct (nltb N d (cut2_adh N cut_adh) && nltb N d (cn_sqd n1)); reflexivity.
Qed.

Definition narrow_phase_tie : Prop :=
  (narrowphase_translation_ok = true :> bool) /\
  (forall (T : Type) (N : Num T) (cut_adh cut_rep : T),
     cut2_adh_gen N cut_adh cut_rep = cut2_adh N cut_adh /\
     cut2_rep_gen N cut_adh cut_rep = cut2_rep N cut_rep /\
     cut2_max_gen N cut_adh cut_rep = cut2_max N cut_adh cut_rep) /\
  (forall (T : Type) (N : Num T) (dmax c45 cut_adh maxcurv : T) (n1 a b c : @cnode T) (ia ib ic : nat),
     cpl_decision_gen N dmax c45 (cut2_adh N cut_adh) maxcurv n1 a b c ia ib ic = cpl_decision N dmax c45 cut_adh n1 a b c ia ib ic maxcurv) /\
  (forall (T : Type) (N : Num T) (cut_adh cut_rep : T) (p a b c fnormal : vec3 T) (area rep : T) (t1 t2 : nat),
     interaction_gen N (cut2_max N cut_adh cut_rep) p a b c fnormal area rep t1 t2 = interaction N cut_adh cut_rep p a b c fnormal area rep t1 t2).

Theorem narrow_phase_model_is_what_the_source_says : narrow_phase_tie.
Proof.
  unfold narrow_phase_tie. split; [reflexivity|]. split; [|split].
  - intros. split; [reflexivity|]. split; reflexivity.
  - intros. reflexivity.
  - intros. reflexivity.
Qed.
(* the search around the narrow phase: which nodes search, in which voxel, which faces they try; the centring of coupled pairs *)
Lemma in_box_gen_is_in_box : forall (T : Type) (N : Num T) (b : @box T) (p : vec3 T), in_box_gen N b p = in_box N b p.
Proof.
  intros. unfold in_box_gen, in_box.
  destruct (nltb N (vx p) (vx (b_lo b))), (nltb N (vx (b_hi b)) (vx p)), (nltb N (vy p) (vy (b_lo b))), (nltb N (vy (b_hi b)) (vy p)),
           (nltb N (vz p) (vz (b_lo b))), (nltb N (vz (b_hi b)) (vz p)); reflexivity.
Qed.

Definition search_tie : Prop :=
  (forall (T : Type) (N : Num T) (b : @box T) (p : vec3 T), in_box_gen N b p = in_box N b p) /\
  (forall (T : Type) (N : Num T) (c : @ccell T) (n : @cnode T), node_active_gen N (cn_used n) (cn_curv n) (cc_maxcurv c) = node_active N c n) /\
  (forall (T : Type) (N : Num T) (floorZ : T -> Z) (g : @dims T) (p : vec3 T), node_voxel_gen N floorZ g p = raw3 N floorZ g p) /\
  (forall (T : Type) (N : Num T) (c90 : T) (b : @box T) (n1 : @cnode T) (f : @cface T),
     try_guard_gen N c90 b (cn_pos n1) (cn_normal n1) (cf_normal f) = in_box N b (cn_pos n1) && nltb N (vdot N (cn_normal n1) (cf_normal f)) c90) /\
  (forall (T : Type) (N : Num T) (p1 p2 : vec3 T), centre_point_gen N p1 p2 = vscale N (vadd N p1 p2) (Contact.half N)).

Theorem search_around_the_narrow_phase_is_what_the_source_says : search_tie.
Proof.
  unfold search_tie. split; [exact in_box_gen_is_in_box|]. split; [reflexivity|]. split.
  - intros T N floorZ g p. unfold node_voxel_gen, raw3. destruct (d_lo g) as [[lx ly] lz]. reflexivity.
  - split.
    + intros. unfold try_guard_gen. rewrite in_box_gen_is_in_box. reflexivity.
    + reflexivity.
Qed.
Print Assumptions search_around_the_narrow_phase_is_what_the_source_says.
Print Assumptions narrow_phase_model_is_what_the_source_says.
Print Assumptions resolve_contact_uses_the_decision.
