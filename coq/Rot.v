(* Rot.v — rigid motions of R^3: orthogonal matrices, rotations, and what they preserve *)
From Coq Require Import Reals Lra Psatz Nsatz.
From SC Require Import Num Vec3 VecR.
Local Open Scope R_scope.

Record mat3 := mkm { m11 : R; m12 : R; m13 : R; m21 : R; m22 : R; m23 : R; m31 : R; m32 : R; m33 : R }.

Definition mapply (M : mat3) (v : vR) : vR :=
  mkv (m11 M * vx v + m12 M * vy v + m13 M * vz v)
      (m21 M * vx v + m22 M * vy v + m23 M * vz v)
      (m31 M * vx v + m32 M * vy v + m33 M * vz v).

(* M^T M = I *)
Definition orthogonal (M : mat3) : Prop :=
  m11 M * m11 M + m21 M * m21 M + m31 M * m31 M = 1 /\
  m12 M * m12 M + m22 M * m22 M + m32 M * m32 M = 1 /\
  m13 M * m13 M + m23 M * m23 M + m33 M * m33 M = 1 /\
  m11 M * m12 M + m21 M * m22 M + m31 M * m32 M = 0 /\
  m11 M * m13 M + m21 M * m23 M + m31 M * m33 M = 0 /\
  m12 M * m13 M + m22 M * m23 M + m32 M * m33 M = 0.

Definition det3 (M : mat3) : R :=
  m11 M * (m22 M * m33 M - m23 M * m32 M) - m12 M * (m21 M * m33 M - m23 M * m31 M)
  + m13 M * (m21 M * m32 M - m22 M * m31 M).

Definition rotation (M : mat3) : Prop := orthogonal M /\ det3 M = 1.

Definition rigid (M : mat3) (t : vR) (v : vR) : vR := mapply M v +v t.

Lemma mapply_sub M x y : mapply M (x -v y) = mapply M x -v mapply M y.
Proof. unfold mapply. vunfold. apply vec3_eq; cbn; ring. Qed.

Lemma mapply_add M x y : mapply M (x +v y) = mapply M x +v mapply M y.
Proof. unfold mapply. vunfold. apply vec3_eq; cbn; ring. Qed.

Lemma mapply_scale M x s : mapply M (x *v s) = mapply M x *v s.
Proof. unfold mapply. vunfold. apply vec3_eq; cbn; ring. Qed.

Lemma rigid_sub M t x y : rigid M t x -v rigid M t y = mapply M (x -v y).
Proof. unfold rigid, mapply. vunfold. apply vec3_eq; cbn; ring. Qed.

Lemma dot_rot M x y : orthogonal M -> mapply M x ·  mapply M y = x ·  y.
Proof.
  intros (H1 & H2 & H3 & H4 & H5 & H6). destruct M, x as [x1 x2 x3], y as [y1 y2 y3].
  unfold mapply. vunfold. cbn in *.
  transitivity ((m14 * m14 + m24 * m24 + m34 * m34) * (x1 * y1) + (m15 * m15 + m25 * m25 + m35 * m35) * (x2 * y2)
     + (m16 * m16 + m26 * m26 + m36 * m36) * (x3 * y3)
     + (m14 * m15 + m24 * m25 + m34 * m35) * (x1 * y2 + x2 * y1)
     + (m14 * m16 + m24 * m26 + m34 * m36) * (x1 * y3 + x3 * y1)
     + (m15 * m16 + m25 * m26 + m35 * m36) * (x2 * y3 + x3 * y2)).
  - ring.
  - rewrite H1, H2, H3, H4, H5, H6. ring.
Qed.

Lemma sqn_rot M x : orthogonal M -> sqn (mapply M x) = sqn x.
Proof. intros H. rewrite !sqn_dot. apply dot_rot; assumption. Qed.

Lemma dot_rigid M t x y z w : orthogonal M ->
  (rigid M t x -v rigid M t y) ·  (rigid M t z -v rigid M t w) = (x -v y) ·  (z -v w).
Proof. intros H. rewrite !rigid_sub. apply dot_rot; assumption. Qed.
