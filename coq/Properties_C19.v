(* Properties_C19.v — property C19: output files and statistics are complete, well-formed and match simulated state.
   Only statements; every proof is `exact <lemma of OutputProofs.v>`, the facts about the column table REGENERATED
   from include/io/mesh_data.hpp (Output_gen.v) are decided by computation.  Model: Output.v. *)
From Coq Require Import Reals ZArith Bool List Arith String Lra Lia.
From Flocq Require Import Raux.
From SC Require Import Num Output OutputProofs Output_gen.
Import ListNotations.
Local Open Scope R_scope.

(* ---- for EVERY arithmetic (the binary64 instance included: rounding cannot create a gap) ---- *)
(* the files written by a run are numbered 1, 2, ..., K in this order, K being the final file counter *)
Theorem file_numbers_consecutive :
  forall (T : Type) (N : Num T) (floorZ : T -> Z) (C : Type) (dt Sp Tend : T) hist (pop : list C) sf ev,
  run N floorZ dt Sp Tend hist (init N pop) = Some (sf, ev) ->
  (0 <= s_file sf)%Z /\ saved ev = map Z.of_nat (seq 1 (Z.to_nat (s_file sf))).
Proof. exact saved_consecutive. Qed.
Print Assumptions file_numbers_consecutive.

(* statistics are recorded at every 50th iteration and once more after the last one; rows = cells alive then *)
Theorem stats_records :
  forall (T : Type) (N : Num T) (floorZ : T -> Z) (C : Type) (dt Sp Tend : T) hist (pop : list C) sf ev,
  run N floorZ dt Sp Tend hist (init N pop) = Some (sf, ev) ->
  recorded ev = filter (fun i => Nat.eqb (i mod 50) 0) (seq 0 (s_iter sf)) ++ [s_iter sf].
Proof. exact recorded_iterations. Qed.
Print Assumptions stats_records.

(* every record carries the population alive when it was recorded, every file the population alive when written *)
Theorem events_describe_the_living :
  forall (T : Type) (N : Num T) (floorZ : T -> Z) (C : Type) (dt Sp Tend : T) hist (pop : list C) sf ev,
  run N floorZ dt Sp Tend hist (init N pop) = Some (sf, ev) ->
  (forall i t p, In (Stats i t p) ev ->
     (i < s_iter sf /\ exists fin, nth_error hist i = Some (p, fin)) \/ (i = s_iter sf /\ p = s_pop sf))%nat /\
  (forall k p, In (Save k p) ev -> p = pop \/ exists i mid, nth_error hist i = Some (mid, p)).
Proof. exact events_populations. Qed.
Print Assumptions events_describe_the_living.

(* every row has as many fields as the header *)
Theorem row_matches_header : forall (C Fld : Type) (names : list Fld) (cols : list (C -> Fld)) it ct tm it' ct' tm' c,
  List.length names = List.length cols -> List.length (row cols it ct tm c) = List.length (header names it' ct' tm').
Proof. exact row_header_length. Qed.
Print Assumptions row_matches_header.

(* ---- over the reals: simulated time, run length, number of files ---- *)
Section Reals.
  Variables (dt Sp Tend : R).
  Hypothesis Hdt : 0 < dt. Hypothesis HS : dt <= Sp. Hypothesis HT : 0 < Tend.
  Variable C : Type.
  Notation runR := (run NumR Zfloor (C:=C) dt Sp Tend).

  (* simulated time advances by one time step per iteration *)
  Theorem time_is_n_dt : forall hist pop sf ev, runR hist (init NumR pop) = Some (sf, ev) ->
    s_time sf = INR (s_iter sf) * dt /\
    (forall i t p, In (Stats i t p) ev -> (i < s_iter sf)%nat -> t = INR (S i) * dt).
  Proof. exact (time_n_dt dt Sp Tend C). Qed.

  (* a run whose population never empties stops at the first iteration count n with n*dt >= T *)
  Theorem run_length : forall hist pop sf ev, pop <> [] -> Forall (fun mf => snd mf <> []) hist ->
    runR hist (init NumR pop) = Some (sf, ev) ->
    (1 <= s_iter sf)%nat /\ INR (s_iter sf - 1) * dt < Tend <= INR (s_iter sf) * dt.
  Proof. exact (run_len dt Sp Tend Hdt HT C). Qed.

  (* at most one pair of files per iteration; K is floor(T/S) or floor(T/S)+1 *)
  Theorem K_bound : forall hist pop sf ev, pop <> [] -> Forall (fun mf => snd mf <> []) hist ->
    runR hist (init NumR pop) = Some (sf, ev) ->
    (Zfloor (Tend / Sp) <= s_file sf <= Zfloor (Tend / Sp) + 1)%Z.
  Proof. exact (K_bounds dt Sp Tend Hdt HS HT C). Qed.

  Theorem at_most_one_file_per_iteration : forall n (s : st (T:=R) (C:=C)) mid fin,
    s_time s = INR n * dt ->
    s_file s = (match n with O => 0 | S m => Zfloor (INR m * dt / Sp) + 1 end)%Z ->
    (List.length (saved (snd (iteration NumR Zfloor dt Sp s mid fin))) <= 1)%nat.
  Proof. exact (one_file dt Sp Hdt HS C). Qed.
End Reals.
Print Assumptions time_is_n_dt.
Print Assumptions run_length.
Print Assumptions K_bound.
Print Assumptions at_most_one_file_per_iteration.

(* non-vacuity: a concrete run (dt = 1, S = 2, T = 5, one cell throughout) writes files 1, 2, 3 *)
Example a_concrete_run :
  option_map (fun r => saved (snd r))
    (run (C:=nat) (mkNum Z 0 1 Z.add Z.sub Z.mul Z.div Z.opp (fun x => x) Z.abs Z.ltb Z.leb Z.eqb (fun z => z)) (fun z => z) 1 2 5
         (repeat ([7%nat], [7%nat]) 10) (init (mkNum Z 0 1 Z.add Z.sub Z.mul Z.div Z.opp (fun x => x) Z.abs Z.ltb Z.leb Z.eqb (fun z => z)) [7%nat]))%Z
  = Some [1; 2; 3]%Z.
Proof. vm_compute. reflexivity. Qed.

(* ---- the statistics columns regenerated from include/io/mesh_data.hpp on this run ---- *)
Local Open Scope string_scope.
Definition documented_columns : list (string * string) := [
  ("cell_id", "return format_number(c->get_id(), ""%d"");");
  ("type_id", "int cell_type_id = (c->get_cell_type() != nullptr) ? c->get_cell_type()->global_type_id_ : -1; return format_number(cell_type_id, ""%d"");");
  ("area", "return format_number(c->get_area(), ""%.3e"");");
  ("volume", "return format_number(c->get_volume(), ""%.3e"");");
  ("target_volume", "return format_number(c->get_target_volume(), ""%.3e"");");
  ("pressure", "return format_number(c->get_pressure(), ""%.3e"");") ].
Definition col_eqb (a b : string * string) : bool := String.eqb (fst a) (fst b) && String.eqb (snd a) (snd b).
Fixpoint names_nodup (l : list string) : bool :=
  match l with [] => true | x :: r => negb (existsb (String.eqb x) r) && names_nodup r end.

(* id, type, area, volume, target volume and pressure are printed from the cell's getters of that name; column
   names are unique (so the header designates them) *)
Theorem columns_are_documented :
  columns_translation_ok && forallb (fun d => existsb (col_eqb d) stat_columns) documented_columns && names_nodup (map fst stat_columns) = true.
Proof. vm_compute. reflexivity. Qed.

(* ------------------------------------------------------------------------------------------------------------------
   which population a record describes follows from the ORDER of the phases of run_iteration, read from src/solver.cpp on
   this run (Iteration_gen.v; the equality with the documented order is Properties_C08.phase_order_is_documented) *)
From SC Require Import Population IterationDefs Iteration_gen Iteration IterationProofs.

(* one iteration records, newest first: the statistics (every 50th iteration) for the cells alive after the divisions and
   before the removals; one time step; the mesh files (not on a temporary step) for the cells alive before the divisions *)
Theorem what_one_iteration_records : forall (inp : inputs) (s : istate),
  i_log (run_iteration documented_order inp s) =
    ((if Nat.eqb (Nat.modulo (i_iter s) 50) 0 then [EStats (i_iter s) (ids (mid_pop inp s))] else []) ++
     [EStep (i_iter s); EUse PIntegrate (i_iter s) (p_cells (mid_pop inp s)); EUse PPolarize (i_iter s) (p_cells (mid_pop inp s));
      EUse PContact (i_iter s) (p_cells (mid_pop inp s))] ++
     (if negb (in_tmp inp) then [ESave (i_iter s) (ids (i_pop s))] else []) ++ i_log s)%list.
Proof. exact iteration_log. Qed.
Print Assumptions what_one_iteration_records.

Theorem one_time_step_per_iteration : forall (inp : inputs) (s : istate),
  i_iter (run_iteration documented_order inp s) = S (i_iter s) /\ i_steps (run_iteration documented_order inp s) = S (i_steps s).
Proof. exact iteration_counters. Qed.
Print Assumptions one_time_step_per_iteration.

(* save_mesh as the source has it: the target file number is regenerated from solver::save_mesh (Iteration_gen.v) and the
   model's save_mesh is, syntactically, "catch up with that target" *)
Theorem save_mesh_is_what_the_source_says : forall (T C : Type) (N : Num T) (floorZ : T -> Z) (Sp : T) (s : st (T:=T) (C:=C)),
  save_mesh N floorZ Sp s =
    let nb := file_target_gen N floorZ (s_time s) Sp in
    if (s_file s <? nb)%Z
    then (mkst (s_time s) (s_iter s) nb (s_pop s), save_upto (Z.to_nat (nb - s_file s)) (s_file s) (s_pop s))
    else (s, []).
Proof. intros; reflexivity. Qed.
Print Assumptions save_mesh_is_what_the_source_says.

(* A FACT READ FROM THE SOURCE ON EVERY RUN (Facts_gen.v): the solver removes the output folder before it creates and uses it, so
   the files found in the folder after a run are the files of that run (the premise of every statement above about "the files"). *)
From SC Require Facts_gen.
Theorem output_folder_is_fresh : Facts_gen.facts_translation_ok = true /\ Facts_gen.output_folder_is_wiped_before_use = true.
Proof. split; reflexivity. Qed.
Print Assumptions output_folder_is_fresh.
