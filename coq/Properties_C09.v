(* Properties_C09.v — property C09 (partial): cell division yields two valid daughters or leaves the mother untouched.
   Only statements; every proof is `exact <lemma>`.  Models: Population.v (bookkeeping of cell_divider::run), Divider.v
   (the deterministic geometric stages of cell_divider).  NOT covered by theorems: the success of the randomised
   interface triangulation, the acceptance of the daughters (judged on every daughter by the proved oracle
   valid_surface_b of C01), the volume change caused by the refinement of the daughters: see DESIGN.md. *)
From Coq Require Import Reals Lra NArith Arith Bool List.
From SC Require Import Num Vec3 VecR Geometry Divider Population PopulationSpec PopulationProofs DividerProofs.
From SC Require Import Divider_gen.
Import ListNotations.
Local Open Scope R_scope.

(* ---- bookkeeping (restated from C08): a success replaces the mother by exactly two cells with fresh ids; a failure
   changes nothing *)
Theorem division_replaces_mother_by_two_fresh_ids : forall p m c, PopInv p -> nth_error (p_cells p) m = Some c ->
  ids (divide [m] p) = filter (fun i => negb (N.eqb i (p_id c))) (ids p) ++ [p_counter p; N.succ (p_counter p)] /\
  p_counter (divide [m] p) = N.succ (N.succ (p_counter p)).
Proof. exact divide_one. Qed.
Print Assumptions division_replaces_mother_by_two_fresh_ids.

Theorem failed_division_leaves_population_unchanged : forall p, divide [] p = p.
Proof. exact divide_none. Qed.
Print Assumptions failed_division_leaves_population_unchanged.

(* any number of cells dividing in the same iteration: the invariant (list index = position, ids unique and below the
   counter) is preserved *)
Theorem simultaneous_divisions_keep_invariant : forall p ms, PopInv p -> event_ok p (EvDivide ms) -> PopInv (divide ms p).
Proof. exact (fun p ms H E => step_inv p (EvDivide ms) H E). Qed.
Print Assumptions simultaneous_divisions_keep_invariant.

(* ---- the cut: an intersection point lies on the edge and on the plane *)
Theorem intersection_point_on_edge_and_plane : forall e1 e2 p n x : vR,
  edge_plane NumR e1 e2 p n = Some x ->
  exists t, 0 <= t <= 1 /\ x = e1 +v (e2 -v e1) *v t /\ n ·  (x -v p) = 0.
Proof. exact edge_plane_sound. Qed.
Print Assumptions intersection_point_on_edge_and_plane.

(* an edge whose end points are strictly on opposite sides of the plane is cut *)
Theorem crossing_edge_is_cut : forall e1 e2 p n : vR,
  (n ·  (e1 -v p)) * (n ·  (e2 -v p)) < 0 -> exists x, edge_plane NumR e1 e2 p n = Some x.
Proof. exact edge_plane_complete. Qed.
Print Assumptions crossing_edge_is_cut.

(* dividing a cut face (a triangle a b c with one intersection point on ab and one on bc, in any of the five corner
   orders the code can meet) gives three triangles that cover it: same signed-volume term, same area *)
Fixpoint rotl {A} (k : nat) (l : list A) : list A :=
  match k with O => l | S k' => match l with [] => [] | x :: r => rotl k' (r ++ [x]) end end.
Theorem cut_face_subdivision_preserves_volume_and_area : forall (a b c : vR) (s t : R) (rot : nat),
  0 <= s <= 1 -> 0 <= t <= 1 -> (rot < 5)%nat ->
  let p := a +v (b -v a) *v s in let q := b +v (c -v b) *v t in
  exists tris, divide_face5 NumR (rotl rot [(false, a); (true, p); (false, b); (true, q); (false, c)]) = Some tris /\
    fold_right (fun tr acc => vol_term NumR tr + acc) 0 tris = vol_term NumR (a, b, c) /\
    fold_right (fun tr acc => face_area NumR tr + acc) 0 tris = face_area NumR (a, b, c).
Proof. exact divide_face5_preserves. Qed.
Print Assumptions cut_face_subdivision_preserves_volume_and_area.

(* the volumes of the daughters add up to the volume of the (cut) mother, for ANY interface triangulation: the
   interface triangles enter the two daughters with opposite windings and cancel *)
Theorem daughters_volumes_add_up : forall side1 side2 iface : list (vR * vR * vR),
  let d := daughters side1 side2 iface in
  six_signed_volume NumR (fst d) + six_signed_volume NumR (snd d) = six_signed_volume NumR (side1 ++ side2).
Proof. exact daughters_volume_sum. Qed.
Print Assumptions daughters_volumes_add_up.

(* ---- the rotation to the xy plane: for a unit normal other than -z the matrix is a rotation that takes the normal to
   the z axis, and mapping the interface points back undoes the forward map *)
Theorem rotation_takes_normal_to_z : forall n : vR, vsqnorm NumR n = 1 -> vz n <> -1 ->
  let M := rot_to_z NumR n in
  mdot NumR M n = zaxis NumR /\ (forall v, mdot NumR (mtranspose M) (mdot NumR M v) = v) /\
  (forall v, mdot NumR M (mdot NumR (mtranspose M) v) = v).
Proof. exact rot_to_z_spec. Qed.
Print Assumptions rotation_takes_normal_to_z.

Theorem interface_points_return_to_their_plane : forall n tr p : vR, vsqnorm NumR n = 1 -> vz n <> -1 ->
  n ·  (p +v tr) = 0 ->
  let M := rot_to_z NumR n in to_plane NumR M tr (to_xy NumR M tr p) = p.
Proof. exact xy_round_trip. Qed.
Print Assumptions interface_points_return_to_their_plane.

(* the excluded axis: for n = -z the quaternion is zero and its normalisation divides by zero; over R the matrix is
   not a rotation (the code then produces NaN and the division fails cleanly: observed by the check) *)
Theorem minus_z_axis_is_degenerate : let M := rot_to_z NumR (mkv 0 0 (-1)) in mdot NumR M (mkv 0 0 (-1)) <> zaxis NumR.
Proof. exact minus_z_degenerate. Qed.
Print Assumptions minus_z_axis_is_degenerate.

(* THE TIE TO THE SOURCE: Divider_gen.v is regenerated from src/triangulation_modules/cell_divider.cpp on every run; the
   intersection of an edge with the division plane (with its colinear and out-of-range cases) and the side of a face with
   respect to the plane are the model's, by reflexivity, for every number type. *)
Theorem divider_arithmetic_is_what_the_source_says :
  (divider_translation_ok = true :> bool) /\
  (forall (T : Type) (N : Num T) (e1 e2 p n p1 p2 p3 : vec3 T),
     edge_plane_gen N e1 e2 p n = edge_plane N e1 e2 p n /\
     face_side_gen N p1 p2 p3 p n = face_side N p1 p2 p3 p n) /\
  (* the rotation that brings the division plane to z = 0: quaternion::normalize and to_matrix, mat33::dot; mat33::transpose,
     mat33::identity and the forward / backward map of an interface point are checked textually by the translator *)
  (forall (T : Type) (N : Num T) (qw qx qy qz : T) (M : @mat T) (v n : vec3 T),
     quat_matrix_gen N qw qx qy qz = quat_matrix N qw qx qy qz /\
     mdot_gen N M v = mdot N M v /\
     rot_to_z_gen N n = rot_to_z N n).
Proof. split; [reflexivity|]. split; intros; [split; reflexivity|]. split; [reflexivity|]. split; reflexivity. Qed.
Print Assumptions divider_arithmetic_is_what_the_source_says.

(* WHAT THE REGENERATED CODE DOES: the two statements about find_edge_plane_intersection as regenerated from cell_divider.cpp (at R;
   convertible with the model): a returned point lies on the edge and on the plane, and an edge whose end points are strictly on
   opposite sides of the plane is cut. *)
Theorem regenerated_intersection_point_on_edge_and_plane : forall e1 e2 p n x : vR,
  edge_plane_gen NumR e1 e2 p n = Some x ->
  exists t, 0 <= t <= 1 /\ x = e1 +v (e2 -v e1) *v t /\ n ·  (x -v p) = 0.
Proof. exact edge_plane_sound. Qed.
Print Assumptions regenerated_intersection_point_on_edge_and_plane.

Theorem regenerated_crossing_edge_is_cut : forall e1 e2 p n : vR,
  (n ·  (e1 -v p)) * (n ·  (e2 -v p)) < 0 -> exists x, edge_plane_gen NumR e1 e2 p n = Some x.
Proof. exact edge_plane_complete. Qed.
Print Assumptions regenerated_crossing_edge_is_cut.
