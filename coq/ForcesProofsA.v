(* ForcesProofsA.v — proofs of the C02 statements about pressure, surface tension, angle regularisation and
   translation invariance of the internal forces (Forces.v at R).  Statements: Properties_C02.v. *)
From Coq Require Import NArith ZArith Bool List Lia Reals Lra Psatz Permutation.
From SC Require Import Num Vec3 VecR Mesh MeshProofs Geometry GeometrySpec Forces ForcesSpec.
Import ListNotations.
Local Open Scope R_scope.

(* ------------------------------------------------------------------ vectors, sums *)
Notation v0 := (mkv 0 0 0 : vR).

Lemma FA_vzero : vzero NumR = mkv 0 0 0.
Proof. reflexivity. Qed.

Lemma FA_vadd_0_r (a : vR) : a +v mkv 0 0 0 = a.
Proof. vring. Qed.
Lemma FA_vadd_0_l (a : vR) : mkv 0 0 0 +v a = a.
Proof. vring. Qed.

Lemma FA_vsum_nil : vsum [] = mkv 0 0 0.
Proof. reflexivity. Qed.
Lemma FA_vsum_cons (x : vR) l : vsum (x :: l) = x +v vsum l.
Proof. reflexivity. Qed.

Lemma FA_vsum_map_zero {A} (l : list A) : vsum (map (fun _ => mkv 0 0 0) l) = mkv 0 0 0.
Proof. induction l as [|a l IH]; cbn [map]; [reflexivity|]. rewrite FA_vsum_cons, IH. vring. Qed.

Lemma FA_vsum_map_ext {A} (f g : A -> vR) (Q : A -> Prop) (l : list A) :
  (forall a, Q a -> f a = g a) -> Forall Q l -> vsum (map f l) = vsum (map g l).
Proof.
  intros E H. induction H as [|a l Ha Hl IH]; cbn [map]; [reflexivity|].
  rewrite !FA_vsum_cons, IH, (E a Ha). reflexivity.
Qed.

Lemma FA_vsum_map_scale {A} (f : A -> vR) (s : R) (l : list A) :
  vsum (map (fun a => f a *v s) l) = vsum (map f l) *v s.
Proof.
  induction l as [|a l IH]; cbn [map]; [rewrite !FA_vsum_nil; vring|].
  rewrite !FA_vsum_cons, IH. vring.
Qed.

Lemma FA_vsum_map_map {A B} (h : A -> B) (f : B -> vR) (l : list A) :
  vsum (map f (map h l)) = vsum (map (fun a => f (h a)) l).
Proof. rewrite map_map. reflexivity. Qed.

(* sum over the half-edges = sum over the faces of the three half-edge terms *)
Definition FA_hsum (g : N -> N -> vR) (t : tri) : vR := let '(a, b, c) := t in g a b +v g b c +v g c a.

Lemma FA_hedge_sum (g : N -> N -> vR) (ts : list tri) :
  fold_right (fun e acc => g (fst e) (snd e) +v acc) (mkv 0 0 0) (all_hedges ts) = vsum (map (FA_hsum g) ts).
Proof.
  induction ts as [|t ts IH]; [reflexivity|].
  unfold all_hedges in *. cbn [flat_map map]. rewrite FA_vsum_cons, <- IH.
  destruct t as [[a b] c]. cbn [hedges app fold_right fst snd FA_hsum]. vring.
Qed.

Lemma FA_closed_sum_zero (g : N -> N -> vR) (ts : list tri) : ValidSurface ts ->
  (forall a b, g a b = mkv 0 0 0 -v g b a) -> vsum (map (FA_hsum g) ts) = mkv 0 0 0.
Proof. intros HV Hg. rewrite <- FA_hedge_sum. apply antisym_sum_zero_V; assumption. Qed.

(* ------------------------------------------------------------------ ranges *)
Definition FA_tri_in_range (n : nat) (t : tri) : Prop :=
  let '(a, b, c) := t in (N.to_nat a < n)%nat /\ (N.to_nat b < n)%nat /\ (N.to_nat c < n)%nat.

Lemma FA_ids_in_range_tris (nodes : list vR) (ts : list tri) :
  ids_in_range nodes ts -> Forall (FA_tri_in_range (length nodes)) ts.
Proof.
  unfold ids_in_range, all_nodes. induction ts as [|t ts IH]; cbn [flat_map]; intros H; [constructor|].
  apply Forall_app in H. destruct H as [H1 H2]. constructor; [|apply IH; assumption].
  destruct t as [[a b] c]. cbn [tri_nodes] in H1. rewrite !Forall_cons_iff in H1.
  destruct H1 as (Ha & Hb & Hc & _). cbn [FA_tri_in_range]. auto.
Qed.

Lemma FA_ids_in_range_faces (nodes : list vR) (faces : list ffaceR) :
  ids_in_range nodes (tris_of faces) -> Forall (fun f => FA_tri_in_range (length nodes) (ff_tri f)) faces.
Proof.
  intros H. apply FA_ids_in_range_tris in H. unfold tris_of in H.
  rewrite Forall_map in H. exact H.
Qed.

(* ------------------------------------------------------------------ bookkeeping of add_force *)
Lemma FA_addf_length (F : list vR) i f : length (addf NumR F i f) = length F.
Proof.
  revert i; induction F as [|x r IH]; intros [|k]; cbn [addf length]; try reflexivity.
  rewrite IH; reflexivity.
Qed.

Lemma FA_vsum_addf (F : list vR) i f : (i < length F)%nat -> vsum (addf NumR F i f) = vsum F +v f.
Proof.
  revert i; induction F as [|x r IH]; intros [|k] H; cbn [length] in H; try lia; cbn [addf].
  - rewrite !FA_vsum_cons. vring.
  - rewrite !FA_vsum_cons, IH by lia. vring.
Qed.

Lemma FA_torque_cons p nodes x F : net_torque (p :: nodes) (x :: F) = (p × x) +v net_torque nodes F.
Proof. reflexivity. Qed.

Lemma FA_torque_addf (nodes F : list vR) i f : length nodes = length F -> (i < length F)%nat ->
  net_torque nodes (addf NumR F i f) = net_torque nodes F +v (nth i nodes (vzero NumR) × f).
Proof.
  revert nodes i; induction F as [|x r IH]; intros [|p nodes] [|k] HL H; cbn [length] in HL, H; try lia; cbn [addf nth].
  - rewrite !FA_torque_cons. vring.
  - rewrite !FA_torque_cons, IH by lia. vring.
Qed.

Lemma FA_nth_addf (F : list vR) i j f : (i < length F)%nat ->
  nth j (addf NumR F i f) (mkv 0 0 0) = nth j F (mkv 0 0 0) +v (if Nat.eqb i j then f else mkv 0 0 0).
Proof.
  revert i j; induction F as [|x r IH]; intros [|k] [|j] H; cbn [length] in H; try lia; cbn [addf nth Nat.eqb].
  - reflexivity.
  - vring.
  - vring.
  - apply IH. lia.
Qed.

(* a functional of the force list that is additive in every slot *)
Definition FA_linearF (n : nat) (Phi : list vR -> vR) (w : nat -> vR -> vR) : Prop :=
  forall F i f, length F = n -> (i < n)%nat -> Phi (addf NumR F i f) = Phi F +v w i f.

Lemma FA_lin_force n : FA_linearF n net_force (fun _ f => f).
Proof. intros F i f HL Hi. unfold net_force. apply FA_vsum_addf. lia. Qed.

Lemma FA_lin_torque nodes : FA_linearF (length nodes) (net_torque nodes) (fun i f => nth i nodes (vzero NumR) × f).
Proof. intros F i f HL Hi. apply FA_torque_addf; lia. Qed.

Lemma FA_lin_nth n j : FA_linearF n (fun F => nth j F (mkv 0 0 0)) (fun i f => if Nat.eqb i j then f else mkv 0 0 0).
Proof. intros F i f HL Hi. apply FA_nth_addf. lia. Qed.

Lemma FA_add3 n Phi w : FA_linearF n Phi w -> forall F a b c fa fb fc, length F = n ->
  (N.to_nat a < n)%nat -> (N.to_nat b < n)%nat -> (N.to_nat c < n)%nat ->
  length (add_force NumR (add_force NumR (add_force NumR F a fa) b fb) c fc) = n /\
  Phi (add_force NumR (add_force NumR (add_force NumR F a fa) b fb) c fc) =
    Phi F +v (w (N.to_nat a) fa +v w (N.to_nat b) fb +v w (N.to_nat c) fc).
Proof.
  intros HL F a b c fa fb fc HF Ha Hb Hc. unfold add_force.
  split; [rewrite !FA_addf_length; exact HF|].
  rewrite !HL; try (rewrite ?FA_addf_length; assumption). vring.
Qed.

Lemma FA_fold_sum {A} (step : list vR -> A -> list vR) (Phi : list vR -> vR) (c : A -> vR) (Q : A -> Prop) n :
  (forall F a, Q a -> length F = n -> length (step F a) = n /\ Phi (step F a) = Phi F +v c a) ->
  forall l F, Forall Q l -> length F = n ->
  length (fold_left step l F) = n /\ Phi (fold_left step l F) = Phi F +v vsum (map c l).
Proof.
  intros Hs l. induction l as [|a l IH]; intros F HQ HF; cbn [fold_left map].
  - split; [assumption|]. rewrite FA_vsum_nil. vring.
  - apply Forall_cons_iff in HQ. destruct HQ as [Ha Hl].
    destruct (Hs F a Ha HF) as [H1 H2].
    destruct (IH (step F a) Hl H1) as [H3 H4]. split; [assumption|].
    rewrite H4, H2, FA_vsum_cons. vring.
Qed.

Lemma FA_zeroF_length n : length (zeroF n) = n.
Proof. unfold zeroF. apply repeat_length. Qed.

Lemma FA_force_zeroF n : net_force (zeroF n) = mkv 0 0 0.
Proof. unfold net_force, zeroF. induction n as [|n IH]; cbn [repeat]; [reflexivity|]. rewrite FA_vsum_cons, IH. vring. Qed.

Lemma FA_torque_zeroF nodes : net_torque nodes (zeroF (length nodes)) = mkv 0 0 0.
Proof.
  unfold zeroF. induction nodes as [|p nodes IH]; cbn [length repeat]; [reflexivity|].
  rewrite FA_torque_cons, IH. vring.
Qed.

Lemma FA_nth_zeroF n j : nth j (zeroF n) (mkv 0 0 0) = mkv 0 0 0.
Proof.
  unfold zeroF. revert j; induction n as [|n IH]; intros [|j]; cbn [repeat nth]; try reflexivity. apply IH.
Qed.

Ltac vfield := intros; vunfold; try apply vec3_eq; cbn [vx vy vz]; field.

Lemma FA_Forall_and {A} (P Q : A -> Prop) l : Forall P l -> Forall Q l -> Forall (fun x => P x /\ Q x) l.
Proof. intros HP HQ. induction HP as [|a l Ha Hl IH]; constructor; inversion HQ; subst; auto. Qed.

(* ------------------------------------------------------------------ surface tension: net force *)
Definition FA_tension_contrib (w : nat -> vR -> vR) (nodes : list vR) (tensions : list R) (mef : R) (f : ffaceR) : vR :=
  if Reqb (ff_area f) 0 then mkv 0 0 0 else
  let '(a, b, c) := ff_tri f in
  let p1 := pos_of NumR nodes a in let p2 := pos_of NumR nodes b in let p3 := pos_of NumR nodes c in
  let mh := - chalf NumR in
  let ff := - nth (ff_type f) tensions 0 + mef in
  w (N.to_nat a) ((ff_normal f × (p2 -v p3)) *v mh *v ff) +v
  w (N.to_nat b) ((ff_normal f × (p3 -v p1)) *v mh *v ff) +v
  w (N.to_nat c) ((ff_normal f × (p1 -v p2)) *v mh *v ff).

Lemma FA_tension_step n Phi w nodes tensions mef : FA_linearF n Phi w -> forall F f,
  FA_tri_in_range n (ff_tri f) -> length F = n ->
  length (tension_face NumR nodes tensions mef F f) = n /\
  Phi (tension_face NumR nodes tensions mef F f) = Phi F +v FA_tension_contrib w nodes tensions mef f.
Proof.
  intros HL F f Hr HF. unfold tension_face, FA_tension_contrib. cbn [neqb nzero NumR].
  destruct (Reqb (ff_area f) 0).
  - split; [assumption | vring].
  - destruct (ff_tri f) as [[a b] c]. cbn [FA_tri_in_range] in Hr. destruct Hr as (Ha & Hb & Hc).
    cbv zeta. apply (FA_add3 n Phi w HL); assumption.
Qed.

Lemma tension_force_zero : forall (nodes : list vR) (faces : list ffaceR) (tensions : list R) (ka iso V A : R),
  ids_in_range nodes (tris_of faces) ->
  net_force (apply_tension NumR LibmRF nodes tensions ka iso V A faces (zeroF (length nodes))) = mkv 0 0 0.
Proof.
  intros nodes faces tensions ka iso V A Hr. unfold apply_tension. cbv zeta.
  set (mef := elasticity_factor _ _ _ _).
  destruct (FA_fold_sum (tension_face NumR nodes tensions mef) net_force
              (FA_tension_contrib (fun _ f => f) nodes tensions mef) _ (length nodes)
              (fun F f => FA_tension_step _ _ _ nodes tensions mef (FA_lin_force _) F f)
              faces (zeroF (length nodes)) (FA_ids_in_range_faces _ _ Hr) (FA_zeroF_length _)) as [_ H].
  rewrite H, FA_force_zeroF.
  rewrite (FA_vsum_map_ext _ (fun _ => mkv 0 0 0) (fun _ => True)).
  - rewrite FA_vsum_map_zero. vring.
  - intros f _. unfold FA_tension_contrib. destruct (Reqb _ _); [reflexivity|].
    destruct (ff_tri f) as [[a b] c]. vring.
  - apply Forall_forall; intros; exact I.
Qed.

(* ------------------------------------------------------------------ pressure *)
Lemma FA_normal_area (p : triR) : face_normal NumR p *v face_area NumR p = face_normal_raw NumR p *v (1 / 2).
Proof.
  unfold face_normal, face_area, half. cbn [neqb nzero none_ nofZ nmul ndiv NumR]. cbv zeta.
  set (r := face_normal_raw NumR p).
  destruct (Reqb_spec (vnorm NumR r) 0) as [E|E].
  - assert (Hr : r = mkv 0 0 0).
    { apply sqn_zero. unfold vnorm in E. cbn [nsqrt NumR] in E.
      apply sqrt_eq_0 in E; [exact E | apply sqn_nonneg]. }
    rewrite Hr. vring.
  - set (l := vnorm NumR r) in *.
    apply vec3_eq; unfold vdivs, vscale; cbn [vx vy vz nmul ndiv NumR]; field; exact E.
Qed.

Lemma FA_fresh_fp nodes (f : ffaceR) P : f = refresh NumR nodes (ff_tri f) (ff_type f) ->
  vdivs NumR ((ff_normal f *v P) *v ff_area f) 3 = face_normal_raw NumR (tri_pos NumR nodes (ff_tri f)) *v (P / 6).
Proof.
  intros Hf.
  pose proof (f_equal ff_normal Hf) as Hn. pose proof (f_equal ff_area Hf) as Ha.
  unfold refresh in Hn, Ha. cbn [ff_normal ff_area] in Hn, Ha. rewrite Hn, Ha.
  set (p := tri_pos NumR nodes (ff_tri f)).
  transitivity ((face_normal NumR p *v face_area NumR p) *v (P / 3)).
  { apply vec3_eq; unfold vdivs, vscale; cbn [vx vy vz nmul ndiv NumR]; field. }
  rewrite FA_normal_area. apply vec3_eq; unfold vscale; cbn [vx vy vz nmul NumR]; field.
Qed.

Definition FA_pressure_contrib (w : nat -> vR -> vR) (P : R) (f : ffaceR) : vR :=
  let '(a, b, c) := ff_tri f in
  let fp := vdivs NumR ((ff_normal f *v P) *v ff_area f) 3 in
  w (N.to_nat a) fp +v w (N.to_nat b) fp +v w (N.to_nat c) fp.

Lemma FA_pressure_step n Phi w P : FA_linearF n Phi w -> forall F f,
  FA_tri_in_range n (ff_tri f) -> length F = n ->
  length (pressure_face NumR P F f) = n /\ Phi (pressure_face NumR P F f) = Phi F +v FA_pressure_contrib w P f.
Proof.
  intros HL F f Hr HF. unfold pressure_face, FA_pressure_contrib.
  destruct (ff_tri f) as [[a b] c]. cbn [FA_tri_in_range] in Hr. destruct Hr as (Ha & Hb & Hc).
  cbv zeta. apply (FA_add3 n Phi w HL); assumption.
Qed.

Definition FA_pos (nodes : list vR) (a : N) : vR := pos_of NumR nodes a.

Lemma FA_raw_hsum nodes t :
  face_normal_raw NumR (tri_pos NumR nodes t) = FA_hsum (fun a b => FA_pos nodes a × FA_pos nodes b) t.
Proof. destruct t as [[a b] c]. cbn [tri_pos face_normal_raw FA_hsum]. unfold FA_pos. vring. Qed.

Lemma FA_fresh_Forall nodes faces : fresh nodes faces ->
  Forall (fun f => f = refresh NumR nodes (ff_tri f) (ff_type f)) faces.
Proof. intros H; exact H. Qed.

Lemma pressure_force_zero : forall (nodes : list vR) (faces : list ffaceR) (P : R),
  ValidSurface (tris_of faces) -> ids_in_range nodes (tris_of faces) -> fresh nodes faces ->
  net_force (apply_pressure NumR P faces (zeroF (length nodes))) = mkv 0 0 0.
Proof.
  intros nodes faces P HV Hr Hfr. unfold apply_pressure.
  destruct (FA_fold_sum (pressure_face NumR P) net_force (FA_pressure_contrib (fun _ f => f) P) _ (length nodes)
              (fun F f => FA_pressure_step _ _ _ P (FA_lin_force _) F f)
              faces (zeroF (length nodes)) (FA_ids_in_range_faces _ _ Hr) (FA_zeroF_length _)) as [_ H].
  rewrite H, FA_force_zeroF. clear H.
  set (g := fun a b : N => FA_pos nodes a × FA_pos nodes b).
  assert (E : forall f : ffaceR, f = refresh NumR nodes (ff_tri f) (ff_type f) ->
              FA_pressure_contrib (fun _ f => f) P f = FA_hsum g (ff_tri f) *v (P / 2)).
  { intros f Hf. unfold FA_pressure_contrib.
    pose proof (FA_fresh_fp nodes f P Hf) as Hfp.
    destruct (ff_tri f) as [[a b] c]. cbv zeta.
    rewrite Hfp, FA_raw_hsum. fold g. vfield. }
  rewrite (FA_vsum_map_ext _ _ _ faces E (FA_fresh_Forall _ _ Hfr)).
  rewrite FA_vsum_map_scale.
  rewrite <- (FA_vsum_map_map (fun f : ffaceR => ff_tri f) (FA_hsum g)).
  fold (tris_of faces). rewrite (FA_closed_sum_zero g _ HV).
  - vring.
  - intros a b. unfold g. vring.
Qed.

(* ------------------------------------------------------------------ angle regularisation *)
Lemma angle_gradient_sum : forall (eps dmin : R) (i j k : vR),
  let '(gi, gj, gk) := angle_gradient NumR LibmRF eps dmin i j k in gi +v gj +v gk = mkv 0 0 0.
Proof.
  intros eps dmin i j k. unfold angle_gradient. cbv zeta.
  repeat match goal with |- context [if ?b then zero3 NumR else _] => destruct b; [unfold zero3; vring|] end.
  apply vec3_eq; unfold cst; vunfold; cbn [vx vy vz nofZ nsqrt NumR]; unfold Rdiv; ring.
Qed.

Lemma FA_comb_zero (g1i g1j g1k g2i g2j g2k g3i g3j g3k : vR) (s1 s2 s3 kreg : R) :
  g1i +v g1j +v g1k = mkv 0 0 0 -> g2i +v g2j +v g2k = mkv 0 0 0 -> g3i +v g3j +v g3k = mkv 0 0 0 ->
  (g1i *v s1 +v g2j *v s2 +v g3j *v s3) *v kreg +v (g1j *v s1 +v g2i *v s2 +v g3k *v s3) *v kreg +v
  (g1k *v s1 +v g2k *v s2 +v g3i *v s3) *v kreg = mkv 0 0 0.
Proof.
  intros H1 H2 H3.
  transitivity (((g1i +v g1j +v g1k) *v s1 +v (g2i +v g2j +v g2k) *v s2 +v (g3i +v g3j +v g3k) *v s3) *v kreg).
  - vring.
  - rewrite H1, H2, H3. vring.
Qed.

Lemma FA_anglereg_step pi eps dmin nodes kreg n F (f : ffaceR) : FA_tri_in_range n (ff_tri f) -> length F = n ->
  length (anglereg_face NumR LibmRF pi eps dmin nodes kreg F f) = n /\
  net_force (anglereg_face NumR LibmRF pi eps dmin nodes kreg F f) = net_force F +v mkv 0 0 0.
Proof.
  intros Hr HF. unfold anglereg_face.
  assert (Hsame : length F = n /\ net_force F = net_force F +v mkv 0 0 0) by (split; [assumption | vring]).
  destruct (neqb NumR kreg (nzero NumR)); [exact Hsame|].
  destruct (ff_tri f) as [[a b] c]. cbn [FA_tri_in_range] in Hr. destruct Hr as (Ha & Hb & Hc).
  set (p1 := pos_of NumR nodes a). set (p2 := pos_of NumR nodes b). set (p3 := pos_of NumR nodes c).
  cbv zeta.
  repeat match goal with |- context [if ?b then F else _] => destruct b; [exact Hsame|] end.
  pose proof (angle_gradient_sum eps dmin p1 p2 p3) as H1.
  pose proof (angle_gradient_sum eps dmin p2 p1 p3) as H2.
  pose proof (angle_gradient_sum eps dmin p3 p1 p2) as H3.
  destruct (angle_gradient NumR LibmRF eps dmin p1 p2 p3) as [[g1i g1j] g1k].
  destruct (angle_gradient NumR LibmRF eps dmin p2 p1 p3) as [[g2i g2j] g2k].
  destruct (angle_gradient NumR LibmRF eps dmin p3 p1 p2) as [[g3i g3j] g3k].
  match goal with |- context [if ?b then _ else F] => destruct b; [|exact Hsame] end.
  match goal with |- context [add_force NumR (add_force NumR (add_force NumR F a ?fa) b ?fb) c ?fc] =>
    destruct (FA_add3 n net_force _ (FA_lin_force n) F a b c fa fb fc HF Ha Hb Hc) as [L1 L2] end.
  split; [exact L1|]. rewrite L2. f_equal.
  apply FA_comb_zero; assumption.
Qed.

Lemma anglereg_force_zero : forall (pi eps dmin kreg : R) (nodes : list vR) (faces : list ffaceR),
  ids_in_range nodes (tris_of faces) ->
  net_force (apply_anglereg NumR LibmRF pi eps dmin nodes kreg faces (zeroF (length nodes))) = mkv 0 0 0.
Proof.
  intros pi eps dmin kreg nodes faces Hr. unfold apply_anglereg.
  destruct (FA_fold_sum (anglereg_face NumR LibmRF pi eps dmin nodes kreg) net_force (fun _ => mkv 0 0 0) _ (length nodes)
              (fun F f => FA_anglereg_step pi eps dmin nodes kreg _ F f)
              faces (zeroF (length nodes)) (FA_ids_in_range_faces _ _ Hr) (FA_zeroF_length _)) as [_ H].
  rewrite H, FA_force_zeroF, FA_vsum_map_zero. vring.
Qed.

(* ------------------------------------------------------------------ surface tension: net torque *)
Lemma FA_face_normal_perp (p1 p2 p3 : vR) :
  face_normal NumR (p1, p2, p3) ·  (p2 -v p1) = 0 /\ face_normal NumR (p1, p2, p3) ·  (p3 -v p1) = 0.
Proof.
  unfold face_normal. cbv zeta.
  generalize (vnorm NumR (face_normal_raw NumR (p1, p2, p3))). intros l.
  destruct (neqb NumR l (nzero NumR)).
  - split; vring.
  - cbn [face_normal_raw]. split; vunfold; unfold Rdiv; ring.
Qed.

Lemma FA_tension_torque_face (n x1 x2 x3 : vR) (mh ff : R) : n ·  (x2 -v x1) = 0 -> n ·  (x3 -v x1) = 0 ->
  x1 × ((n × (x2 -v x3)) *v mh *v ff) +v x2 × ((n × (x3 -v x1)) *v mh *v ff) +v
  x3 × ((n × (x1 -v x2)) *v mh *v ff) = mkv 0 0 0.
Proof.
  intros H1 H2.
  transitivity (((x3 -v x1) *v (n ·  (x2 -v x1)) +v (x1 -v x2) *v (n ·  (x3 -v x1))) *v (- (mh * ff))).
  - vring.
  - rewrite H1, H2. vring.
Qed.

Lemma tension_torque_zero : forall (nodes : list vR) (faces : list ffaceR) (tensions : list R) (ka iso V A : R),
  ids_in_range nodes (tris_of faces) -> fresh nodes faces ->
  net_torque nodes (apply_tension NumR LibmRF nodes tensions ka iso V A faces (zeroF (length nodes))) = mkv 0 0 0.
Proof.
  intros nodes faces tensions ka iso V A Hr Hfr. unfold apply_tension. cbv zeta.
  set (mef := elasticity_factor _ _ _ _).
  set (w := fun (i : nat) (f : vR) => nth i nodes (vzero NumR) × f).
  destruct (FA_fold_sum (tension_face NumR nodes tensions mef) (net_torque nodes)
              (FA_tension_contrib w nodes tensions mef) _ (length nodes)
              (fun F f => FA_tension_step _ _ _ nodes tensions mef (FA_lin_torque nodes) F f)
              faces (zeroF (length nodes)) (FA_ids_in_range_faces _ _ Hr) (FA_zeroF_length _)) as [_ H].
  rewrite H, FA_torque_zeroF. clear H.
  assert (E : forall f : ffaceR, f = refresh NumR nodes (ff_tri f) (ff_type f) ->
              FA_tension_contrib w nodes tensions mef f = (fun _ => mkv 0 0 0) f).
  { intros f Hf. unfold FA_tension_contrib. destruct (Reqb _ _); [reflexivity|].
    pose proof (f_equal ff_normal Hf) as Hn. unfold refresh in Hn. cbn [ff_normal] in Hn.
    destruct (ff_tri f) as [[a b] c]. cbv zeta. cbn [tri_pos] in Hn.
    destruct (FA_face_normal_perp (pos_of NumR nodes a) (pos_of NumR nodes b) (pos_of NumR nodes c)) as [K1 K2].
    rewrite <- Hn in K1, K2. unfold w, pos_of in *.
    apply FA_tension_torque_face; assumption. }
  rewrite (FA_vsum_map_ext _ _ _ faces E (FA_fresh_Forall _ _ Hfr)).
  rewrite FA_vsum_map_zero. vring.
Qed.

(* ------------------------------------------------------------------ pressure: net torque *)
Lemma pressure_torque_zero : forall (nodes : list vR) (faces : list ffaceR) (P : R),
  ValidSurface (tris_of faces) -> ids_in_range nodes (tris_of faces) -> fresh nodes faces ->
  net_torque nodes (apply_pressure NumR P faces (zeroF (length nodes))) = mkv 0 0 0.
Proof.
  intros nodes faces P HV Hr Hfr. unfold apply_pressure.
  set (w := fun (i : nat) (f : vR) => nth i nodes (vzero NumR) × f).
  destruct (FA_fold_sum (pressure_face NumR P) (net_torque nodes) (FA_pressure_contrib w P) _ (length nodes)
              (fun F f => FA_pressure_step _ _ _ P (FA_lin_torque nodes) F f)
              faces (zeroF (length nodes)) (FA_ids_in_range_faces _ _ Hr) (FA_zeroF_length _)) as [_ H].
  rewrite H, FA_torque_zeroF. clear H.
  set (g := fun a b : N => (FA_pos nodes a +v FA_pos nodes b) × (FA_pos nodes a × FA_pos nodes b)).
  assert (E : forall f : ffaceR, f = refresh NumR nodes (ff_tri f) (ff_type f) ->
              FA_pressure_contrib w P f = FA_hsum g (ff_tri f) *v (P / 6)).
  { intros f Hf. unfold FA_pressure_contrib.
    pose proof (FA_fresh_fp nodes f P Hf) as Hfp.
    destruct (ff_tri f) as [[a b] c]. cbv zeta.
    rewrite Hfp, FA_raw_hsum. unfold w, g, FA_hsum, FA_pos, pos_of.
    generalize (nth (N.to_nat a) nodes (vzero NumR)) (nth (N.to_nat b) nodes (vzero NumR))
               (nth (N.to_nat c) nodes (vzero NumR)) (P / 6).
    intros xa xb xc s. vring. }
  rewrite (FA_vsum_map_ext _ _ _ faces E (FA_fresh_Forall _ _ Hfr)).
  rewrite FA_vsum_map_scale.
  rewrite <- (FA_vsum_map_map (fun f : ffaceR => ff_tri f) (FA_hsum g)).
  fold (tris_of faces). rewrite (FA_closed_sum_zero g _ HV).
  - vring.
  - intros a b. unfold g. vring.
Qed.

(* ------------------------------------------------------------------ pressure = P grad V *)
Lemma FA_rsum_cons x l : rsum (x :: l) = x + rsum l.
Proof. reflexivity. Qed.

Lemma FA_ssv_fold l a :
  fold_left (fun v p => nadd NumR v (vol_term NumR p)) l a = a + rsum (map (vol_term NumR) l).
Proof.
  revert a; induction l as [|p l IH]; intros a; cbn [fold_left map].
  - unfold rsum; cbn [fold_right]; ring.
  - rewrite IH, FA_rsum_cons. cbn [nadd NumR]. ring.
Qed.

Lemma FA_ssv_rsum l : six_signed_volume NumR l = rsum (map (vol_term NumR) l).
Proof. unfold six_signed_volume. rewrite FA_ssv_fold. cbn [nzero NumR]. ring. Qed.

Lemma FA_pos_displace nodes i d a : (i < length nodes)%nat ->
  pos_of NumR (displace nodes i d) a =
  pos_of NumR nodes a +v (if Nat.eqb (N.to_nat a) i then d else mkv 0 0 0).
Proof.
  unfold pos_of. generalize (N.to_nat a) as k. revert i.
  induction nodes as [|x r IH]; intros [|i] [|k] Hi; cbn [length] in Hi; try lia; cbn [displace nth Nat.eqb].
  - reflexivity.
  - vring.
  - vring.
  - apply IH. lia.
Qed.

Definition FA_gradh (nodes : list vR) (i : nat) (u v : N) : vR :=
  (if Nat.eqb (N.to_nat u) i then pos_of NumR nodes v else mkv 0 0 0) -v
  (if Nat.eqb (N.to_nat v) i then pos_of NumR nodes u else mkv 0 0 0).

Definition FA_wnth (i : nat) (k : nat) (f : vR) : vR := if Nat.eqb k i then f else mkv 0 0 0.

Lemma FA_gradV_face nodes i d P (f : ffaceR) : (i < length nodes)%nat -> tri_distinct (ff_tri f) ->
  f = refresh NumR nodes (ff_tri f) (ff_type f) ->
  FA_pressure_contrib (FA_wnth i) P f ·  d =
  P / 6 * (vol_term NumR (tri_pos NumR (displace nodes i d) (ff_tri f)) - vol_term NumR (tri_pos NumR nodes (ff_tri f)))
  + P / 6 * (d ·  (nth i nodes (vzero NumR) × FA_hsum (FA_gradh nodes i) (ff_tri f))).
Proof.
  intros Hi Hd Hf. unfold FA_pressure_contrib. pose proof (FA_fresh_fp nodes f P Hf) as Hfp.
  destruct (ff_tri f) as [[a b] c]. cbv zeta. rewrite Hfp. clear Hfp Hf.
  cbn [tri_pos face_normal_raw FA_hsum]. rewrite !(FA_pos_displace nodes i d _ Hi).
  unfold FA_wnth, FA_gradh, vol_term. cbn [tri_distinct] in Hd. destruct Hd as (Hab & Hbc & Hac).
  destruct (Nat.eqb_spec (N.to_nat a) i) as [Ea|Ea];
  destruct (Nat.eqb_spec (N.to_nat b) i) as [Eb|Eb];
  destruct (Nat.eqb_spec (N.to_nat c) i) as [Ec|Ec];
  try (exfalso; apply Hab; apply N2Nat.inj; congruence);
  try (exfalso; apply Hbc; apply N2Nat.inj; congruence);
  try (exfalso; apply Hac; apply N2Nat.inj; congruence);
  try subst i; unfold pos_of; cbv beta iota zeta; vunfold; cbn [vx vy vz]; unfold Rdiv; ring.
Qed.

Lemma FA_vdot_add_l (a b d : vR) : (a +v b) ·  d = a ·  d + b ·  d.
Proof. vring. Qed.

Lemma FA_gradV_sum nodes i d P (faces : list ffaceR) : (i < length nodes)%nat ->
  Forall (fun f : ffaceR => tri_distinct (ff_tri f) /\ f = refresh NumR nodes (ff_tri f) (ff_type f)) faces ->
  vsum (map (FA_pressure_contrib (FA_wnth i) P) faces) ·  d =
  P / 6 * (rsum (map (vol_term NumR) (map (tri_pos NumR (displace nodes i d)) (tris_of faces)))
           - rsum (map (vol_term NumR) (map (tri_pos NumR nodes) (tris_of faces))))
  + P / 6 * (d ·  (nth i nodes (vzero NumR) × vsum (map (FA_hsum (FA_gradh nodes i)) (tris_of faces)))).
Proof.
  intros Hi H. induction H as [|f faces [Hd Hf] Hl IH].
  - cbn [tris_of map]. rewrite FA_vsum_nil. unfold rsum; cbn [fold_right]. vring.
  - cbn [map]. rewrite FA_vsum_cons, FA_vdot_add_l, IH, (FA_gradV_face nodes i d P f Hi Hd Hf).
    unfold tris_of. cbn [map]. rewrite !FA_rsum_cons, FA_vsum_cons.
    generalize (FA_hsum (FA_gradh nodes i) (ff_tri f)).
    generalize (vsum (map (FA_hsum (FA_gradh nodes i)) (map (fun f0 : ffaceR => ff_tri f0) faces))).
    intros S hf. vring.
Qed.

Lemma pressure_is_P_gradV : forall (nodes : list vR) (faces : list ffaceR) (P : R) (i : nat) (d : vR),
  ValidSurface (tris_of faces) -> ids_in_range nodes (tris_of faces) -> fresh nodes faces -> (i < length nodes)%nat ->
  nth i (apply_pressure NumR P faces (zeroF (length nodes))) (mkv 0 0 0) ·  d =
  P * ((six_signed_volume NumR (map (tri_pos NumR (displace nodes i d)) (tris_of faces))
        - six_signed_volume NumR (map (tri_pos NumR nodes) (tris_of faces))) / 6).
Proof.
  intros nodes faces P i d HV Hr Hfr Hi. unfold apply_pressure.
  destruct (FA_fold_sum (pressure_face NumR P) (fun F => nth i F (mkv 0 0 0)) (FA_pressure_contrib (FA_wnth i) P) _ (length nodes)
              (fun F f => FA_pressure_step _ _ _ P (FA_lin_nth (length nodes) i) F f)
              faces (zeroF (length nodes)) (FA_ids_in_range_faces _ _ Hr) (FA_zeroF_length _)) as [_ H].
  cbv beta in H. rewrite H, FA_nth_zeroF, FA_vadd_0_l. clear H.
  assert (HQ : Forall (fun f : ffaceR => tri_distinct (ff_tri f) /\ f = refresh NumR nodes (ff_tri f) (ff_type f)) faces).
  { apply FA_Forall_and; [|exact Hfr].
    pose proof (vs_distinct _ HV) as Hd. unfold tris_of in Hd. rewrite Forall_map in Hd. exact Hd. }
  rewrite (FA_gradV_sum nodes i d P faces Hi HQ).
  rewrite (FA_closed_sum_zero (FA_gradh nodes i) _ HV).
  - rewrite !FA_ssv_rsum. vfield.
  - intros a b. unfold FA_gradh.
    destruct (Nat.eqb (N.to_nat a) i); destruct (Nat.eqb (N.to_nat b) i); vring.
Qed.

(* ------------------------------------------------------------------ translation invariance *)
Lemma FA_vsub_shift (a b t : vR) : (a +v t) -v (b +v t) = a -v b.
Proof. vring. Qed.

Lemma FA_pos_shift nodes t a : (N.to_nat a < length nodes)%nat ->
  pos_of NumR (map (fun p => p +v t) nodes) a = pos_of NumR nodes a +v t.
Proof.
  intros H. unfold pos_of.
  rewrite (nth_indep _ (vzero NumR) (vzero NumR +v t)) by (rewrite map_length; exact H).
  apply (map_nth (fun p => p +v t)).
Qed.

Lemma FA_raw_shift nodes t tr : FA_tri_in_range (length nodes) tr ->
  face_normal_raw NumR (tri_pos NumR (map (fun p => p +v t) nodes) tr) = face_normal_raw NumR (tri_pos NumR nodes tr).
Proof.
  destruct tr as [[a b] c]. intros (Ha & Hb & Hc). cbn [tri_pos face_normal_raw].
  rewrite !FA_pos_shift by assumption. rewrite !FA_vsub_shift. reflexivity.
Qed.

Lemma FA_refresh_shift nodes t tr ty : FA_tri_in_range (length nodes) tr ->
  refresh NumR (map (fun p => p +v t) nodes) tr ty = refresh NumR nodes tr ty.
Proof.
  intros H. unfold refresh. cbv zeta. unfold face_normal, face_area.
  rewrite (FA_raw_shift nodes t tr H). reflexivity.
Qed.

Lemma FA_fold_left_ext {A B} (f g : A -> B -> A) (Q : B -> Prop) l :
  (forall a b, Q b -> f a b = g a b) -> Forall Q l -> forall a, fold_left f l a = fold_left g l a.
Proof.
  intros E H. induction H as [|b l Hb Hl IH]; intros a; cbn [fold_left]; [reflexivity|].
  rewrite (E a b Hb). apply IH.
Qed.

Lemma FA_tension_face_shift nodes t tensions mef F (f : ffaceR) : FA_tri_in_range (length nodes) (ff_tri f) ->
  tension_face NumR (map (fun p => p +v t) nodes) tensions mef F f = tension_face NumR nodes tensions mef F f.
Proof.
  intros H. unfold tension_face. destruct (neqb NumR (ff_area f) (nzero NumR)); [reflexivity|].
  destruct (ff_tri f) as [[a b] c]. cbn [FA_tri_in_range] in H. destruct H as (Ha & Hb & Hc). cbv zeta.
  rewrite !FA_pos_shift by assumption. rewrite !FA_vsub_shift. reflexivity.
Qed.

Lemma FA_angle_gradient_shift eps dmin (i j k t : vR) :
  angle_gradient NumR LibmRF eps dmin (i +v t) (j +v t) (k +v t) = angle_gradient NumR LibmRF eps dmin i j k.
Proof.
  unfold angle_gradient. cbv zeta. rewrite !FA_vsub_shift.
  repeat match goal with |- context [if ?b then zero3 NumR else _] => destruct b; [reflexivity|] end.
  f_equal; [f_equal|]; apply vec3_eq; unfold cst; vunfold; cbn [vx vy vz nofZ nsqrt NumR]; unfold Rdiv; ring.
Qed.

Lemma FA_anglereg_face_shift pi eps dmin nodes t kreg F (f : ffaceR) : FA_tri_in_range (length nodes) (ff_tri f) ->
  anglereg_face NumR LibmRF pi eps dmin (map (fun p => p +v t) nodes) kreg F f =
  anglereg_face NumR LibmRF pi eps dmin nodes kreg F f.
Proof.
  intros H. unfold anglereg_face. destruct (neqb NumR kreg (nzero NumR)); [reflexivity|].
  destruct (ff_tri f) as [[a b] c]. cbn [FA_tri_in_range] in H. destruct H as (Ha & Hb & Hc). cbv zeta.
  rewrite !FA_pos_shift by assumption. rewrite !FA_vsub_shift, !FA_angle_gradient_shift. reflexivity.
Qed.

Lemma FA_opposite_in_range n tr a b : FA_tri_in_range n tr -> (N.to_nat (opposite tr a b) < n)%nat.
Proof.
  destruct tr as [[x y] z]. intros (Hx & Hy & Hz). unfold opposite.
  destruct (negb (x =? a)%N && negb (x =? b)%N); [exact Hx|].
  destruct (negb (y =? a)%N && negb (y =? b)%N); [exact Hy | exact Hz].
Qed.

Lemma FA_nth_face_in_range n (faces : list ffaceR) k : Forall (fun f : ffaceR => FA_tri_in_range n (ff_tri f)) faces ->
  (0 < n)%nat -> FA_tri_in_range n (ff_tri (nth k faces (dface NumR))).
Proof.
  intros H Hn. destruct (Nat.lt_ge_cases k (length faces)) as [Hk|Hk].
  - rewrite Forall_forall in H. apply H, nth_In. exact Hk.
  - rewrite nth_overflow by exact Hk. unfold dface. cbn [ff_tri FA_tri_in_range]. rewrite N2Nat.inj_0. auto.
Qed.

Lemma FA_bending_hinge_shift pi nodes t bends (faces : list ffaceR) F h :
  Forall (fun f : ffaceR => FA_tri_in_range (length nodes) (ff_tri f)) faces ->
  (N.to_nat (h_n1 h) < length nodes)%nat -> (N.to_nat (h_n2 h) < length nodes)%nat ->
  bending_hinge NumR LibmRF pi (map (fun p => p +v t) nodes) bends faces F h =
  bending_hinge NumR LibmRF pi nodes bends faces F h.
Proof.
  intros HF H1 H2.
  assert (Hn : (0 < length nodes)%nat) by lia.
  pose proof (FA_opposite_in_range _ _ (h_n1 h) (h_n2 h) (FA_nth_face_in_range _ faces (h_f1 h) HF Hn)) as H3.
  pose proof (FA_opposite_in_range _ _ (h_n1 h) (h_n2 h) (FA_nth_face_in_range _ faces (h_f2 h) HF Hn)) as H4.
  unfold bending_hinge. cbv zeta.
  rewrite (FA_pos_shift nodes t _ H1), (FA_pos_shift nodes t _ H2), (FA_pos_shift nodes t _ H3), (FA_pos_shift nodes t _ H4).
  rewrite !FA_vsub_shift. reflexivity.
Qed.

Lemma FA_map_ext_Forall {A B} (f g : A -> B) (Q : A -> Prop) l :
  (forall a, Q a -> f a = g a) -> Forall Q l -> map f l = map g l.
Proof. intros E H. induction H as [|a l Ha Hl IH]; cbn [map]; [reflexivity|]. rewrite (E a Ha), IH. reflexivity. Qed.

Lemma forces_translation_invariant :
  forall (pi eps dmin P ka iso V A kreg : R) (tensions bends : list R) (nodes : list vR) (tl : list (tri * nat)) (hinges : list hinge) (t : vR),
  ids_in_range nodes (map fst tl) ->
  Forall (fun h => (N.to_nat (h_n1 h) < length nodes)%nat /\ (N.to_nat (h_n2 h) < length nodes)%nat) hinges ->
  let nodes' := map (fun p => p +v t) nodes in
  let faces := map (fun x => refresh NumR nodes (fst x) (snd x)) tl in
  let faces' := map (fun x => refresh NumR nodes' (fst x) (snd x)) tl in
  let F0 := zeroF (length nodes) in
  apply_anglereg NumR LibmRF pi eps dmin nodes' kreg faces'
    (apply_bending NumR LibmRF pi nodes' bends faces' hinges
      (apply_tension NumR LibmRF nodes' tensions ka iso V A faces' (apply_pressure NumR P faces' F0))) =
  apply_anglereg NumR LibmRF pi eps dmin nodes kreg faces
    (apply_bending NumR LibmRF pi nodes bends faces hinges
      (apply_tension NumR LibmRF nodes tensions ka iso V A faces (apply_pressure NumR P faces F0))).
Proof.
  intros pi eps dmin P ka iso V A kreg tensions bends nodes tl hinges t Hr Hh nodes' faces faces' F0.
  assert (Htl : Forall (fun x : tri * nat => FA_tri_in_range (length nodes) (fst x)) tl).
  { apply FA_ids_in_range_tris in Hr. rewrite Forall_map in Hr. exact Hr. }
  assert (HR : Forall (fun f : ffaceR => FA_tri_in_range (length nodes) (ff_tri f)) faces).
  { unfold faces. rewrite Forall_map. exact Htl. }
  assert (Hf : faces' = faces).
  { unfold faces', faces, nodes'. apply (FA_map_ext_Forall _ _ _ tl) with (2 := Htl).
    intros x Hx. apply FA_refresh_shift. exact Hx. }
  rewrite Hf. clear Hf faces'. unfold nodes'. clear nodes'.
  generalize (apply_pressure NumR P faces F0). intros F1.
  assert (E1 : apply_tension NumR LibmRF (map (fun p => p +v t) nodes) tensions ka iso V A faces F1 =
               apply_tension NumR LibmRF nodes tensions ka iso V A faces F1).
  { unfold apply_tension. cbv zeta. apply FA_fold_left_ext with (2 := HR).
    intros F f Hq. apply FA_tension_face_shift. exact Hq. }
  rewrite E1. clear E1. generalize (apply_tension NumR LibmRF nodes tensions ka iso V A faces F1). intros F2.
  assert (E2 : apply_bending NumR LibmRF pi (map (fun p => p +v t) nodes) bends faces hinges F2 =
               apply_bending NumR LibmRF pi nodes bends faces hinges F2).
  { unfold apply_bending. destruct (forallb _ bends); [reflexivity|].
    apply FA_fold_left_ext with (2 := Hh).
    intros F h [Hq1 Hq2]. apply FA_bending_hinge_shift; assumption. }
  rewrite E2. clear E2. generalize (apply_bending NumR LibmRF pi nodes bends faces hinges F2). intros F3.
  unfold apply_anglereg. apply FA_fold_left_ext with (2 := HR).
  intros F f Hq. apply FA_anglereg_face_shift. exact Hq.
Qed.

(* ------------------------------------------------------------------ convertibility with the statements of Properties_C02.v *)
Section FA_StatementChecks.
Goal forall (nodes : list vR) (faces : list ffaceR) (P : R),
  ValidSurface (tris_of faces) -> ids_in_range nodes (tris_of faces) -> fresh nodes faces ->
  net_force (apply_pressure NumR P faces (zeroF (length nodes))) = mkv 0 0 0.
Proof. exact pressure_force_zero. Qed.

Goal forall (nodes : list vR) (faces : list ffaceR) (P : R),
  ValidSurface (tris_of faces) -> ids_in_range nodes (tris_of faces) -> fresh nodes faces ->
  net_torque nodes (apply_pressure NumR P faces (zeroF (length nodes))) = mkv 0 0 0.
Proof. exact pressure_torque_zero. Qed.

Goal forall (nodes : list vR) (faces : list ffaceR) (P : R) (i : nat) (d : vR),
  ValidSurface (tris_of faces) -> ids_in_range nodes (tris_of faces) -> fresh nodes faces -> (i < length nodes)%nat ->
  nth i (apply_pressure NumR P faces (zeroF (length nodes))) (mkv 0 0 0) ·  d =
  P * ((six_signed_volume NumR (map (tri_pos NumR (displace nodes i d)) (tris_of faces))
        - six_signed_volume NumR (map (tri_pos NumR nodes) (tris_of faces))) / 6).
Proof. exact pressure_is_P_gradV. Qed.

Goal forall (nodes : list vR) (faces : list ffaceR) (tensions : list R) (ka iso V A : R),
  ids_in_range nodes (tris_of faces) ->
  net_force (apply_tension NumR LibmRF nodes tensions ka iso V A faces (zeroF (length nodes))) = mkv 0 0 0.
Proof. exact tension_force_zero. Qed.

Goal forall (nodes : list vR) (faces : list ffaceR) (tensions : list R) (ka iso V A : R),
  ids_in_range nodes (tris_of faces) -> fresh nodes faces ->
  net_torque nodes (apply_tension NumR LibmRF nodes tensions ka iso V A faces (zeroF (length nodes))) = mkv 0 0 0.
Proof. exact tension_torque_zero. Qed.

Goal forall (eps dmin : R) (i j k : vR),
  let '(gi, gj, gk) := angle_gradient NumR LibmRF eps dmin i j k in gi +v gj +v gk = mkv 0 0 0.
Proof. exact angle_gradient_sum. Qed.

Goal forall (pi eps dmin kreg : R) (nodes : list vR) (faces : list ffaceR),
  ids_in_range nodes (tris_of faces) ->
  net_force (apply_anglereg NumR LibmRF pi eps dmin nodes kreg faces (zeroF (length nodes))) = mkv 0 0 0.
Proof. exact anglereg_force_zero. Qed.

Goal
  forall (pi eps dmin P ka iso V A kreg : R) (tensions bends : list R) (nodes : list vR) (tl : list (tri * nat)) (hinges : list hinge) (t : vR),
  ids_in_range nodes (map fst tl) ->
  List.Forall (fun h => (N.to_nat (h_n1 h) < length nodes)%nat /\ (N.to_nat (h_n2 h) < length nodes)%nat) hinges ->
  let nodes' := map (fun p => p +v t) nodes in
  let faces := map (fun x => refresh NumR nodes (fst x) (snd x)) tl in
  let faces' := map (fun x => refresh NumR nodes' (fst x) (snd x)) tl in
  let F0 := zeroF (length nodes) in
  apply_anglereg NumR LibmRF pi eps dmin nodes' kreg faces'
    (apply_bending NumR LibmRF pi nodes' bends faces' hinges
      (apply_tension NumR LibmRF nodes' tensions ka iso V A faces' (apply_pressure NumR P faces' F0))) =
  apply_anglereg NumR LibmRF pi eps dmin nodes kreg faces
    (apply_bending NumR LibmRF pi nodes bends faces hinges
      (apply_tension NumR LibmRF nodes tensions ka iso V A faces (apply_pressure NumR P faces F0))).
Proof. exact forces_translation_invariant. Qed.
End FA_StatementChecks.
