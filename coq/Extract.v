(* Extract.v — the float instances of the models, extracted to OCaml (model.ml/.mli).
   Only the directives of ExtrOcamlBasic and ExtrOCamlFloats are used; Z/N/nat/positive stay
   the extracted datatypes. *)
From Coq Require Import ZArith List Floats.
From Coq Require Import ExtrOcamlBasic ExtrOCamlFloats ExtrOCamlInt63.
From SC Require Import Num Vec3 Kernel FloatIO Grid Integrator CellCycle Mesh Geometry Forces MeshOps RefineLoop Population IterationDefs Iteration_gen Iteration Vtk Params Params_gen Output Contact Divider Init.

Definition kernel_f := kernel NumF.

(* C20: grids over int objects *)
Definition grid_dims_f := update_dimensions NumF f_ceilZ f_eps.
Definition grid_idx3_f := idx3 NumF f_floorZ.
Definition grid_in_range_f := @in_range float.
Definition grid_flat_f := @flat float.
Definition grid_empty_f := @empty_store float Z.
Definition grid_place_f := @place float NumF f_floorZ Z.
Definition grid_nbh_f := @neighborhood float NumF f_floorZ Z.
Definition grid_content_f := @grid_content float Z.
Definition grid_content_at_f := @content Z.
Definition grid3_empty_f := @empty_store3 float Z.
Definition grid3_place_f := @place3 float NumF f_floorZ Z.
Definition grid3_nbh_f := @neighborhood3 float NumF f_floorZ Z.
Definition grid3_content_f := @grid_content3 float Z.
Definition grid3_content_at_f := @content3 Z.


(* C03: integrator *)
Definition integ_steps_f := @steps float NumF.
Definition integ_node_mass_f := @node_mass float NumF.

(* C04: cell cycle (libm functions are arguments supplied by the OCaml driver) *)
Definition cc_step_f := @cycle_step float NumF.
Definition cc_ready_f := @is_ready float NumF.
Definition cc_below_f := @is_below float NumF.
Definition cc_growth_f := @growth_of float NumF.
Definition cc_divvol_f := @divvol_of float NumF.
Definition cc_initial_target_f := @initial_target float NumF.
Definition cc_pressure_f := @update_pressure float NumF.

(* C12/C13/C01: geometry and surface validity *)
Definition geo_repair_f := @repair_orientation float NumF.
Definition geo_tri_pos_f := @tri_pos float NumF.
Definition geo_normal_f := @face_normal float NumF.
Definition geo_area_f := @face_area float NumF.
Definition geo_volume_f := @compute_volume float NumF.
Definition geo_total_area_f := @compute_area float NumF.
Definition geo_centroid_f := @compute_centroid float NumF.
Definition geo_aabb_f := @aabb float NumF.
Definition mesh_valid_surface_b := valid_surface_b.
Definition mesh_valid_dump_b := valid_dump_b.
Definition mesh_connected_b := connected_b.

(* C02: internal forces *)
Definition frc_refresh_f := @refresh float NumF.
Definition frc_pressure_f := @apply_pressure float NumF.
Definition frc_tension_f := @apply_tension float NumF.
Definition frc_anglereg_f := @apply_anglereg float NumF.
Definition frc_bending_f := @apply_bending float NumF.

(* C01/C11: replay of a remeshing trace *)
Definition ops_replay_f := @replay float NumF.
Definition ops_guards_f := @guards_ok float NumF.
Definition loop_run_f := @refine_loop float NumF.
Definition loop_log_f := @loop_log float NumF.
Definition loop_nb_edges_f := @nb_edges float.
(* the iteration model runs the phases in the order GENERATED from the source *)
Definition iter_run := run_iterations run_iteration_phases.
Definition iter_one := run_iteration run_iteration_phases.
Definition iter_init := init_state.
Definition iter_translation_ok := iteration_translation_ok.

(* C08: population bookkeeping *)
Definition pop_init := init_pop.
Definition pop_step := pstep.
Definition pop_inv_b := popinv_b.

(* C16/C17: cell-data file at token level (numerals and their values are supplied by the driver) *)
Definition vtk_write := @write_file.
Definition vtk_read := @read_file.

(* C18/C17: parameter reader; the tables are the ones regenerated from parameter_reader.cpp (Params_gen.v) *)
Definition par_numerical {T V} stod stoi is_inf lower inf empty ltb0 leb0 ltb :=
  @decode_numerical T V stod stoi is_inf lower inf empty ltb0 leb0 ltb num_table.
Definition par_cell_types {T V} stod stoi is_inf lower inf empty ltb0 leb0 ltb :=
  @decode_cell_types T V stod stoi is_inf lower inf empty ltb0 leb0 ltb cell_table face_table.
Definition par_translation_ok := translation_ok.

(* C19: the output events of a run (binary64 time accumulation, exact floor) *)
Definition out_run_f := @run float NumF f_floorZ Z.
Definition out_init_f := @init float NumF Z.

(* C06/C07: the contact phase of the default contact model, with the grid and with all pairs *)
Definition ct_phase_f := @contact_phase float NumF f_floorZ f_ceilZ f_eps.
Definition ct_all_pairs_f := @all_pairs_phase float NumF f_ceilZ f_eps.
Definition ct_prepare_f := @prepare float NumF f_ceilZ f_eps.

(* C09: deterministic stages of the cell divider *)
Definition dv_edge_plane_f := @edge_plane float NumF.
Definition dv_divide_face5_f := @divide_face5 float NumF.
Definition dv_rot_to_z_f := @rot_to_z float NumF.
Definition dv_to_xy_f := @to_xy float NumF.
Definition dv_to_plane_f := @to_plane float NumF.

(* C13: acceptance gate and Poisson disk sampling *)
Definition init_gate_b := gate_b.
Definition init_poisson_f := @poisson float NumF f_floorZ.
Definition init_place_f := @place float NumF f_floorZ (@opoint float).
Definition init_empty_f := @empty_store float (@opoint float).
Definition init_content_f := @grid_content float (@opoint float).

Extraction Language OCaml.
Extraction "model.ml" NumF kernel_f
  grid_dims_f grid_idx3_f grid_in_range_f grid_flat_f grid_empty_f grid_place_f grid_nbh_f grid_content_f grid_content_at_f
  grid3_empty_f grid3_place_f grid3_nbh_f grid3_content_f grid3_content_at_f
  integ_steps_f integ_node_mass_f
  cc_step_f cc_ready_f cc_below_f cc_growth_f cc_divvol_f cc_initial_target_f cc_pressure_f
  geo_repair_f geo_tri_pos_f geo_normal_f geo_area_f geo_volume_f geo_total_area_f geo_centroid_f geo_aabb_f
  mesh_valid_surface_b mesh_valid_dump_b mesh_connected_b
  frc_refresh_f frc_pressure_f frc_tension_f frc_anglereg_f frc_bending_f
  ops_replay_f ops_guards_f loop_run_f loop_log_f loop_nb_edges_f iter_run iter_one iter_init iter_translation_ok
  pop_init pop_step pop_inv_b
  vtk_write vtk_read
  par_numerical par_cell_types par_translation_ok
  out_run_f out_init_f
  ct_phase_f ct_all_pairs_f ct_prepare_f
  dv_edge_plane_f dv_divide_face5_f dv_rot_to_z_f dv_to_xy_f dv_to_plane_f
  init_gate_b init_poisson_f init_place_f init_empty_f init_content_f.
