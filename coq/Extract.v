(* Extract.v — the float instances of the models, extracted to OCaml (model.ml/.mli).
   Only the directives of ExtrOcamlBasic and ExtrOCamlFloats are used; Z/N/nat/positive stay
   the extracted datatypes. *)
From Coq Require Import ZArith List Floats.
From Coq Require Import ExtrOcamlBasic ExtrOCamlFloats.
From SC Require Import Num Vec3 Kernel.

Definition kernel_f := kernel NumF.

Extraction Language OCaml.
Extraction "model.ml" NumF kernel_f.
