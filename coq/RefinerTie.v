(* RefinerTie.v — the remeshing operations and the decision of the refinement loop are what the source says NOW.
   Refiner_gen.v is regenerated from src/triangulation_modules/local_mesh_refiner.cpp on every run
   (harness/translate_refiner.py).  Arithmetic and decision tree: equal to MeshOps.v / RefineLoop.v by reflexivity.  The four
   triangles an edge split creates, with the label each receives: the code lists them rotated (and, for the face that runs
   from b to a, in the other order) with respect to MeshOps.split_tri; split_tri_is_what_the_source_creates proves by cases
   that they are the same oriented, labelled triangles. *)
From Coq Require Import NArith ZArith Bool List Lia.
From SC Require Import Num Vec3 Mesh MeshOps RefineLoop Refiner_gen.
Import ListNotations.
Local Open Scope bool_scope.

Definition refiner_arith_tie : Prop :=
  (refiner_translation_ok = true :> bool) /\
  (forall (T : Type) (N : Num T) (pa pb ma mb : vec3 T),
     split_pos_gen N pa pb = midpoint N pa pb /\
     merge_pos_gen N pa pb = midpoint N pa pb /\
     split_mom_a_gen N ma mb = vscale N ma (two_thirds N) /\
     split_mom_b_gen N ma mb = vscale N mb (two_thirds N) /\
     split_mom_e_gen N ma mb = vdivs N (vadd N ma mb) (nofZ N 3) /\
     merge_mom_gen N ma mb = vadd N ma mb).

Theorem refiner_arithmetic_is_what_the_source_says : refiner_arith_tie.
Proof.
  split; [reflexivity|]. intros.
  split; [reflexivity|]. split; [reflexivity|]. split; [reflexivity|]. split; [reflexivity|]. split; reflexivity.
Qed.

(* the split and the merge of the model, written with the generated pieces *)
Theorem apply_op_uses_the_generated_arithmetic :
  forall (T : Type) (Nm : Num T) (st : @mstate T) (a b e : N) (na nb : @nstate T),
    nget (ms_nodes st) a = Some na -> nget (ms_nodes st) b = Some nb -> edge_exists (ms_faces st) a b = true ->
    apply_op Nm true st (OpSplit a b e) =
      Some (mkms (split (ms_faces st) a b e)
                 (nset (nset (nset (ms_nodes st) a (mkns (ns_pos na) (split_mom_a_gen Nm (ns_mom na) (ns_mom nb))))
                             b (mkns (ns_pos nb) (split_mom_b_gen Nm (ns_mom na) (ns_mom nb))))
                       e (mkns (split_pos_gen Nm (ns_pos na) (ns_pos nb)) (split_mom_e_gen Nm (ns_mom na) (ns_mom nb))))) /\
    apply_op Nm true st (OpMerge a b e) =
      Some (mkms (collapse (ms_faces st) a b e)
                 (nset (ndel (ndel (ms_nodes st) a) b) e (mkns (merge_pos_gen Nm (ns_pos na) (ns_pos nb)) (merge_mom_gen Nm (ns_mom na) (ns_mom nb))))).
Proof.
  intros T Nm st a b e na nb Ha Hb He. unfold apply_op. rewrite Ha, Hb, He. split; reflexivity.
Qed.

(* the decision taken for a popped edge *)
Theorem decide_is_the_generated_tree :
  forall (T : Type) (Nm : Num T) (lmin2 lmax2 : T) (st : @mstate T) (a b : N) (na nb : @nstate T),
    nget (ms_nodes st) a = Some na -> nget (ms_nodes st) b = Some nb -> edge_exists (ms_faces st) a b = true ->
    decide Nm lmin2 lmax2 st a b = decision_gen Nm lmin2 lmax2 (sq_len_gen Nm (ns_pos na) (ns_pos nb)) (can_merge st a b).
Proof.
  intros T Nm lmin2 lmax2 st a b na nb Ha Hb He. unfold decide, sq_len. rewrite He, Ha, Hb. reflexivity.
Qed.

(* ------------------------------------------------------------------ the created triangles *)
Local Open Scope N_scope.
Definition eq3 (t u : tri) : bool :=
  let '(x, y, z) := t in let '(p, q, r) := u in (x =? p) && (y =? q) && (z =? r).
Definition rot_eqb (t u : tri) : bool :=
  let '(p, q, r) := u in eq3 t (p, q, r) || eq3 t (q, r, p) || eq3 t (r, p, q).
Definition ltri_in (g : ltri) (l : list ltri) : bool := existsb (fun m : ltri => rot_eqb (fst g) (fst m) && Nat.eqb (snd g) (snd m)) l.
Definition faces_match (l1 l2 : list ltri) : bool :=
  Nat.eqb (length l1) (length l2) && forallb (fun g => ltri_in g l1) l2 && forallb (fun g => ltri_in g l2) l1.

Ltac eqs :=
  repeat match goal with
  | H : ?x <> ?y |- context[(?x =? ?y)] => rewrite (proj2 (N.eqb_neq x y) H)
  | H : ?x <> ?y |- context[(?y =? ?x)] => rewrite (proj2 (N.eqb_neq y x) (not_eq_sym H))
  end; rewrite ?N.eqb_refl, ?Nat.eqb_refl.

Theorem same_orientation_is_has_dir : forall t a b, same_orientation_gen t a b = has_dir t a b.
Proof. intros [[x y] z] a b. reflexivity. Qed.

Theorem split_tri_is_what_the_source_creates :
  forall (a b e x y z : N) (ty : nat),
    x <> y -> y <> z -> x <> z -> a <> b ->
    has_dir (x, y, z) a b = true \/ has_dir (x, y, z) b a = true ->
    faces_match (split_tri a b e ((x, y, z), ty))
                (split_faces_gen (same_orientation_gen (x, y, z) a b) a b (third (x, y, z) a b) e ty) = true.
Proof.
  intros a b e x y z ty Hxy Hyz Hxz Hab H.
  assert (Hba : b <> a) by (intro; subst; congruence).
  unfold has_dir in H.
  repeat rewrite orb_true_iff in H. repeat rewrite andb_true_iff in H. repeat rewrite N.eqb_eq in H.
  destruct H as [[[[E1 E2]|[E1 E2]]|[E1 E2]]|[[[E1 E2]|[E1 E2]]|[E1 E2]]]; subst;
    unfold split_tri, same_orientation_gen, has_dir, third, split_faces_gen, faces_match, ltri_in, rot_eqb, eq3;
    cbn [fst snd length forallb existsb]; eqs; cbn [negb andb orb]; eqs; cbn [negb andb orb fst snd length forallb existsb];
    eqs; cbn [negb andb orb Nat.eqb]; rewrite ?andb_true_r, ?orb_true_r, ?orb_true_l; try reflexivity.
Qed.
Print Assumptions refiner_arithmetic_is_what_the_source_says.
Print Assumptions apply_op_uses_the_generated_arithmetic.
Print Assumptions decide_is_the_generated_tree.
Print Assumptions split_tri_is_what_the_source_creates.

(* ------------------------------------------------------------------ what the regenerated expressions do, over R
   (direct statements about the code as translated, not through the hand model) *)
From Coq Require Import Reals Lra.
From SC Require Import VecR.
Local Open Scope R_scope.

(* an edge split hands the momentum of a and b on unchanged in total: 2/3 + 2/3 + (1 + 1)/3 *)
Theorem generated_split_conserves_momentum : forall ma mb : vR,
  split_mom_a_gen NumR ma mb +v split_mom_b_gen NumR ma mb +v split_mom_e_gen NumR ma mb = ma +v mb.
Proof.
  intros [a1 a2 a3] [b1 b2 b3]. unfold split_mom_a_gen, split_mom_b_gen, split_mom_e_gen, vadd, vscale, vdivs.
  cbn [vx vy vz nadd nmul ndiv nofZ none_ NumR]. apply vec3_eq; cbn [vx vy vz]; simpl; field.
Qed.

(* an edge collapse gives the new node the sum of the two momenta and puts it at the midpoint *)
Theorem generated_merge_conserves_momentum : forall ma mb : vR, merge_mom_gen NumR ma mb = ma +v mb.
Proof. reflexivity. Qed.

Theorem generated_new_node_is_the_midpoint : forall pa pb : vR,
  split_pos_gen NumR pa pb = merge_pos_gen NumR pa pb /\
  (split_pos_gen NumR pa pb -v pa) = (pb -v split_pos_gen NumR pa pb).
Proof.
  intros [a1 a2 a3] [b1 b2 b3]. split; [reflexivity|].
  unfold split_pos_gen, vadd, vsub, vscale. cbn [vx vy vz nadd nsub nmul ndiv nofZ none_ NumR].
  apply vec3_eq; cbn [vx vy vz]; simpl; field.
Qed.

(* the decision tree never splits an edge that is not longer than l_max and never merges one that is not shorter than l_min *)
Theorem generated_decision_is_selective : forall (lmin2 lmax2 l : R) (cm : bool),
  (decision_gen NumR lmin2 lmax2 l cm = DSplit -> lmax2 < l) /\
  (decision_gen NumR lmin2 lmax2 l cm = DMerge -> l < lmin2 /\ cm = true /\ ~ lmax2 < l).
Proof.
  intros lmin2 lmax2 l cm. unfold decision_gen. cbn [nltb NumR]. unfold Rltb.
  destruct (Rlt_dec lmax2 l) as [H1|H1]; destruct (Rlt_dec l lmin2) as [H2|H2]; destruct cm; split; intro H; try discriminate H; auto.
Qed.
Print Assumptions generated_split_conserves_momentum.
Print Assumptions generated_decision_is_selective.
