(* Properties_C18.v — property C18: every XML parameter reaches the simulation with its value and meaning intact.
   Only statements; generic ones are `exact <lemma of ParamsProofs.v>`, the ones about the tables REGENERATED from
   src/io/parameter_reader.cpp (Params_gen.v) are decided by computation over the whole finite table. *)
From Coq Require Import String List Bool ZArith Permutation.
From SC Require Import Params ParamsSpec ParamsProofs Params_gen.
Import ListNotations.
Local Open Scope string_scope.

(* ---- generic: for EVERY wiring table that is well formed, every XML section, every text semantics ---- *)

(* a successful read returns exactly what the table prescribes: each field holds the conversion of the text written
   under its tag, no rule is violated — and whenever that is possible, the read succeeds with that record *)
Theorem decode_exact : forall (T V : Type) stod stoi is_inf lower (inf : V) (empty : T) ltb0 leb0 ltb table ch r,
  table_wf table = true ->
  (decode stod stoi is_inf lower inf empty ltb0 leb0 ltb table ch [] = POk r
   <-> reads stod stoi is_inf lower inf empty ltb0 leb0 ltb table ch r).
Proof. exact decode_iff_reads. Qed.
Print Assumptions decode_exact.

(* the order of the tags inside a section is irrelevant (tags unique in the section; unknown extra tags allowed) *)
Theorem decode_any_tag_order : forall (T V : Type) stod stoi is_inf lower (inf : V) (empty : T) ltb0 leb0 ltb table ch ch' r0,
  str_nodup (map (@x_tag T) ch) = true -> Permutation ch ch' ->
  decode stod stoi is_inf lower inf empty ltb0 leb0 ltb table ch' r0 = decode stod stoi is_inf lower inf empty ltb0 leb0 ltb table ch r0.
Proof. exact decode_perm. Qed.
Print Assumptions decode_any_tag_order.

(* a missing tag is rejected *)
Theorem missing_tag_rejected : forall (T V : Type) stod stoi is_inf lower (inf : V) (empty : T) ltb0 leb0 ltb table ch r0 e,
  In e table -> first_child (e_tag e) ch = None ->
  exists err, decode stod stoi is_inf lower inf empty ltb0 leb0 ltb table ch r0 = PErr err.
Proof. exact decode_missing. Qed.
Print Assumptions missing_tag_rejected.

(* a text that does not convert (empty, non-numeric, out of range) is rejected *)
Theorem unconvertible_text_rejected : forall (T V : Type) stod stoi is_inf lower (inf : V) (empty : T) ltb0 leb0 ltb table ch r0 e x,
  In e table -> first_child (e_tag e) ch = Some x ->
  convert stod stoi is_inf lower inf (e_conv e) (x_text empty x) = None ->
  exists err, decode stod stoi is_inf lower inf empty ltb0 leb0 ltb table ch r0 = PErr err.
Proof. exact decode_unconvertible. Qed.
Print Assumptions unconvertible_text_rejected.

(* INF (any case) maps to infinity for a CInfDouble entry; everything else goes through strtod *)
Theorem inf_maps_to_infinity : forall (T V : Type) stod stoi is_inf lower (inf : V) (t : T),
  is_inf (lower t) = true -> convert stod stoi is_inf lower inf CInfDouble t = Some (VD inf).
Proof. exact convert_inf. Qed.
Print Assumptions inf_maps_to_infinity.

(* cell types and face types are returned in document order, each read by the flat readers *)
Theorem cell_and_face_types_in_document_order :
  forall (T V : Type) stod stoi is_inf lower (inf : V) (empty : T) ltb0 leb0 ltb ctab ftab doc l,
  decode_cell_types stod stoi is_inf lower inf empty ltb0 leb0 ltb ctab ftab doc = POk l ->
  exists root, first_child "cell_types" doc = Some root /\
    Forall2 (fun x rl =>
               decode stod stoi is_inf lower inf empty ltb0 leb0 ltb ctab (x_children x) [] = POk (fst rl) /\
               exists fts, first_child "face_types" (x_children x) = Some fts /\
                 Forall2 (fun f fr => decode stod stoi is_inf lower inf empty ltb0 leb0 ltb ftab (x_children f) [] = POk fr)
                         (siblings "face_type" (x_children fts)) (snd rl))
            (siblings "cell_type" (x_children root)) l.
Proof. exact cell_types_order. Qed.
Print Assumptions cell_and_face_types_in_document_order.

(* ---- about the tables regenerated from the source on this run ---- *)
Theorem translation_succeeded : translation_ok = true.
Proof. vm_compute. reflexivity. Qed.

Theorem generated_tables_well_formed : table_wf num_table && table_wf cell_table && table_wf face_table = true.
Proof. vm_compute. reflexivity. Qed.

(* each tag is wired to the field of that name with the documented conversion, in the documented order;
   exactly max_inner_pressure and avg_division_volume accept INF *)
Theorem wiring_is_documented :
  list_eqb wiring_eqb (map wiring num_table) doc_num_wiring &&
  list_eqb wiring_eqb (map wiring cell_table) doc_cell_wiring &&
  list_eqb wiring_eqb (map wiring face_table) doc_face_wiring = true.
Proof. vm_compute. reflexivity. Qed.

(* each validation rule tests the field its tag was stored in, with the documented sign constraint *)
Theorem rules_are_documented :
  list_eqb rules_eqb (map rules num_table) doc_num_rules &&
  list_eqb rules_eqb (map rules cell_table) doc_cell_rules &&
  list_eqb rules_eqb (map rules face_table) doc_face_rules = true.
Proof. vm_compute. reflexivity. Qed.

(* non-vacuity: the generated numerical table reads a concrete section (texts = their own values) *)
Example reads_a_concrete_section :
  let el t v := @Elem Z t (Some v) [] in
  decode (V:=Z) (fun t => Some t) (fun t => Some t) (fun _ => false) (fun t => t) 0%Z 0%Z (fun v => Z.ltb v 0) (fun v => Z.leb v 0) Z.ltb
         face_table
         [el "bending_modulus" 5%Z; el "global_face_id" 1%Z; el "face_type_name" 7%Z; el "surface_tension" 2%Z; el "repulsion_strength" 3%Z; el "adherence_strength" 4%Z] []
  = POk [("bending_modulus_", VD 5%Z); ("repulsion_strength_", VD 3%Z); ("adherence_strength_", VD 4%Z); ("surface_tension_", VD 2%Z); ("face_type_global_id_", VI 1%Z); ("name_", VS 7%Z)].
Proof. vm_compute. reflexivity. Qed.
