(* OutputProofs.v — proofs for property C19 (Properties_C19.v) about the model Output.v.
   Every statement about a run from `init` is generalised to an arbitrary start state and proved through one
   induction principle for `run` (run_ind_gen). *)
From Coq Require Import Reals ZArith Bool List Arith Lra Lia.
From Flocq Require Import Core.Raux.
From SC Require Import Num Output.
Import ListNotations.

(* ------------------------------------------------------------------ generic part: any Num, any floor *)
(* the numbers from+1, ..., from+n *)
Fixpoint zr (n : nat) (from : Z) : list Z :=
  match n with O => [] | S k => (from + 1)%Z :: zr k (from + 1)%Z end.

Lemma zr_app : forall a b from, zr (a + b) from = zr a from ++ zr b (from + Z.of_nat a)%Z.
Proof.
  induction a as [|a IH]; intros b from.
  - cbn [zr Nat.add app]. change (Z.of_nat 0) with 0%Z. rewrite Z.add_0_r. reflexivity.
  - cbn [zr Nat.add app]. f_equal. rewrite IH. f_equal. f_equal. lia.
Qed.

Lemma zr_length : forall n from, length (zr n from) = n.
Proof. induction n as [|n IH]; intros from; cbn [zr length]; [reflexivity | rewrite IH; reflexivity]. Qed.

Lemma zr_seq : forall n k, zr n (Z.of_nat k) = map Z.of_nat (seq (S k) n).
Proof.
  induction n as [|n IH]; intros k; cbn [zr seq map]; [reflexivity|].
  replace (Z.of_nat k + 1)%Z with (Z.of_nat (S k)) by lia.
  f_equal. apply IH.
Qed.

Section Generic.
  Context {T : Type} (N : Num T) (floorZ : T -> Z) {C : Type} (dt Sp Tend : T).

  Lemma saved_app : forall a b : list (@event T C), saved (a ++ b) = saved a ++ saved b.
  Proof. intros a b. unfold saved. apply flat_map_app. Qed.

  Lemma recorded_app : forall a b : list (@event T C), recorded (a ++ b) = recorded a ++ recorded b.
  Proof. intros a b. unfold recorded. apply flat_map_app. Qed.

  Lemma saved_save_upto : forall n from (pop : list C), saved (@save_upto T C n from pop) = zr n from.
  Proof.
    induction n as [|n IH]; intros from pop; [reflexivity|].
    cbn [save_upto zr]. change (Save (T:=T) (from + 1) pop :: save_upto n (from + 1) pop)
      with ([Save (T:=T) (from + 1) pop] ++ save_upto n (from + 1) pop).
    rewrite saved_app, IH. reflexivity.
  Qed.

  Lemma recorded_save_upto : forall n from (pop : list C), recorded (@save_upto T C n from pop) = [].
  Proof.
    induction n as [|n IH]; intros from pop; [reflexivity|].
    cbn [save_upto]. change (Save (T:=T) (from + 1) pop :: save_upto n (from + 1) pop)
      with ([Save (T:=T) (from + 1) pop] ++ save_upto n (from + 1) pop).
    rewrite recorded_app, IH. reflexivity.
  Qed.

  Lemma In_save_upto : forall n from (pop : list C) x, In x (@save_upto T C n from pop) -> exists k, x = Save k pop.
  Proof.
    induction n as [|n IH]; intros from pop x Hin; cbn [save_upto In] in Hin; [contradiction|].
    destruct Hin as [Hx | Hin]; [exists (from + 1)%Z; symmetry; exact Hx | eapply IH; exact Hin].
  Qed.

  Lemma saved_opt_stats : forall (b : bool) i (t : T) (p : list C), saved (if b then [Stats i t p] else []) = [].
  Proof. intros [|] i t p; reflexivity. Qed.

  Lemma save_mesh_spec : forall (s : @st T C) s1 e, save_mesh N floorZ Sp s = (s1, e) ->
    s_time s1 = s_time s /\ s_iter s1 = s_iter s /\ s_pop s1 = s_pop s /\
    (s_file s <= s_file s1)%Z /\ saved e = zr (Z.to_nat (s_file s1 - s_file s)) (s_file s) /\
    recorded e = [] /\
    (forall k p, In (Save k p) e -> p = s_pop s) /\
    (forall i t p, ~ In (Stats i t p) e).
  Proof.
    intros s s1 e. unfold save_mesh. cbv zeta.
    destruct (s_file s <? floorZ (ndiv N (s_time s) Sp) + 1)%Z eqn:Hlt; intros H; inversion H; subst s1 e; clear H;
      cbn [s_time s_iter s_pop s_file].
    - apply Z.ltb_lt in Hlt.
      split; [reflexivity|]. split; [reflexivity|]. split; [reflexivity|]. split; [lia|].
      split; [apply saved_save_upto|]. split; [apply recorded_save_upto|]. split.
      + intros k p Hin. apply In_save_upto in Hin. destruct Hin as [k' Hk]. inversion Hk. reflexivity.
      + intros i t p Hin. apply In_save_upto in Hin. destruct Hin as [k' Hk]. discriminate Hk.
    - split; [reflexivity|]. split; [reflexivity|]. split; [reflexivity|]. split; [apply Z.le_refl|].
      split; [rewrite Z.sub_diag; reflexivity|]. split; [reflexivity|]. split.
      + intros k p Hin. destruct Hin.
      + intros i t p Hin. destruct Hin.
  Qed.

  Lemma iteration_spec : forall (s : @st T C) mid fin s1 e, iteration N floorZ dt Sp s mid fin = (s1, e) ->
    s_time s1 = nadd N (s_time s) dt /\ s_iter s1 = S (s_iter s) /\ s_pop s1 = fin /\
    s_file s1 = s_file (fst (save_mesh N floorZ Sp s)) /\
    (s_file s <= s_file s1)%Z /\ saved e = zr (Z.to_nat (s_file s1 - s_file s)) (s_file s) /\
    recorded e = (if Nat.eqb (s_iter s mod 50) 0 then [s_iter s] else []) /\
    (forall k p, In (Save k p) e -> p = s_pop s) /\
    (forall i t p, In (Stats i t p) e -> i = s_iter s /\ t = nadd N (s_time s) dt /\ p = mid).
  Proof.
    intros s mid fin s1 e. unfold iteration.
    destruct (save_mesh N floorZ Sp s) as [s0 e0] eqn:Hsm.
    apply save_mesh_spec in Hsm. destruct Hsm as (Ht & Hi & Hp & Hf & Hsv & Hrc & Hsave & Hstats).
    generalize (Nat.eqb (s_iter s mod 50) 0). intros b H.
    apply pair_equal_spec in H. destruct H as [Hs1 He]. subst s1 e. cbn [s_time s_iter s_pop s_file fst]. rewrite Ht.
    split; [reflexivity|]. split; [reflexivity|]. split; [reflexivity|]. split; [reflexivity|].
    split; [exact Hf|]. split; [rewrite saved_app, Hsv, saved_opt_stats, app_nil_r; reflexivity|].
    split; [rewrite recorded_app, Hrc; destruct b; reflexivity|]. split.
    - intros k p Hin. apply in_app_or in Hin. destruct Hin as [Hin | Hin]; [eapply Hsave; exact Hin|].
      destruct b; cbn [In] in Hin; [|contradiction].
      destruct Hin as [Hin | []]. discriminate Hin.
    - intros i t p Hin. apply in_app_or in Hin. destruct Hin as [Hin | Hin]; [exfalso; eapply Hstats; exact Hin|].
      destruct b; cbn [In] in Hin; [|contradiction].
      destruct Hin as [Hin | []]. inversion Hin. auto.
  Qed.

  Definition test (s : @st T C) : bool := nltb N (s_time s) Tend && nonempty (s_pop s).

  Lemma run_eq : forall hist (s : @st T C), run N floorZ dt Sp Tend hist s =
    if test s then
      match hist with
      | [] => None
      | (mid, fin) :: h =>
          let (s1, e) := iteration N floorZ dt Sp s mid fin in
          match run N floorZ dt Sp Tend h s1 with Some (sf, ev) => Some (sf, e ++ ev) | None => None end
      end
    else Some (s, [Stats (s_iter s) (s_time s) (s_pop s)]).
  Proof. intros [|[mid fin] h] s; reflexivity. Qed.

  Lemma run_ind_gen : forall (P : @st T C -> list (list C * list C) -> @st T C -> list (@event T C) -> Prop),
    (forall s hist, test s = false -> P s hist s [Stats (s_iter s) (s_time s) (s_pop s)]) ->
    (forall s mid fin h s1 e sf ev, test s = true -> iteration N floorZ dt Sp s mid fin = (s1, e) ->
       run N floorZ dt Sp Tend h s1 = Some (sf, ev) -> P s1 h sf ev -> P s ((mid, fin) :: h) sf (e ++ ev)) ->
    forall hist s sf ev, run N floorZ dt Sp Tend hist s = Some (sf, ev) -> P s hist sf ev.
  Proof.
    intros P Hbase Hstep. induction hist as [|[mid fin] h IH]; intros s sf ev H; rewrite run_eq in H;
      destruct (test s) eqn:Ht.
    - discriminate H.
    - inversion H; subst sf ev. apply Hbase. exact Ht.
    - destruct (iteration N floorZ dt Sp s mid fin) as [s1 e] eqn:Hit.
      destruct (run N floorZ dt Sp Tend h s1) as [[sf' ev']|] eqn:Hr; [|discriminate H].
      inversion H; subst sf ev. eapply Hstep; eauto.
    - inversion H; subst sf ev. apply Hbase. exact Ht.
  Qed.

  Lemma saved_gen : forall hist (s : @st T C) sf ev, run N floorZ dt Sp Tend hist s = Some (sf, ev) ->
    (s_file s <= s_file sf)%Z /\ saved ev = zr (Z.to_nat (s_file sf - s_file s)) (s_file s).
  Proof.
    apply (run_ind_gen (fun s _ sf ev =>
      (s_file s <= s_file sf)%Z /\ saved ev = zr (Z.to_nat (s_file sf - s_file s)) (s_file s))).
    - intros s _ _. split; [apply Z.le_refl|]. rewrite Z.sub_diag. reflexivity.
    - intros s mid fin h s1 e sf ev _ Hit _ [Hle Hsv].
      apply iteration_spec in Hit. destruct Hit as (_ & _ & _ & _ & Hf & He & _).
      split; [lia|]. rewrite saved_app, He, Hsv.
      replace (Z.to_nat (s_file sf - s_file s)) with (Z.to_nat (s_file s1 - s_file s) + Z.to_nat (s_file sf - s_file s1))%nat by lia.
      rewrite zr_app. f_equal. f_equal. lia.
  Qed.

  Lemma recorded_gen : forall hist (s : @st T C) sf ev, run N floorZ dt Sp Tend hist s = Some (sf, ev) ->
    (s_iter s <= s_iter sf)%nat /\
    recorded ev = filter (fun i => Nat.eqb (i mod 50) 0) (seq (s_iter s) (s_iter sf - s_iter s)) ++ [s_iter sf].
  Proof.
    apply (run_ind_gen (fun s _ sf ev => (s_iter s <= s_iter sf)%nat /\
      recorded ev = filter (fun i => Nat.eqb (i mod 50) 0) (seq (s_iter s) (s_iter sf - s_iter s)) ++ [s_iter sf])).
    - intros s _ _. split; [apply Nat.le_refl|]. rewrite Nat.sub_diag. reflexivity.
    - intros s mid fin h s1 e sf ev _ Hit _ [Hle Hrc].
      apply iteration_spec in Hit. destruct Hit as (_ & Hi & _ & _ & _ & _ & He & _).
      rewrite Hi in Hle, Hrc. split; [lia|]. rewrite recorded_app, He, Hrc.
      replace (s_iter sf - s_iter s)%nat with (S (s_iter sf - S (s_iter s))) by lia.
      cbn [seq filter]. destruct (Nat.eqb (s_iter s mod 50) 0); reflexivity.
  Qed.

  Lemma events_gen : forall hist (s : @st T C) sf ev, run N floorZ dt Sp Tend hist s = Some (sf, ev) ->
    (s_iter s <= s_iter sf)%nat /\
    (forall i t p, In (Stats i t p) ev ->
       ((s_iter s <= i < s_iter sf)%nat /\ exists fin, nth_error hist (i - s_iter s) = Some (p, fin)) \/
       (i = s_iter sf /\ p = s_pop sf)) /\
    (forall k p, In (Save k p) ev -> p = s_pop s \/ exists i mid, nth_error hist i = Some (mid, p)).
  Proof.
    apply (run_ind_gen (fun s hist sf ev => (s_iter s <= s_iter sf)%nat /\
      (forall i t p, In (Stats i t p) ev ->
         ((s_iter s <= i < s_iter sf)%nat /\ exists fin, nth_error hist (i - s_iter s) = Some (p, fin)) \/
         (i = s_iter sf /\ p = s_pop sf)) /\
      (forall k p, In (Save k p) ev -> p = s_pop s \/ exists i mid, nth_error hist i = Some (mid, p)))).
    - intros s hist _. split; [apply Nat.le_refl|]. split.
      + intros i t p Hin. cbn [In] in Hin. destruct Hin as [Hin | []]. inversion Hin. right. split; reflexivity.
      + intros k p Hin. cbn [In] in Hin. destruct Hin as [Hin | []]. discriminate Hin.
    - intros s mid fin h s1 e sf ev _ Hit _ (Hle & Hst & Hsa).
      apply iteration_spec in Hit. destruct Hit as (_ & Hi & Hp & _ & _ & _ & _ & Hesave & Hestats).
      rewrite Hi in Hle, Hst. rewrite Hp in Hsa. split; [lia|]. split.
      + intros i t p Hin. apply in_app_or in Hin. destruct Hin as [Hin | Hin].
        * apply Hestats in Hin. destruct Hin as (Hii & _ & Hpp). subst i p. left. split; [lia|].
          exists fin. rewrite Nat.sub_diag. reflexivity.
        * apply Hst in Hin. destruct Hin as [[Hrange [fin' Hnth]] | Hlast]; [|right; exact Hlast].
          left. split; [lia|]. exists fin'.
          replace (i - s_iter s)%nat with (S (i - S (s_iter s))) by lia. cbn [nth_error]. exact Hnth.
      + intros k p Hin. apply in_app_or in Hin. destruct Hin as [Hin | Hin].
        * left. eapply Hesave. exact Hin.
        * apply Hsa in Hin. destruct Hin as [Hpf | [i [mid' Hnth]]].
          -- right. exists 0%nat, mid. subst p. reflexivity.
          -- right. exists (S i), mid'. cbn [nth_error]. exact Hnth.
  Qed.
End Generic.

Lemma saved_consecutive :
  forall (T : Type) (N : Num T) (floorZ : T -> Z) (C : Type) (dt Sp Tend : T) hist (pop : list C) sf ev,
  run N floorZ dt Sp Tend hist (init N pop) = Some (sf, ev) ->
  (0 <= s_file sf)%Z /\ saved ev = map Z.of_nat (seq 1 (Z.to_nat (s_file sf))).
Proof.
  intros T N floorZ C dt Sp Tend hist pop sf ev H. apply saved_gen in H. cbn [init s_file] in H.
  destruct H as [Hle Hsv]. split; [exact Hle|]. rewrite Hsv, Z.sub_0_r. apply (zr_seq _ 0).
Qed.

Lemma recorded_iterations :
  forall (T : Type) (N : Num T) (floorZ : T -> Z) (C : Type) (dt Sp Tend : T) hist (pop : list C) sf ev,
  run N floorZ dt Sp Tend hist (init N pop) = Some (sf, ev) ->
  recorded ev = filter (fun i => Nat.eqb (i mod 50) 0) (seq 0 (s_iter sf)) ++ [s_iter sf].
Proof.
  intros T N floorZ C dt Sp Tend hist pop sf ev H. apply recorded_gen in H. cbn [init s_iter] in H.
  destruct H as [_ Hrc]. rewrite Nat.sub_0_r in Hrc. exact Hrc.
Qed.

Lemma events_populations :
  forall (T : Type) (N : Num T) (floorZ : T -> Z) (C : Type) (dt Sp Tend : T) hist (pop : list C) sf ev,
  run N floorZ dt Sp Tend hist (init N pop) = Some (sf, ev) ->
  (forall i t p, In (Stats i t p) ev ->
     (i < s_iter sf /\ exists fin, nth_error hist i = Some (p, fin)) \/ (i = s_iter sf /\ p = s_pop sf))%nat /\
  (forall k p, In (Save k p) ev -> p = pop \/ exists i mid, nth_error hist i = Some (mid, p)).
Proof.
  intros T N floorZ C dt Sp Tend hist pop sf ev H. apply events_gen in H. cbn [init s_iter s_pop] in H.
  destruct H as (_ & Hst & Hsa). split; [|exact Hsa].
  intros i t p Hin. apply Hst in Hin. destruct Hin as [[Hrange [fin Hnth]] | Hlast]; [|right; exact Hlast].
  left. split; [lia|]. exists fin. rewrite Nat.sub_0_r in Hnth. exact Hnth.
Qed.

Lemma row_header_length : forall (C Fld : Type) (names : list Fld) (cols : list (C -> Fld)) it ct tm it' ct' tm' c,
  List.length names = List.length cols -> List.length (row cols it ct tm c) = List.length (header names it' ct' tm').
Proof.
  intros C Fld names cols it ct tm it' ct' tm' c H. unfold row, header. cbn [length]. rewrite map_length, H. reflexivity.
Qed.

(* ------------------------------------------------------------------ over the reals *)
Local Open Scope R_scope.

Lemma Zfloor_step : forall x y, y <= x + 1 -> (Zfloor y <= Zfloor x + 1)%Z.
Proof.
  intros x y H. pose proof (Zfloor_lb y) as Hy. pose proof (Zfloor_ub x) as Hx.
  assert (Hlt : IZR (Zfloor y) < IZR (Zfloor x + 2)) by (rewrite plus_IZR; lra).
  apply lt_IZR in Hlt. lia.
Qed.

Section RealsP.
  Variables (dt Sp Tend : R) (C : Type).
  Notation runR := (run NumR Zfloor (C:=C) dt Sp Tend).

  Definition fileof (n : nat) : Z := match n with O => 0%Z | S m => (Zfloor (INR m * dt / Sp) + 1)%Z end.

  Lemma inv_Sp_pos : 0 < dt -> dt <= Sp -> 0 < / Sp.
  Proof. intros Hdt HS. apply Rinv_0_lt_compat. lra. Qed.

  Lemma dt_over_Sp : 0 < dt -> dt <= Sp -> 0 <= dt * / Sp <= 1.
  Proof.
    intros Hdt HS. pose proof (inv_Sp_pos Hdt HS) as Hi. split.
    - apply Rmult_le_pos; lra.
    - assert (H : dt * / Sp <= Sp * / Sp) by (apply Rmult_le_compat_r; lra).
      rewrite Rinv_r in H by lra. exact H.
  Qed.

  Lemma frac_succ : forall n, INR (S n) * dt / Sp = INR n * dt / Sp + dt * / Sp.
  Proof. intros n. rewrite S_INR. unfold Rdiv. ring. Qed.

  Lemma time_step : forall (s s1 : @st R C), s_time s = INR (s_iter s) * dt -> s_time s1 = nadd NumR (s_time s) dt ->
    s_iter s1 = S (s_iter s) -> s_time s1 = INR (s_iter s1) * dt.
  Proof. intros s s1 Ht H1 Hi. rewrite H1, Hi, S_INR, Ht. cbn [nadd NumR]. ring. Qed.

  Lemma time_gen : forall hist s sf ev, runR hist s = Some (sf, ev) -> s_time s = INR (s_iter s) * dt ->
    s_time sf = INR (s_iter sf) * dt /\
    (forall i t p, In (Stats i t p) ev -> (i < s_iter sf)%nat -> t = INR (S i) * dt).
  Proof.
    apply (run_ind_gen NumR Zfloor dt Sp Tend (fun s _ sf ev => s_time s = INR (s_iter s) * dt ->
      s_time sf = INR (s_iter sf) * dt /\
      (forall i t p, In (Stats i t p) ev -> (i < s_iter sf)%nat -> t = INR (S i) * dt))).
    - intros s _ _ Ht. split; [exact Ht|]. intros i t p Hin Hlt. cbn [In] in Hin. destruct Hin as [Hin | []].
      inversion Hin. lia.
    - intros s mid fin h s1 e sf ev _ Hit _ IH Ht.
      apply iteration_spec in Hit. destruct Hit as (Ht1 & Hi & _ & _ & _ & _ & _ & _ & Hestats).
      pose proof (time_step s s1 Ht Ht1 Hi) as Ht1'. destruct (IH Ht1') as [Hf Hall]. split; [exact Hf|].
      intros i t p Hin Hlt. apply in_app_or in Hin. destruct Hin as [Hin | Hin]; [|eapply Hall; eauto].
      apply Hestats in Hin. destruct Hin as (Hii & Htt & _). subst i t. rewrite S_INR, Ht. cbn [nadd NumR]. ring.
  Qed.

  Lemma len_gen : forall hist s sf ev, runR hist s = Some (sf, ev) ->
    s_time s = INR (s_iter s) * dt -> s_pop s <> [] -> Forall (fun mf : list C * list C => snd mf <> []) hist ->
    Tend <= INR (s_iter sf) * dt /\
    (s_iter sf = s_iter s \/ ((s_iter s < s_iter sf)%nat /\ INR (s_iter sf - 1) * dt < Tend)).
  Proof.
    apply (run_ind_gen NumR Zfloor dt Sp Tend (fun s hist sf ev =>
      s_time s = INR (s_iter s) * dt -> s_pop s <> [] -> Forall (fun mf : list C * list C => snd mf <> []) hist ->
      Tend <= INR (s_iter sf) * dt /\
      (s_iter sf = s_iter s \/ ((s_iter s < s_iter sf)%nat /\ INR (s_iter sf - 1) * dt < Tend)))).
    - intros s hist Htest Ht Hpop _. unfold test in Htest. apply andb_false_iff in Htest.
      destruct Htest as [Hlt | Hne].
      + cbn [nltb NumR] in Hlt. apply Rltb_false in Hlt. split; [lra | left; reflexivity].
      + destruct (s_pop s); [contradiction Hpop; reflexivity | discriminate Hne].
    - intros s mid fin h s1 e sf ev Htest Hit _ IH Ht Hpop Hall.
      unfold test in Htest. apply andb_true_iff in Htest. destruct Htest as [Hlt _].
      cbn [nltb NumR] in Hlt. apply Rltb_true in Hlt.
      apply iteration_spec in Hit. destruct Hit as (Ht1 & Hi & Hp & _).
      pose proof (time_step s s1 Ht Ht1 Hi) as Ht1'.
      inversion Hall as [|x l Hfin Hall']; subst x l. cbn [snd] in Hfin.
      assert (Hp1 : s_pop s1 <> []) by (rewrite Hp; exact Hfin).
      destruct (IH Ht1' Hp1 Hall') as [Hend Hcases]. split; [exact Hend|]. right.
      rewrite Hi in Hcases. destruct Hcases as [Heq | [Hlt' Hprev]].
      + split; [lia|]. rewrite Heq. replace (S (s_iter s) - 1)%nat with (s_iter s) by lia. lra.
      + split; [lia | exact Hprev].
  Qed.

  Lemma save_mesh_R : forall n (s : @st R C), 0 < dt -> dt <= Sp ->
    s_time s = INR n * dt -> s_file s = fileof n ->
    s_file (fst (save_mesh NumR Zfloor Sp s)) = (Zfloor (INR n * dt / Sp) + 1)%Z /\
    (s_file (fst (save_mesh NumR Zfloor Sp s)) - s_file s <= 1)%Z.
  Proof.
    intros n s Hdt HS Ht Hf. pose proof (dt_over_Sp Hdt HS) as [Hq0 Hq1].
    unfold save_mesh. cbv zeta. cbn [ndiv NumR]. rewrite Ht.
    assert (Hrel : (s_file s <= Zfloor (INR n * dt / Sp) + 1 <= s_file s + 1)%Z).
    { rewrite Hf. destruct n as [|m]; unfold fileof.
      - replace (INR 0 * dt / Sp) with (IZR 0) by (cbn [INR]; unfold Rdiv; ring).
        rewrite Zfloor_IZR. lia.
      - assert (H1 : (Zfloor (INR m * dt / Sp) <= Zfloor (INR (S m) * dt / Sp))%Z)
          by (apply Zfloor_le; rewrite frac_succ; lra).
        assert (H2 : (Zfloor (INR (S m) * dt / Sp) <= Zfloor (INR m * dt / Sp) + 1)%Z)
          by (apply Zfloor_step; rewrite frac_succ; lra).
        lia. }
    destruct (s_file s <? Zfloor (INR n * dt / Sp) + 1)%Z eqn:Hlt; cbn [fst s_file].
    - split; [reflexivity | lia].
    - apply Z.ltb_ge in Hlt. split; lia.
  Qed.

  Lemma file_gen : forall hist s sf ev, 0 < dt -> dt <= Sp -> runR hist s = Some (sf, ev) ->
    s_time s = INR (s_iter s) * dt -> s_file s = fileof (s_iter s) -> s_file sf = fileof (s_iter sf).
  Proof.
    intros hist s sf ev Hdt HS. revert hist s sf ev.
    apply (run_ind_gen NumR Zfloor dt Sp Tend (fun s _ sf _ =>
      s_time s = INR (s_iter s) * dt -> s_file s = fileof (s_iter s) -> s_file sf = fileof (s_iter sf))).
    - intros s _ _ _ Hf. exact Hf.
    - intros s mid fin h s1 e sf ev _ Hit _ IH Ht Hf.
      apply iteration_spec in Hit. destruct Hit as (Ht1 & Hi & _ & Hf1 & _).
      pose proof (time_step s s1 Ht Ht1 Hi) as Ht1'.
      destruct (save_mesh_R (s_iter s) s Hdt HS Ht Hf) as [Hnew _].
      apply IH; [exact Ht1'|]. rewrite Hf1, Hnew, Hi. reflexivity.
  Qed.
End RealsP.

Lemma time_n_dt : forall (dt Sp Tend : R) (C : Type) hist pop sf ev,
  run NumR Zfloor (C:=C) dt Sp Tend hist (init NumR pop) = Some (sf, ev) ->
  s_time sf = INR (s_iter sf) * dt /\
  (forall i t p, In (Stats i t p) ev -> (i < s_iter sf)%nat -> t = INR (S i) * dt).
Proof.
  intros dt Sp Tend C hist pop sf ev H. apply (time_gen dt Sp Tend C hist _ sf ev H).
  cbn [init s_time s_iter nzero NumR INR]. ring.
Qed.

Lemma init_time : forall (dt : R) (C : Type) (pop : list C), s_time (init NumR pop) = INR (s_iter (init NumR pop)) * dt.
Proof. intros dt C pop. cbn [init s_time s_iter nzero NumR INR]. ring. Qed.

Lemma run_len : forall (dt Sp Tend : R), 0 < dt -> 0 < Tend -> forall (C : Type) hist (pop : list C) sf ev,
  pop <> [] -> Forall (fun mf : list C * list C => snd mf <> []) hist ->
  run NumR Zfloor (C:=C) dt Sp Tend hist (init NumR pop) = Some (sf, ev) ->
  (1 <= s_iter sf)%nat /\ INR (s_iter sf - 1) * dt < Tend <= INR (s_iter sf) * dt.
Proof.
  intros dt Sp Tend Hdt HT C hist pop sf ev Hpop Hall H.
  destruct (len_gen dt Sp Tend C hist _ sf ev H (init_time dt C pop) Hpop Hall) as [Hend Hcases].
  cbn [init s_iter] in Hcases. destruct Hcases as [Heq | [Hlt Hprev]].
  - rewrite Heq in Hend. cbn [INR] in Hend. lra.
  - split; [lia|]. split; [exact Hprev | exact Hend].
Qed.

Lemma K_bounds : forall (dt Sp Tend : R), 0 < dt -> dt <= Sp -> 0 < Tend -> forall (C : Type) hist (pop : list C) sf ev,
  pop <> [] -> Forall (fun mf : list C * list C => snd mf <> []) hist ->
  run NumR Zfloor (C:=C) dt Sp Tend hist (init NumR pop) = Some (sf, ev) ->
  (Zfloor (Tend / Sp) <= s_file sf <= Zfloor (Tend / Sp) + 1)%Z.
Proof.
  intros dt Sp Tend Hdt HS HT C hist pop sf ev Hpop Hall H.
  destruct (run_len dt Sp Tend Hdt HT C hist pop sf ev Hpop Hall H) as (Hn & Hlo & Hhi).
  assert (Hfile : s_file sf = fileof dt Sp (s_iter sf)).
  { apply (file_gen dt Sp Tend C hist _ sf ev Hdt HS H (init_time dt C pop)). reflexivity. }
  destruct (s_iter sf) as [|m]; [lia|]. replace (S m - 1)%nat with m in Hlo by lia.
  unfold fileof in Hfile. rewrite Hfile.
  pose proof (inv_Sp_pos dt Sp Hdt HS) as Hinv. pose proof (dt_over_Sp dt Sp Hdt HS) as [Hq0 Hq1].
  rewrite S_INR in Hhi.
  assert (H1 : INR m * dt / Sp <= Tend / Sp) by (unfold Rdiv; apply Rmult_le_compat_r; lra).
  assert (H2 : Tend / Sp <= INR m * dt / Sp + 1).
  { assert (H3 : Tend * / Sp <= ((INR m + 1) * dt) * / Sp) by (apply Rmult_le_compat_r; lra).
    unfold Rdiv. replace ((INR m + 1) * dt * / Sp) with (INR m * dt * / Sp + dt * / Sp) in H3 by ring. lra. }
  apply Zfloor_le in H1. apply Zfloor_step in H2. lia.
Qed.

Lemma one_file : forall (dt Sp : R), 0 < dt -> dt <= Sp -> forall (C : Type) n (s : st (T:=R) (C:=C)) mid fin,
  s_time s = INR n * dt ->
  s_file s = (match n with O => 0 | S m => Zfloor (INR m * dt / Sp) + 1 end)%Z ->
  (List.length (saved (snd (iteration NumR Zfloor dt Sp s mid fin))) <= 1)%nat.
Proof.
  intros dt Sp Hdt HS C n s mid fin Ht Hf.
  destruct (iteration NumR Zfloor dt Sp s mid fin) as [s1 e] eqn:Hit. cbn [snd].
  apply iteration_spec in Hit. destruct Hit as (_ & _ & _ & Hf1 & _ & He & _).
  destruct (save_mesh_R dt Sp C n s Hdt HS Ht Hf) as [_ Hdiff].
  rewrite He, zr_length, Hf1. lia.
Qed.
