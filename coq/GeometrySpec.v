(* GeometrySpec.v — vocabulary of the C12 statements (transformations of triangle lists, sums) *)
From Coq Require Import NArith ZArith Bool List Lia Reals.
From SC Require Import Num Vec3 VecR Rot Mesh Geometry.
Import ListNotations.
Local Open Scope R_scope.

Notation triR := (vR * vR * vR)%type.
Definition tmap (f : vR -> vR) (p : triR) : triR := let '(a, b, c) := p in (f a, f b, f c).
Definition det3v (p : triR) : R := let '(a, b, c) := p in a ·  (b × c).
Definition rsum (l : list R) : R := fold_right Rplus 0 l.
Definition ids_in_range (nodes : list vR) (faces : list tri) : Prop :=
  Forall (fun i => (N.to_nat i < length nodes)%nat) (all_nodes faces).
Definition shift1 (p : triR) : triR := let '(a, b, c) := p in (b, c, a).
Definition rename (sigma : N -> N) (t : tri) : tri := let '(a, b, c) := t in (sigma a, sigma b, sigma c).
Definition flip1 (p : triR) : triR := let '(a, b, c) := p in (a, c, b).
Definition vsum (l : list vR) : vR := fold_right (fun a b => a +v b) (mkv 0 0 0) l.
Definition same_triangle (t u : tri) : Prop :=
  let '(a, b, c) := t in
  u = (a, b, c) \/ u = (b, c, a) \/ u = (c, a, b) \/ u = (a, c, b) \/ u = (c, b, a) \/ u = (b, a, c).
