(* Properties_C11.v — property C11: remeshing is physically neutral and selective.
   Only statements; every proof is `exact <lemma of MeshOpsPhysProofs.v>`.  Model: MeshOps.v at R. *)
From Coq Require Import NArith ZArith Bool List Lia Reals Lra.
From SC Require Import Num Vec3 VecR Mesh Geometry GeometrySpec MeshOps MeshOpsSpec MeshOpsPhysProofs.
Import ListNotations.
Local Open Scope R_scope.

(* every operation conserves the total momentum of the cell's nodes; hence so does every pass *)
Theorem op_conserves_momentum : forall (st st' : mstateR) (o : op),
  nodes_match st -> op_wf st o -> apply_op NumR true st o = Some st' ->
  total_momentum (ms_nodes st') = total_momentum (ms_nodes st).
Proof. exact op_momentum. Qed.
Print Assumptions op_conserves_momentum.

Theorem refine_conserves_momentum : forall (ops : list op) (st st' : mstateR),
  nodes_match st -> trace_wf true st ops -> replay NumR true st ops = Some st' ->
  total_momentum (ms_nodes st') = total_momentum (ms_nodes st).
Proof. exact replay_momentum. Qed.
Print Assumptions refine_conserves_momentum.

(* a node that the operation neither creates nor deletes keeps its position *)
Definition touched (o : op) : list N :=
  match o with OpSplit a b e => [e] | OpMerge a b i => [a; b; i] | OpSwap a b => [] end.
Theorem survivors_unmoved : forall (dynamic : bool) (st st' : mstateR) (o : op) (k : N) (v : nstateR),
  apply_op NumR dynamic st o = Some st' -> ~ In k (touched o) -> nget (ms_nodes st) k = Some v ->
  exists v', nget (ms_nodes st') k = Some v' /\ ns_pos v' = ns_pos v.
Proof. exact op_survivors. Qed.
Print Assumptions survivors_unmoved.

(* every new node is the midpoint of the edge it replaces or splits *)
Theorem new_nodes_at_midpoints : forall (dynamic : bool) (st st' : mstateR) (o : op) (a b e : N) (va vb : nstateR),
  (o = OpSplit a b e \/ o = OpMerge a b e) -> e <> a -> e <> b ->
  apply_op NumR dynamic st o = Some st' -> nget (ms_nodes st) a = Some va -> nget (ms_nodes st) b = Some vb ->
  exists ve, nget (ms_nodes st') e = Some ve /\ ns_pos ve = (ns_pos vb +v ns_pos va) *v (1 / 2).
Proof. exact op_midpoint. Qed.
Print Assumptions new_nodes_at_midpoints.

(* the triangles an edge split produces carry the label of the triangle they divide; all others are untouched *)
Theorem split_inherits_face_type : forall (s : list ltri) (a b e : N) (t : tri) (ty : nat),
  a <> b -> In (t, ty) (split s a b e) ->
  In (t, ty) s \/ exists t0, In (t0, ty) s /\ has_uedge t0 a b = true /\
     (t = (a, e, third t0 a b) \/ t = (e, b, third t0 a b) \/ t = (b, e, third t0 a b) \/ t = (e, a, third t0 a b)).
Proof. exact split_labels. Qed.
Print Assumptions split_inherits_face_type.

(* an edge split changes neither the enclosed volume nor the area *)
Theorem split_keeps_area : forall (pa pb pc : vR),
  let pe := (pb +v pa) *v (1 / 2) in
  face_area NumR (pa, pe, pc) + face_area NumR (pe, pb, pc) = face_area NumR (pa, pb, pc).
Proof. exact split_area. Qed.
Print Assumptions split_keeps_area.

Theorem split_keeps_volume_term : forall (pa pb pc : vR),
  let pe := (pb +v pa) *v (1 / 2) in
  vol_term NumR (pa, pe, pc) + vol_term NumR (pe, pb, pc) = vol_term NumR (pa, pb, pc).
Proof. exact split_vol_term. Qed.
Print Assumptions split_keeps_volume_term.

(* selectivity: an operation whose guard holds splits only an edge longer than the maximum, collapses only an
   edge shorter than the minimum that satisfies the link condition *)
Theorem split_only_long : forall (lmin2 lmax2 : R) (st : mstateR) (a b e : N) (va vb : nstateR),
  guard_ok NumR lmin2 lmax2 st (OpSplit a b e) = true ->
  nget (ms_nodes st) a = Some va -> nget (ms_nodes st) b = Some vb ->
  lmax2 < sqn (ns_pos va -v ns_pos vb).
Proof. exact guard_split. Qed.
Print Assumptions split_only_long.

Theorem merge_only_short : forall (lmin2 lmax2 : R) (st : mstateR) (a b i : N) (va vb : nstateR),
  guard_ok NumR lmin2 lmax2 st (OpMerge a b i) = true ->
  nget (ms_nodes st) a = Some va -> nget (ms_nodes st) b = Some vb ->
  sqn (ns_pos va -v ns_pos vb) < lmin2 /\ link_ok (ms_faces st) a b = true.
Proof. exact guard_merge. Qed.
Print Assumptions merge_only_short.

(* ------------------------------------------------------------------------------------------------------------------
   The control of refine_mesh (the while loop over the work set), model RefineLoop.v.  The order in which the work set
   yields its edges and the node slots handed out by the cell store are inputs ("pop script"); the decisions, the
   counter, the guard of the loop and its exception are computed, and compared pop by pop with the implementation. *)
From SC Require Import RefineLoop RefineLoopProofs.
From SC Require RefinerTie.

(* whatever the order of the pops: the pass is a replay of the operations it lists, each of them satisfied its length
   predicate (and the link condition) when it fired, only splits and collapses occur, the counter counts them *)
Theorem refine_loop_is_a_guarded_replay : forall (dynamic : bool) (lmin2 lmax2 : R) (st : mstateR) (script : list pop) (left : nat)
                                                 (st' : mstateR) (iter : nat) (ops : list op),
  result_of (refine_loop NumR dynamic lmin2 lmax2 st script left) = Some (st', iter, ops) ->
  replay NumR dynamic st ops = Some st' /\ guards_ok NumR dynamic lmin2 lmax2 st ops = true /\ iter = length ops /\
  (forall o, In o ops -> is_split o = true \/ is_merge o = true).
Proof. exact loop_is_replay. Qed.
Print Assumptions refine_loop_is_a_guarded_replay.

(* a mesh that already satisfies the length band is left completely unchanged, in any order of the work set, and
   nothing is thrown *)
Theorem conforming_mesh_is_a_fixpoint : forall (dynamic : bool) (lmin2 lmax2 : R) (st : mstateR) (script : list pop),
  in_band lmin2 lmax2 st -> (0 < nb_edges st)%nat ->
  (forall p, In p script -> edge_exists (ms_faces st) (p_a p) (p_b p) = true /\ exists l, sq_len NumR st (p_a p) (p_b p) = Some l) ->
  refine_loop NumR dynamic lmin2 lmax2 st script 0 = Returned st 0 [] 0.
Proof. exact loop_fixpoint. Qed.
Print Assumptions conforming_mesh_is_a_fixpoint.

(* the failure report of the loop is raised exactly when 4 * collapses = E0 + 2 * splits ... *)
Theorem instability_report_arithmetic : forall (dynamic : bool) (lmin2 lmax2 : R) (st : mstateR) (script : list pop) (left : nat)
                                               (st' : mstateR) (iter : nat) (ops : list op),
  ValidSurface (tris (ms_faces st)) -> refine_loop NumR dynamic lmin2 lmax2 st script left = Threw st' iter ops ->
  trace_wf dynamic st ops ->
  (4 * nmerges ops = nb_edges st + 2 * nsplits ops)%nat.
Proof. exact threw_arith. Qed.
Print Assumptions instability_report_arithmetic.

(* ... hence never by a pass without collapses, however many splits it performs: the loop's own guard does not bound a
   cascade of splits (the clause "always returns after a bounded number of operations" is NOT enforced by the guard) *)
Theorem split_cascade_is_never_reported : forall (dynamic : bool) (lmin2 lmax2 : R) (st : mstateR) (script : list pop) (left : nat)
                                                 (st' : mstateR) (iter : nat) (ops : list op),
  ValidSurface (tris (ms_faces st)) -> (0 < nb_edges st)%nat -> trace_wf dynamic st ops -> nmerges ops = 0%nat ->
  refine_loop NumR dynamic lmin2 lmax2 st script left <> Threw st' iter ops.
Proof. exact split_cascade_never_throws. Qed.
Print Assumptions split_cascade_is_never_reported.

(* refutation of a bound that is independent of the geometry: with l_max = 1 fixed, for every n there is a closed mesh
   (a tetrahedron with one edge of length 2^n) on which the loop performs n operations and returns without a report *)
Theorem refine_operations_unbounded_refuted : forall n : nat, exists (st : mstateR) (script : list pop),
  ValidSurface (tris (ms_faces st)) /\
  exists (st' : mstateR) (ops : list op), refine_loop NumR true 0%R 1%R st script 0 = Returned st' n ops 0 /\ length ops = n.
Proof. exact unbounded_operations. Qed.
Print Assumptions refine_operations_unbounded_refuted.

(* the loop can also be left silently with edges still waiting (guard failed with iteration > edge count): only when
   collapses dominate *)
Theorem silent_exit_arithmetic : forall (dynamic : bool) (lmin2 lmax2 : R) (st : mstateR) (script : list pop) (left : nat)
                                        (st' : mstateR) (iter : nat) (ops : list op),
  ValidSurface (tris (ms_faces st)) -> refine_loop NumR dynamic lmin2 lmax2 st script left = Returned st' iter ops left ->
  (0 < left)%nat -> trace_wf dynamic st ops ->
  (nb_edges st + 2 * nsplits ops < 4 * nmerges ops)%nat.
Proof. exact leftover_arith. Qed.
Print Assumptions silent_exit_arithmetic.

(* THE TIE TO THE SOURCE (RefinerTie.v): Refiner_gen.v is regenerated from src/triangulation_modules/local_mesh_refiner.cpp on
   every run.  The position and the momenta written by split_edge and merge_edge and the squared bounds are the model's, by
   reflexivity; the model's split and merge are these pieces put together; the decision for a popped edge (split above l_max^2,
   merge below l_min^2 if it can be merged, otherwise nothing; the counter moves exactly when an operation is applied) is the
   generated if / else-if tree; and the four triangles an edge split creates, each with the label of the triangle it replaces,
   are the model's split_tri up to the rotation in which the code lists them. *)
Theorem refiner_arithmetic_is_what_the_source_says : RefinerTie.refiner_arith_tie.
Proof. exact RefinerTie.refiner_arithmetic_is_what_the_source_says. Qed.
Print Assumptions refiner_arithmetic_is_what_the_source_says.

Theorem split_and_merge_use_the_generated_arithmetic :
  forall (T : Type) (Nm : Num.Num T) (st : @MeshOps.mstate T) (a b e : N) (na nb : @MeshOps.nstate T),
    MeshOps.nget (MeshOps.ms_nodes st) a = Some na -> MeshOps.nget (MeshOps.ms_nodes st) b = Some nb ->
    MeshOps.edge_exists (MeshOps.ms_faces st) a b = true ->
    MeshOps.apply_op Nm true st (MeshOps.OpSplit a b e) =
      Some (MeshOps.mkms (MeshOps.split (MeshOps.ms_faces st) a b e)
                 (MeshOps.nset (MeshOps.nset (MeshOps.nset (MeshOps.ms_nodes st) a (MeshOps.mkns (MeshOps.ns_pos na) (Refiner_gen.split_mom_a_gen Nm (MeshOps.ns_mom na) (MeshOps.ns_mom nb))))
                             b (MeshOps.mkns (MeshOps.ns_pos nb) (Refiner_gen.split_mom_b_gen Nm (MeshOps.ns_mom na) (MeshOps.ns_mom nb))))
                       e (MeshOps.mkns (Refiner_gen.split_pos_gen Nm (MeshOps.ns_pos na) (MeshOps.ns_pos nb)) (Refiner_gen.split_mom_e_gen Nm (MeshOps.ns_mom na) (MeshOps.ns_mom nb))))) /\
    MeshOps.apply_op Nm true st (MeshOps.OpMerge a b e) =
      Some (MeshOps.mkms (MeshOps.collapse (MeshOps.ms_faces st) a b e)
                 (MeshOps.nset (MeshOps.ndel (MeshOps.ndel (MeshOps.ms_nodes st) a) b) e
                    (MeshOps.mkns (Refiner_gen.merge_pos_gen Nm (MeshOps.ns_pos na) (MeshOps.ns_pos nb)) (Refiner_gen.merge_mom_gen Nm (MeshOps.ns_mom na) (MeshOps.ns_mom nb))))).
Proof. exact RefinerTie.apply_op_uses_the_generated_arithmetic. Qed.
Print Assumptions split_and_merge_use_the_generated_arithmetic.

Theorem decision_for_a_popped_edge_is_what_the_source_says :
  forall (T : Type) (Nm : Num.Num T) (lmin2 lmax2 : T) (st : @MeshOps.mstate T) (a b : N) (na nb : @MeshOps.nstate T),
    MeshOps.nget (MeshOps.ms_nodes st) a = Some na -> MeshOps.nget (MeshOps.ms_nodes st) b = Some nb ->
    MeshOps.edge_exists (MeshOps.ms_faces st) a b = true ->
    RefineLoop.decide Nm lmin2 lmax2 st a b =
      Refiner_gen.decision_gen Nm lmin2 lmax2 (Refiner_gen.sq_len_gen Nm (MeshOps.ns_pos na) (MeshOps.ns_pos nb)) (RefineLoop.can_merge st a b).
Proof. exact RefinerTie.decide_is_the_generated_tree. Qed.
Print Assumptions decision_for_a_popped_edge_is_what_the_source_says.

Theorem split_creates_the_models_triangles_with_their_labels :
  forall (a b e x y z : N) (ty : nat),
    x <> y -> y <> z -> x <> z -> a <> b ->
    MeshOps.has_dir (x, y, z) a b = true \/ MeshOps.has_dir (x, y, z) b a = true ->
    RefinerTie.faces_match (MeshOps.split_tri a b e ((x, y, z), ty))
      (Refiner_gen.split_faces_gen (Refiner_gen.same_orientation_gen (x, y, z) a b) a b (MeshOps.third (x, y, z) a b) e ty) = true.
Proof. exact RefinerTie.split_tri_is_what_the_source_creates. Qed.
Print Assumptions split_creates_the_models_triangles_with_their_labels.

(* WHAT THE REGENERATED CODE DOES, stated about the translated expressions themselves (over R): an edge split hands the momentum of
   its two end points on unchanged in total, a collapse gives the new node their sum, the new node is the midpoint, and the decision
   tree of refine_mesh never splits an edge that is not longer than l_max nor merges one that is not shorter than l_min. *)
Theorem regenerated_split_conserves_momentum : forall ma mb : vec3 R,
  vadd NumR (vadd NumR (Refiner_gen.split_mom_a_gen NumR ma mb) (Refiner_gen.split_mom_b_gen NumR ma mb)) (Refiner_gen.split_mom_e_gen NumR ma mb)
  = vadd NumR ma mb.
Proof. exact RefinerTie.generated_split_conserves_momentum. Qed.
Print Assumptions regenerated_split_conserves_momentum.

Theorem regenerated_merge_conserves_momentum : forall ma mb : vec3 R, Refiner_gen.merge_mom_gen NumR ma mb = vadd NumR ma mb.
Proof. exact RefinerTie.generated_merge_conserves_momentum. Qed.
Print Assumptions regenerated_merge_conserves_momentum.

Theorem regenerated_new_node_is_the_midpoint : forall pa pb : vec3 R,
  Refiner_gen.split_pos_gen NumR pa pb = Refiner_gen.merge_pos_gen NumR pa pb /\
  vsub NumR (Refiner_gen.split_pos_gen NumR pa pb) pa = vsub NumR pb (Refiner_gen.split_pos_gen NumR pa pb).
Proof. exact RefinerTie.generated_new_node_is_the_midpoint. Qed.
Print Assumptions regenerated_new_node_is_the_midpoint.

Theorem regenerated_decision_is_selective : forall (lmin2 lmax2 l : R) (cm : bool),
  (Refiner_gen.decision_gen NumR lmin2 lmax2 l cm = RefineLoop.DSplit -> (lmax2 < l)%R) /\
  (Refiner_gen.decision_gen NumR lmin2 lmax2 l cm = RefineLoop.DMerge -> (l < lmin2)%R /\ cm = true /\ ~ (lmax2 < l)%R).
Proof. exact RefinerTie.generated_decision_is_selective. Qed.
Print Assumptions regenerated_decision_is_selective.
