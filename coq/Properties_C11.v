(* Properties_C11.v — property C11: remeshing is physically neutral and selective.
   Only statements; every proof is `exact <lemma of MeshOpsPhysProofs.v>`.  Model: MeshOps.v at R. *)
From Coq Require Import NArith ZArith Bool List Lia Reals Lra.
From SC Require Import Num Vec3 VecR Mesh Geometry GeometrySpec MeshOps MeshOpsSpec MeshOpsPhysProofs.
Import ListNotations.
Local Open Scope R_scope.

(* every operation conserves the total momentum of the cell's nodes; hence so does every pass *)
Theorem op_conserves_momentum : forall (st st' : mstateR) (o : op),
  nodes_match st -> op_wf st o -> apply_op NumR true st o = Some st' ->
  total_momentum (ms_nodes st') = total_momentum (ms_nodes st).
Proof. exact op_momentum. Qed.
Print Assumptions op_conserves_momentum.

Theorem refine_conserves_momentum : forall (ops : list op) (st st' : mstateR),
  nodes_match st -> trace_wf true st ops -> replay NumR true st ops = Some st' ->
  total_momentum (ms_nodes st') = total_momentum (ms_nodes st).
Proof. exact replay_momentum. Qed.
Print Assumptions refine_conserves_momentum.

(* a node that the operation neither creates nor deletes keeps its position *)
Definition touched (o : op) : list N :=
  match o with OpSplit a b e => [e] | OpMerge a b i => [a; b; i] | OpSwap a b => [] end.
Theorem survivors_unmoved : forall (dynamic : bool) (st st' : mstateR) (o : op) (k : N) (v : nstateR),
  apply_op NumR dynamic st o = Some st' -> ~ In k (touched o) -> nget (ms_nodes st) k = Some v ->
  exists v', nget (ms_nodes st') k = Some v' /\ ns_pos v' = ns_pos v.
Proof. exact op_survivors. Qed.
Print Assumptions survivors_unmoved.

(* every new node is the midpoint of the edge it replaces or splits *)
Theorem new_nodes_at_midpoints : forall (dynamic : bool) (st st' : mstateR) (o : op) (a b e : N) (va vb : nstateR),
  (o = OpSplit a b e \/ o = OpMerge a b e) -> e <> a -> e <> b ->
  apply_op NumR dynamic st o = Some st' -> nget (ms_nodes st) a = Some va -> nget (ms_nodes st) b = Some vb ->
  exists ve, nget (ms_nodes st') e = Some ve /\ ns_pos ve = (ns_pos vb +v ns_pos va) *v (1 / 2).
Proof. exact op_midpoint. Qed.
Print Assumptions new_nodes_at_midpoints.

(* the triangles an edge split produces carry the label of the triangle they divide; all others are untouched *)
Theorem split_inherits_face_type : forall (s : list ltri) (a b e : N) (t : tri) (ty : nat),
  a <> b -> In (t, ty) (split s a b e) ->
  In (t, ty) s \/ exists t0, In (t0, ty) s /\ has_uedge t0 a b = true /\
     (t = (a, e, third t0 a b) \/ t = (e, b, third t0 a b) \/ t = (b, e, third t0 a b) \/ t = (e, a, third t0 a b)).
Proof. exact split_labels. Qed.
Print Assumptions split_inherits_face_type.

(* an edge split changes neither the enclosed volume nor the area *)
Theorem split_keeps_area : forall (pa pb pc : vR),
  let pe := (pb +v pa) *v (1 / 2) in
  face_area NumR (pa, pe, pc) + face_area NumR (pe, pb, pc) = face_area NumR (pa, pb, pc).
Proof. exact split_area. Qed.
Print Assumptions split_keeps_area.

Theorem split_keeps_volume_term : forall (pa pb pc : vR),
  let pe := (pb +v pa) *v (1 / 2) in
  vol_term NumR (pa, pe, pc) + vol_term NumR (pe, pb, pc) = vol_term NumR (pa, pb, pc).
Proof. exact split_vol_term. Qed.
Print Assumptions split_keeps_volume_term.

(* selectivity: an operation whose guard holds splits only an edge longer than the maximum, collapses only an
   edge shorter than the minimum that satisfies the link condition *)
Theorem split_only_long : forall (lmin2 lmax2 : R) (st : mstateR) (a b e : N) (va vb : nstateR),
  guard_ok NumR lmin2 lmax2 st (OpSplit a b e) = true ->
  nget (ms_nodes st) a = Some va -> nget (ms_nodes st) b = Some vb ->
  lmax2 < sqn (ns_pos va -v ns_pos vb).
Proof. exact guard_split. Qed.
Print Assumptions split_only_long.

Theorem merge_only_short : forall (lmin2 lmax2 : R) (st : mstateR) (a b i : N) (va vb : nstateR),
  guard_ok NumR lmin2 lmax2 st (OpMerge a b i) = true ->
  nget (ms_nodes st) a = Some va -> nget (ms_nodes st) b = Some vb ->
  sqn (ns_pos va -v ns_pos vb) < lmin2 /\ link_ok (ms_faces st) a b = true.
Proof. exact guard_merge. Qed.
Print Assumptions merge_only_short.
