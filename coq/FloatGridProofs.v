(* FloatGridProofs.v — the voxel index of the spatial grids is monotone AT BINARY64.
   GridProofs.v proves the facts over R; here the same function (Grid.raw_idx1 / Grid.idx1 instantiated with
   NumF and FloatIO.f_floorZ, i.e. exactly what is extracted and run) is shown monotone on Coq's primitive
   floats, through Flocq's bridge (IEEE754/PrimFloat.v): subtraction and division are correctly rounded
   (round to nearest even), rounding is monotone, division by a positive number is monotone, floor is monotone.
   No axiom of our own: only the standard ones of Reals and the specification axioms of primitive floats
   (Floats.FloatAxioms) on which Flocq's PrimFloat.v rests; they are listed by Print Assumptions below. *)
From Flocq Require Import Core.Zaux Core.Raux Core.Round_NE Core.Defs Core.Generic_fmt Core.FLT Core.Float_prop
                          IEEE754.BinarySingleNaN IEEE754.PrimFloat.
From Coq Require Import ZArith Reals Floats Lia Lra Bool.
From SC Require Import Num Grid FloatIO.
Local Open Scope Z_scope.

(* Flocq's finiteness test on binary_float (Coq's PrimFloat.is_finite is the same thing on float: ffin_is_finite) *)
Notation is_finite := BinarySingleNaN.is_finite.

(* the very instances Flocq's bridge lemmas (sub_equiv, div_equiv) are stated with *)
Local Existing Instance IEEE754.PrimFloat.Hprec.
Local Existing Instance IEEE754.PrimFloat.Hmax.

(* real value of a binary64 number (0 for nan and the infinities) and finiteness *)
Definition fR (x : float) : R := B2R (Prim2B x).
Definition ffin (x : float) : bool := is_finite (Prim2B x).

Lemma ffin_is_finite x : ffin x = PrimFloat.is_finite x.
Proof. unfold ffin; now rewrite is_finite_equiv. Qed.

(* ------------------------------------------------------------------ 1. floor *)
Theorem f_floorZ_spec : forall x, is_finite (Prim2B x) = true -> f_floorZ x = Zfloor (B2R (Prim2B x)).
Proof.
  intros x Hf. unfold f_floorZ, f_decode. rewrite <- B2SF_Prim2B.
  destruct (Prim2B x) as [s|s| |s m e He]; try discriminate Hf; simpl B2SF; cbv iota.
  - simpl. now rewrite Zfloor_IZR.
  - unfold B2R, F2R, Fnum, Fexp.
    replace (if s then Z.neg m else Z.pos m) with (cond_Zopp s (Z.pos m)) by now destruct s.
    set (n := cond_Zopp s (Z.pos m)).
    destruct (Z.leb_spec 0 e) as [H|H].
    + rewrite <- IZR_Zpower by assumption. rewrite <- mult_IZR. now rewrite Zfloor_IZR.
    + replace e with (- (- e)) at 2 by lia. rewrite bpow_opp.
      rewrite <- IZR_Zpower by lia.
      change (IZR n * / IZR (radix2 ^ - e))%R with (IZR n / IZR (radix2 ^ - e))%R.
      rewrite Zfloor_div. reflexivity.
      change (radix_val radix2) with 2. apply Z.pow_nonzero; lia.
Qed.

(* ------------------------------------------------------------------ correctly rounded operations *)
Notation rnd64 := (round radix2 (fexp prec emax) ZnearestE).

(* a finite difference has finite operands *)
Lemma Bminus_finite_inv (a b : binary_float prec emax) :
  is_finite (Bminus mode_NE a b) = true -> is_finite a = true /\ is_finite b = true.
Proof.
  destruct a as [sa|sa| |sa ma ea Ha], b as [sb|sb| |sb mb eb Hb]; simpl; auto;
    try discriminate; try (destruct sa, sb; simpl; auto; discriminate).
Qed.

(* a finite quotient has a finite numerator *)
Lemma Bdiv_finite_inv (a b : binary_float prec emax) :
  is_finite (Bdiv mode_NE a b) = true -> is_finite a = true.
Proof.
  destruct a as [sa|sa| |sa ma ea Ha], b as [sb|sb| |sb mb eb Hb]; simpl; auto; discriminate.
Qed.

Lemma f_sub_finite_inv x y : ffin (x - y)%float = true -> ffin x = true /\ ffin y = true.
Proof. unfold ffin; rewrite sub_equiv; apply Bminus_finite_inv. Qed.

Lemma f_div_finite_inv x y : ffin (x / y)%float = true -> ffin x = true.
Proof. unfold ffin; rewrite div_equiv; apply Bdiv_finite_inv. Qed.

(* a finite difference is the correctly rounded real difference (finite = no overflow) *)
Lemma f_sub_R x y : ffin (x - y)%float = true -> fR (x - y)%float = rnd64 (fR x - fR y)%R.
Proof.
  intros Hf. destruct (f_sub_finite_inv _ _ Hf) as [Hx Hy].
  unfold ffin, fR in *. rewrite sub_equiv in *.
  generalize (Bminus_correct prec emax _ _ mode_NE (Prim2B x) (Prim2B y) Hx Hy).
  destruct Rlt_bool.
  - intros [H _]; exact H.
  - intros [H _]. rewrite <- is_finite_SF_B2SF, H in Hf. discriminate Hf.
Qed.

(* a finite quotient by a nonzero number is the correctly rounded real quotient *)
Lemma f_div_R x y : fR y <> 0%R -> ffin (x / y)%float = true -> fR (x / y)%float = rnd64 (fR x / fR y)%R.
Proof.
  intros Hy Hf. unfold ffin, fR in *. rewrite div_equiv in *.
  generalize (Bdiv_correct prec emax _ _ mode_NE (Prim2B x) (Prim2B y) Hy).
  destruct Rlt_bool.
  - intros [H _]; exact H.
  - intros H. rewrite <- is_finite_SF_B2SF, H in Hf. discriminate Hf.
Qed.

Lemma rnd64_le a b : (a <= b)%R -> (rnd64 a <= rnd64 b)%R.
Proof. apply round_le; [apply (fexp_correct prec emax); exact IEEE754.PrimFloat.Hprec | apply valid_rnd_N]. Qed.

(* ------------------------------------------------------------------ 2. raw index *)
(* weakest form: the two quotients are finite (which forces x, y, lo and both differences to be finite),
   the voxel size is positive (which forces it to be finite) *)
Theorem f_raw_idx1_monotone_weak : forall lo s x y : float,
  (0 < B2R (Prim2B s))%R ->
  (B2R (Prim2B x) <= B2R (Prim2B y))%R ->
  is_finite (Prim2B (PrimFloat.div (PrimFloat.sub x lo) s)) = true ->
  is_finite (Prim2B (PrimFloat.div (PrimFloat.sub y lo) s)) = true ->
  raw_idx1 NumF f_floorZ lo s x <= raw_idx1 NumF f_floorZ lo s y.
Proof.
  intros lo s x y Hs Hxy Hqx Hqy. unfold raw_idx1; simpl.
  rewrite !f_floorZ_spec by assumption. apply Zfloor_le.
  fold (fR s) in Hs. fold (fR x) (fR y) in Hxy.
  change (fR ((x - lo) / s)%float <= fR ((y - lo) / s)%float)%R.
  assert (Hdx := f_div_finite_inv _ _ Hqx). assert (Hdy := f_div_finite_inv _ _ Hqy).
  rewrite !f_div_R by (assumption || lra).
  rewrite !f_sub_R by assumption.
  apply rnd64_le. unfold Rdiv. apply Rmult_le_compat_r.
  - left. now apply Rinv_0_lt_compat.
  - apply rnd64_le. lra.
Qed.

Theorem f_raw_idx1_monotone : forall lo s x y : float,
  is_finite (Prim2B lo) = true -> is_finite (Prim2B s) = true ->
  is_finite (Prim2B x) = true -> is_finite (Prim2B y) = true ->
  (0 < B2R (Prim2B s))%R ->
  (B2R (Prim2B x) <= B2R (Prim2B y))%R ->
  is_finite (Prim2B (PrimFloat.sub x lo)) = true ->
  is_finite (Prim2B (PrimFloat.sub y lo)) = true ->
  is_finite (Prim2B (PrimFloat.div (PrimFloat.sub x lo) s)) = true ->
  is_finite (Prim2B (PrimFloat.div (PrimFloat.sub y lo) s)) = true ->
  raw_idx1 NumF f_floorZ lo s x <= raw_idx1 NumF f_floorZ lo s y.
Proof. intros; now apply f_raw_idx1_monotone_weak. Qed.

(* ------------------------------------------------------------------ 3. clamped index *)
Theorem f_idx1_monotone : forall (lo s : float) (nb : Z) (x y : float),
  is_finite (Prim2B lo) = true -> is_finite (Prim2B s) = true ->
  is_finite (Prim2B x) = true -> is_finite (Prim2B y) = true ->
  (0 < B2R (Prim2B s))%R ->
  (B2R (Prim2B x) <= B2R (Prim2B y))%R ->
  is_finite (Prim2B (PrimFloat.sub x lo)) = true ->
  is_finite (Prim2B (PrimFloat.sub y lo)) = true ->
  is_finite (Prim2B (PrimFloat.div (PrimFloat.sub x lo) s)) = true ->
  is_finite (Prim2B (PrimFloat.div (PrimFloat.sub y lo) s)) = true ->
  idx1 NumF f_floorZ lo s nb x <= idx1 NumF f_floorZ lo s nb y.
Proof.
  intros lo s nb x y Hlo Hs Hx Hy Hs0 Hxy Hdx Hdy Hqx Hqy. unfold idx1.
  apply Z.min_le_compat_r. now apply f_raw_idx1_monotone.
Qed.

Theorem f_idx1_monotone_weak : forall (lo s : float) (nb : Z) (x y : float),
  (0 < B2R (Prim2B s))%R ->
  (B2R (Prim2B x) <= B2R (Prim2B y))%R ->
  is_finite (Prim2B (PrimFloat.div (PrimFloat.sub x lo) s)) = true ->
  is_finite (Prim2B (PrimFloat.div (PrimFloat.sub y lo) s)) = true ->
  idx1 NumF f_floorZ lo s nb x <= idx1 NumF f_floorZ lo s nb y.
Proof.
  intros. unfold idx1. apply Z.min_le_compat_r. now apply f_raw_idx1_monotone_weak.
Qed.

(* ------------------------------------------------------------------ 4. a point between two points *)
Theorem f_idx1_between : forall (lo s : float) (nb : Z) (a x b : float),
  is_finite (Prim2B lo) = true -> is_finite (Prim2B s) = true ->
  is_finite (Prim2B a) = true -> is_finite (Prim2B x) = true -> is_finite (Prim2B b) = true ->
  (0 < B2R (Prim2B s))%R ->
  (B2R (Prim2B a) <= B2R (Prim2B x) <= B2R (Prim2B b))%R ->
  is_finite (Prim2B (PrimFloat.sub a lo)) = true ->
  is_finite (Prim2B (PrimFloat.sub x lo)) = true ->
  is_finite (Prim2B (PrimFloat.sub b lo)) = true ->
  is_finite (Prim2B (PrimFloat.div (PrimFloat.sub a lo) s)) = true ->
  is_finite (Prim2B (PrimFloat.div (PrimFloat.sub x lo) s)) = true ->
  is_finite (Prim2B (PrimFloat.div (PrimFloat.sub b lo) s)) = true ->
  idx1 NumF f_floorZ lo s nb a <= idx1 NumF f_floorZ lo s nb x <= idx1 NumF f_floorZ lo s nb b.
Proof.
  intros lo s nb a x b Hlo Hs Ha Hx Hb Hs0 [Hax Hxb] Hda Hdx Hdb Hqa Hqx Hqb.
  split; apply f_idx1_monotone; assumption.
Qed.

(* Stronger: for the point in between nothing has to be assumed about its intermediate results, they cannot
   overflow when those of the two end points do not (rounding is monotone, so they are squeezed between two
   finite floats). Only the finiteness of x itself stays: an infinite x has B2R = 0 and would pass the order
   hypothesis. *)
Lemma rnd64_squeeze_lt_emax (u v w : R) (fa fb : binary_float prec emax) :
  (u <= v <= w)%R -> B2R fa = rnd64 u -> B2R fb = rnd64 w ->
  Rlt_bool (Rabs (rnd64 v)) (bpow radix2 emax) = true.
Proof.
  intros [Huv Hvw] Ha Hb. apply Rlt_bool_true.
  assert (H1 := rnd64_le _ _ Huv). assert (H2 := rnd64_le _ _ Hvw).
  assert (Ba := abs_B2R_lt_emax prec emax fa). assert (Bb := abs_B2R_lt_emax prec emax fb).
  rewrite Ha in Ba. rewrite Hb in Bb.
  apply Rabs_def2 in Ba. apply Rabs_def2 in Bb. apply Rabs_def1; lra.
Qed.

Lemma f_sub_finite_between lo a x b :
  ffin x = true -> (fR a <= fR x <= fR b)%R ->
  ffin (a - lo)%float = true -> ffin (b - lo)%float = true -> ffin (x - lo)%float = true.
Proof.
  intros Hx Hb Hda Hdb.
  assert (Ra := f_sub_R _ _ Hda). assert (Rb := f_sub_R _ _ Hdb).
  destruct (f_sub_finite_inv _ _ Hda) as [_ Hlo].
  unfold ffin, fR in *. rewrite sub_equiv in *.
  generalize (Bminus_correct prec emax _ _ mode_NE (Prim2B x) (Prim2B lo) Hx Hlo).
  assert (E : (B2R (Prim2B a) - B2R (Prim2B lo) <= B2R (Prim2B x) - B2R (Prim2B lo)
               <= B2R (Prim2B b) - B2R (Prim2B lo))%R) by lra.
  change (round_mode mode_NE) with ZnearestE.
  rewrite (rnd64_squeeze_lt_emax _ _ _ _ _ E Ra Rb).
  now intros [_ [H _]].
Qed.

Lemma f_div_finite_between s a x b :
  (0 < fR s)%R -> ffin x = true -> (fR a <= fR x <= fR b)%R ->
  ffin (a / s)%float = true -> ffin (b / s)%float = true -> ffin (x / s)%float = true.
Proof.
  intros Hs Hx Hb Hqa Hqb.
  assert (Hs0 : fR s <> 0%R) by lra.
  assert (Ra := f_div_R _ _ Hs0 Hqa). assert (Rb := f_div_R _ _ Hs0 Hqb).
  assert (Hi : (0 < / fR s)%R) by now apply Rinv_0_lt_compat.
  unfold ffin, fR in *. rewrite div_equiv in *.
  generalize (Bdiv_correct prec emax _ _ mode_NE (Prim2B x) (Prim2B s) Hs0).
  change (round_mode mode_NE) with ZnearestE.
  assert (E : (B2R (Prim2B a) / B2R (Prim2B s) <= B2R (Prim2B x) / B2R (Prim2B s)
               <= B2R (Prim2B b) / B2R (Prim2B s))%R)
    by (split; apply Rmult_le_compat_r; lra).
  rewrite (rnd64_squeeze_lt_emax _ _ _ _ _ E Ra Rb).
  intros [_ [H _]]. now rewrite H.
Qed.

Theorem f_idx1_between_weak : forall (lo s : float) (nb : Z) (a x b : float),
  is_finite (Prim2B x) = true ->
  (0 < B2R (Prim2B s))%R ->
  (B2R (Prim2B a) <= B2R (Prim2B x) <= B2R (Prim2B b))%R ->
  is_finite (Prim2B (PrimFloat.div (PrimFloat.sub a lo) s)) = true ->
  is_finite (Prim2B (PrimFloat.div (PrimFloat.sub b lo) s)) = true ->
  is_finite (Prim2B (PrimFloat.div (PrimFloat.sub x lo) s)) = true /\
  idx1 NumF f_floorZ lo s nb a <= idx1 NumF f_floorZ lo s nb x <= idx1 NumF f_floorZ lo s nb b.
Proof.
  intros lo s nb a x b Hx Hs0 Hb Hqa Hqb.
  assert (Hda := f_div_finite_inv _ _ Hqa). assert (Hdb := f_div_finite_inv _ _ Hqb).
  assert (Hdx : ffin (x - lo)%float = true) by (eapply f_sub_finite_between; eassumption).
  assert (Hqx : ffin ((x - lo) / s)%float = true).
  { apply (f_div_finite_between s (a - lo)%float (x - lo)%float (b - lo)%float); try assumption.
    rewrite !f_sub_R by assumption. destruct Hb as [H1 H2].
    split; apply rnd64_le; unfold fR; lra. }
  split; [exact Hqx|].
  destruct Hb as [H1 H2]. split; apply f_idx1_monotone_weak; assumption.
Qed.

(* ------------------------------------------------------------------ order of the reals = float comparison *)
(* on finite floats the hardware comparisons decide the order of the real values; this turns the order
   hypotheses above into something that is checked by computation *)
Lemma f_ltb_R x y : is_finite (Prim2B x) = true -> is_finite (Prim2B y) = true ->
  PrimFloat.ltb x y = true -> (B2R (Prim2B x) < B2R (Prim2B y))%R.
Proof.
  intros Hx Hy. rewrite ltb_equiv, (Bltb_correct _ _ _ _ Hx Hy).
  now destruct (Rlt_bool_spec (B2R (Prim2B x)) (B2R (Prim2B y))).
Qed.

Lemma f_leb_R x y : is_finite (Prim2B x) = true -> is_finite (Prim2B y) = true ->
  PrimFloat.leb x y = true -> (B2R (Prim2B x) <= B2R (Prim2B y))%R.
Proof.
  intros Hx Hy. rewrite leb_equiv, (Bleb_correct _ _ _ _ Hx Hy).
  now destruct (Rle_bool_spec (B2R (Prim2B x)) (B2R (Prim2B y))).
Qed.

Lemma f_zero_R : B2R (Prim2B 0%float) = 0%R.
Proof. reflexivity. Qed.

(* ------------------------------------------------------------------ non-vacuity *)
(* lo = -0.1, s = 0.25, points 0.3 <= 0.7 <= 1.9 (the binary64 numbers nearest to these decimals, written in
   hexadecimal to be exact) on 8 voxels: every hypothesis of f_idx1_between (which contains those of
   f_raw_idx1_monotone and f_idx1_monotone, twice) holds, literally as stated there; the indices are 1 <= 3 <= 7. *)
Module Witness.
  Definition lo := (-0x1.999999999999ap-4)%float.
  Definition s := 0x1p-2%float.
  Definition a := 0x1.3333333333333p-2%float.
  Definition x := 0x1.6666666666666p-1%float.
  Definition b := 0x1.e666666666666p+0%float.
End Witness.

Example f_idx1_between_witness :
  let lo := Witness.lo in let s := Witness.s in
  let a := Witness.a in let x := Witness.x in let b := Witness.b in
  (is_finite (Prim2B lo) = true /\ is_finite (Prim2B s) = true /\
   is_finite (Prim2B a) = true /\ is_finite (Prim2B x) = true /\ is_finite (Prim2B b) = true /\
   (0 < B2R (Prim2B s))%R /\
   (B2R (Prim2B a) <= B2R (Prim2B x) <= B2R (Prim2B b))%R /\
   is_finite (Prim2B (PrimFloat.sub a lo)) = true /\
   is_finite (Prim2B (PrimFloat.sub x lo)) = true /\
   is_finite (Prim2B (PrimFloat.sub b lo)) = true /\
   is_finite (Prim2B (PrimFloat.div (PrimFloat.sub a lo) s)) = true /\
   is_finite (Prim2B (PrimFloat.div (PrimFloat.sub x lo) s)) = true /\
   is_finite (Prim2B (PrimFloat.div (PrimFloat.sub b lo) s)) = true) /\
  (idx1 NumF f_floorZ lo s 8 a, idx1 NumF f_floorZ lo s 8 x, idx1 NumF f_floorZ lo s 8 b) = (1, 3, 7) /\
  (raw_idx1 NumF f_floorZ lo s a, raw_idx1 NumF f_floorZ lo s x, raw_idx1 NumF f_floorZ lo s b) = (1, 3, 8).
Proof.
  cbv zeta.
  assert (Flo : is_finite (Prim2B Witness.lo) = true) by (vm_compute; reflexivity).
  assert (Fs : is_finite (Prim2B Witness.s) = true) by (vm_compute; reflexivity).
  assert (Fa : is_finite (Prim2B Witness.a) = true) by (vm_compute; reflexivity).
  assert (Fx : is_finite (Prim2B Witness.x) = true) by (vm_compute; reflexivity).
  assert (Fb : is_finite (Prim2B Witness.b) = true) by (vm_compute; reflexivity).
  split; [|split; vm_compute; reflexivity].
  repeat match goal with |- _ /\ _ => split end; try assumption; try (vm_compute; reflexivity).
  - rewrite <- f_zero_R. apply f_ltb_R; try assumption; vm_compute; reflexivity.
  - apply f_leb_R; try assumption; vm_compute; reflexivity.
  - apply f_leb_R; try assumption; vm_compute; reflexivity.
Qed.

(* the theorem applied to the witness *)
Example f_idx1_between_applied :
  idx1 NumF f_floorZ Witness.lo Witness.s 8 Witness.a <= idx1 NumF f_floorZ Witness.lo Witness.s 8 Witness.x
    <= idx1 NumF f_floorZ Witness.lo Witness.s 8 Witness.b.
Proof.
  destruct f_idx1_between_witness as [[? [? [? [? [? [? [? [? [? [? [? [? ?]]]]]]]]]]]] _].
  apply f_idx1_between; assumption.
Qed.

Print Assumptions f_floorZ_spec.
Print Assumptions f_raw_idx1_monotone.
Print Assumptions f_idx1_between.
Print Assumptions f_idx1_between_weak.
