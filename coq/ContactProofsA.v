(* ContactProofsA.v — proofs for property C07 (Properties_C07.v) about the contact model of Contact.v over R:
   reciprocity, range and direction of the node-triangle repulsion, no self interaction, the coupling cut-off,
   and conservation of the total force by one resolved contact and by the whole contact phase. *)
From Coq Require Import Reals Lra ZArith Bool List Lia.
From Flocq Require Import Core.Raux.
From SC Require Import Num Vec3 VecR Kernel KernelProofs Grid Contact.
Import ListNotations.
Local Open Scope R_scope.

(* ================================================================== the node-triangle interaction *)
Section Interaction.
  Variables (cut_adh cut_rep : R).
  Notation interactionR := (interaction NumR cut_adh cut_rep).
  Notation cut2_maxR := (cut2_max NumR cut_adh cut_rep).

  Definition cpa_ (p a b c : vR) : vR := bary_point a b c (k_bary (kernel NumR p a b c)).

  Definition side_test (p a b c fnormal : vR) (t1 t2 : nat) : bool :=
    let r0 := Rltb ((p -v cpa_ p a b c) ·  fnormal) 0 in
    let r1 := if Nat.eqb t1 0 && Nat.eqb t2 1 then negb r0 else r0 in
    if Nat.eqb t1 3 && Nat.eqb t2 0 then negb r1 else r1.

  Definition forces_ (p a b c : vR) (area rep : R) : vR * vR * vR * vR :=
    let u := k_bary (kernel NumR p a b c) in
    let F := ((p -v cpa_ p a b c) *v rep) *v area in
    (F *v (- (1)), F *v (vx u), F *v (vy u), F *v (vz u)).

  Lemma interaction_unfold p a b c fnormal area rep t1 t2 :
    interactionR p a b c fnormal area rep t1 t2 =
    if Rltb (k_dist (kernel NumR p a b c)) cut2_maxR then
      if side_test p a b c fnormal t1 t2 then Some (forces_ p a b c area rep) else None
    else None.
  Proof. reflexivity. Qed.

  Lemma interaction_some p a b c fnormal area rep t1 t2 r :
    interactionR p a b c fnormal area rep t1 t2 = Some r -> r = forces_ p a b c area rep.
  Proof.
    rewrite interaction_unfold.
    destruct (Rltb _ _); [|discriminate]. destruct (side_test _ _ _ _ _ _ _); [|discriminate].
    intros H; injection H as H; symmetry; exact H.
  Qed.

  Lemma interaction_net_zero : forall p a b c fnormal area rep t1 t2 fn fa fb fc, nondegenerate a b c ->
    interactionR p a b c fnormal area rep t1 t2 = Some (fn, fa, fb, fc) ->
    fn +v fa +v fb +v fc = mkv 0 0 0.
  Proof.
    intros p a b c fnormal area rep t1 t2 fn fa fb fc ND H.
    apply interaction_some in H. unfold forces_ in H. cbv zeta in H.
    injection H as Hn Ha Hb Hc. subst fn fa fb fc.
    pose proof (bary_sum_one_ p a b c ND) as S.
    set (u := k_bary (kernel NumR p a b c)) in *.
    set (d := p -v cpa_ p a b c).
    assert (E : vx u = 1 - vy u - vz u) by lra. rewrite E.
    destruct d as [dx dy dz]. vring.
  Qed.

  Lemma interaction_beyond_cutoff : forall p a b c fnormal area rep t1 t2,
    cut2_maxR <= k_dist (kernel NumR p a b c) -> interactionR p a b c fnormal area rep t1 t2 = None.
  Proof.
    intros p a b c fnormal area rep t1 t2 H. rewrite interaction_unfold.
    destruct (Rltb_spec (k_dist (kernel NumR p a b c)) cut2_maxR) as [L|L]; [lra|reflexivity].
  Qed.

  Definition forbidden_side_ (p a b c fnormal : vR) (t1 t2 : nat) : Prop :=
    let behind := (p -v cpa_ p a b c) ·  fnormal < 0 in
    if (Nat.eqb t1 0 && Nat.eqb t2 1) || (Nat.eqb t1 3 && Nat.eqb t2 0) then ~ behind else behind.

  Lemma side_test_spec p a b c fnormal t1 t2 :
    side_test p a b c fnormal t1 t2 = true <-> forbidden_side_ p a b c fnormal t1 t2.
  Proof.
    unfold side_test, forbidden_side_. cbv zeta.
    generalize ((p -v cpa_ p a b c) ·  fnormal); intros x.
    destruct (Rltb_spec x 0) as [L|L];
      destruct t1 as [|[|[|[|t1]]]]; destruct t2 as [|[|t2]];
      cbn [Nat.eqb andb orb negb]; split; intros H; try lra; try discriminate; try reflexivity;
      try (exfalso; lra).
  Qed.

  Lemma interaction_iff : forall p a b c fnormal area rep t1 t2, nondegenerate a b c ->
    (interactionR p a b c fnormal area rep t1 t2 <> None <->
     k_dist (kernel NumR p a b c) < cut2_maxR /\ forbidden_side_ p a b c fnormal t1 t2).
  Proof.
    intros p a b c fnormal area rep t1 t2 _. rewrite interaction_unfold. rewrite <- side_test_spec.
    destruct (Rltb_spec (k_dist (kernel NumR p a b c)) cut2_maxR) as [L|L].
    - destruct (side_test p a b c fnormal t1 t2); split.
      + intros _. split; [exact L|reflexivity].
      + intros _; discriminate.
      + intros H; exfalso; apply H; reflexivity.
      + intros [_ H]; discriminate.
    - split; [intros H; exfalso; apply H; reflexivity | intros [H _]; lra].
  Qed.

  Lemma interaction_direction : forall p a b c fnormal area rep t1 t2 fn fa fb fc, nondegenerate a b c ->
    0 <= area -> 0 <= rep ->
    interactionR p a b c fnormal area rep t1 t2 = Some (fn, fa, fb, fc) ->
    0 <= fn ·  (cpa_ p a b c -v p) /\
    0 <= fa ·  (p -v cpa_ p a b c) /\ 0 <= fb ·  (p -v cpa_ p a b c) /\ 0 <= fc ·  (p -v cpa_ p a b c).
  Proof.
    intros p a b c fnormal area rep t1 t2 fn fa fb fc ND Harea Hrep H.
    apply interaction_some in H. unfold forces_ in H. cbv zeta in H.
    injection H as Hn Ha Hb Hc. subst fn fa fb fc.
    destruct (bary_nonneg_ p a b c ND) as [U [V W]].
    set (u := k_bary (kernel NumR p a b c)) in *.
    set (q := cpa_ p a b c).
    assert (Q : 0 <= sqn (p -v q)) by apply sqn_nonneg.
    assert (RA : 0 <= rep * area) by (apply Rmult_le_pos; assumption).
    assert (RQ : 0 <= rep * area * sqn (p -v q)) by (apply Rmult_le_pos; assumption).
    assert (E0 : (((p -v q) *v rep) *v area *v - (1)) ·  (q -v p) = rep * area * sqn (p -v q)) by vring.
    assert (E1 : forall s, (((p -v q) *v rep) *v area *v s) ·  (p -v q) = s * (rep * area * sqn (p -v q))) by vring.
    rewrite E0, !E1.
    repeat split; try assumption; apply Rmult_le_pos; assumption.
  Qed.

End Interaction.

(* the non-vacuity example: no evaluation of the kernel is needed, only that the kernel distance is at most the
   distance to the point (1/4,1/4) of the triangle, and that the triangle lies in the plane z = 0 *)
Lemma concrete_interaction :
  exists fn fa fb fc,
  interaction NumR (1/10) (1/10) (mkv (1/4) (1/4) (-1/20)) (mkv 0 0 0) (mkv 1 0 0) (mkv 0 1 0) (mkv 0 0 1) (1/2) 2 0 0 = Some (fn, fa, fb, fc).
Proof.
  set (p := mkv (1/4) (1/4) (-1/20)). set (a := mkv 0 0 0). set (b := mkv 1 0 0). set (c := mkv 0 1 0).
  assert (ND : nondegenerate a b c) by (unfold nondegenerate, a, b, c; vunfold; lra).
  assert (NN : interaction NumR (1/10) (1/10) p a b c (mkv 0 0 1) (1/2) 2 0 0 <> None).
  { apply (interaction_iff (1/10) (1/10) p a b c (mkv 0 0 1) (1/2) 2 0%nat 0%nat ND). split.
    - pose proof (closest_ p a b c ND (1/4) (1/4)) as CL.
      assert (E : sqn (p -v tri_point a b c (1/4) (1/4)) = 1/400)
        by (unfold tri_point, p, a, b, c; vunfold; field).
      rewrite E in CL.
      assert (M : cut2_max NumR (1/10) (1/10) = 1/100).
      { unfold cut2_max, cut2_rep, cut2_adh, nmax. cbn [nmul nltb NumR].
        destruct (Rltb (1/10 * (1/10)) (1/10 * (1/10))); field. }
      rewrite M. lra.
    - unfold forbidden_side_. cbn [Nat.eqb andb orb]. unfold cpa_, bary_point, p, a, b, c. vunfold. lra. }
  destruct (interaction NumR (1/10) (1/10) p a b c (mkv 0 0 1) (1/2) 2 0 0) as [[[[fn fa] fb] fc]|].
  - exists fn, fa, fb, fc. reflexivity.
  - exfalso; apply NN; reflexivity.
Qed.

(* ================================================================== same cell, coupling cut-off *)
Section Local.
  Variables (dmax c45 c90 cut_adh cut_rep : R).

  Lemma try_face_same_cell : forall boxes gfs c1i n1i (st : state (T:=R)) fid c1 gf c2,
    nth_error st c1i = Some c1 -> nth_error gfs fid = Some gf -> nth_error st (fst gf) = Some c2 ->
    cc_id c1 = cc_id c2 ->
    try_face NumR dmax c45 c90 cut_adh cut_rep boxes gfs c1i n1i (Some st) fid = Some st \/
    try_face NumR dmax c45 c90 cut_adh cut_rep boxes gfs c1i n1i (Some st) fid = None.
  Proof.
    intros boxes gfs c1i n1i st fid c1 gf c2 H1 H2 H3 Hid.
    unfold try_face. rewrite H1, H2.
    destruct (nth_error boxes fid) as [bx|]; [|right; reflexivity].
    rewrite H3. destruct (nth_error (cc_nodes c1) n1i) as [n1|]; [|right; reflexivity].
    rewrite Hid, Nat.eqb_refl. cbn [negb]. left; reflexivity.
  Qed.

  Lemma cpl_dist_cases (n1 fn : cnode (T:=R)) maxcurv :
    cpl_dist NumR dmax c45 n1 fn maxcurv = dmax \/
    cpl_dist NumR dmax c45 n1 fn maxcurv = sqn (cn_pos n1 -v cn_pos fn).
  Proof.
    unfold cpl_dist. cbv zeta.
    destruct (nltb NumR maxcurv (cn_curv fn)); [left; reflexivity|].
    destruct (nltb NumR c45 (vdot NumR (cn_normal n1) (cn_normal fn)));
      destruct (cn_cpl fn); cbn [andb];
      try destruct (nltb NumR (cn_sqd fn) _); auto.
  Qed.

  Lemma coupling_cutoff : forall (n1 a b c : cnode (T:=R)) ia ib ic maxcurv i d,
    cut2_adh NumR cut_adh <= dmax ->
    cpl_choice NumR dmax c45 n1 a b c ia ib ic maxcurv = (i, d) -> d < cut2_adh NumR cut_adh ->
    exists fnode, In (i, fnode) [(ia, a); (ib, b); (ic, c)] /\ d = sqn (cn_pos n1 -v cn_pos fnode).
  Proof.
    intros n1 a b c ia ib ic maxcurv i d Hmax Hch Hd.
    unfold cpl_choice in Hch. cbv zeta in Hch.
    destruct (_ && _) in Hch; [|destruct (_ && _) in Hch]; injection Hch as Hi Hdd; subst i.
    - exists a. split; [left; reflexivity|].
      destruct (cpl_dist_cases n1 a maxcurv) as [E|E]; rewrite E in Hdd; [exfalso; lra|auto].
    - exists b. split; [right; left; reflexivity|].
      destruct (cpl_dist_cases n1 b maxcurv) as [E|E]; rewrite E in Hdd; [exfalso; lra|auto].
    - exists c. split; [right; right; left; reflexivity|].
      destruct (cpl_dist_cases n1 c maxcurv) as [E|E]; rewrite E in Hdd; [exfalso; lra|auto].
  Qed.
End Local.

(* ================================================================== list updates *)
Section Updn.
  Context {B : Type}.

  Lemma updn_length (l : list B) n f : length (updn l n f) = length l.
  Proof. revert n; induction l as [|x r IH]; intros [|n]; cbn; auto. Qed.

  Lemma updn_nth_same (l : list B) n f : nth_error (updn l n f) n = option_map f (nth_error l n).
  Proof. revert n; induction l as [|x r IH]; intros [|n]; cbn; auto. Qed.

  Lemma updn_nth_other (l : list B) n m f : n <> m -> nth_error (updn l n f) m = nth_error l m.
  Proof.
    revert n m; induction l as [|x r IH]; intros [|n] [|m] H; cbn; try reflexivity.
    - exfalso; apply H; reflexivity.
    - apply IH. intros E; apply H; rewrite E; reflexivity.
  Qed.

  Lemma updn_map {C} (g : B -> C) (l : list B) n f : (forall x, g (f x) = g x) -> map g (updn l n f) = map g l.
  Proof.
    intros Hg. revert n; induction l as [|x r IH]; intros [|n]; cbn; auto.
    - rewrite Hg; reflexivity.
    - rewrite IH; reflexivity.
  Qed.
End Updn.

Lemma fold_left_inv {A B} (P : A -> Prop) (f : A -> B -> A) (l : list B) :
  (forall a b, P a -> P (f a b)) -> forall a, P a -> P (fold_left f l a).
Proof. intros Hf. induction l as [|b r IH]; intros a Ha; cbn; auto. Qed.

(* ================================================================== the total force *)
Definition fsum (l : list (cnode (T:=R))) : vR := fold_right (fun n a => cn_force n +v a) (mkv 0 0 0) l.

Definition total_force_ (st : state (T:=R)) : vR :=
  fold_right (fun c acc => fold_right (fun n a => cn_force n +v a) acc (cc_nodes c)) (mkv 0 0 0) st.

Lemma vadd_assoc (x y z : vR) : x +v (y +v z) = x +v y +v z.
Proof. vring. Qed.
Lemma vadd_0_r (x : vR) : x +v mkv 0 0 0 = x.
Proof. destruct x; vring. Qed.
Lemma vadd_swap (x y z : vR) : x +v y +v z = x +v z +v y.
Proof. vring. Qed.

Lemma fold_fsum (l : list (cnode (T:=R))) acc :
  fold_right (fun n a => cn_force n +v a) acc l = fsum l +v acc.
Proof.
  induction l as [|n r IH]; cbn [fold_right].
  - unfold fsum; cbn [fold_right]. destruct acc; vring.
  - rewrite IH. change (fsum (n :: r)) with (cn_force n +v fsum r). apply vadd_assoc.
Qed.

Lemma total_force_cons c (st : state (T:=R)) : total_force_ (c :: st) = fsum (cc_nodes c) +v total_force_ st.
Proof. unfold total_force_ at 1. cbn [fold_right]. fold (total_force_ st). apply fold_fsum. Qed.

Lemma fsum_cons n l : fsum (n :: l) = cn_force n +v fsum l.
Proof. reflexivity. Qed.

Lemma fsum_updn_keep l ni (f : cnode (T:=R) -> cnode) :
  (forall n, cn_force (f n) = cn_force n) -> fsum (updn l ni f) = fsum l.
Proof.
  intros Hf. revert ni; induction l as [|x r IH]; intros [|ni]; cbn [updn]; auto.
  - rewrite !fsum_cons, Hf. reflexivity.
  - rewrite !fsum_cons, IH. reflexivity.
Qed.

Lemma fsum_updn_add l ni v n :
  nth_error l ni = Some n -> fsum (updn l ni (fun x => add_force NumR x v)) = fsum l +v v.
Proof.
  revert ni; induction l as [|x r IH]; intros [|ni] H; cbn [updn]; try discriminate.
  - rewrite !fsum_cons. cbn [add_force cn_force]. apply vadd_swap.
  - rewrite !fsum_cons, (IH ni H). apply vadd_assoc.
Qed.

Definition valid (st : state (T:=R)) (ci ni : nat) : Prop :=
  exists c n, nth_error st ci = Some c /\ nth_error (cc_nodes c) ni = Some n.

Lemma total_upd_keep (st : state (T:=R)) ci ni f :
  (forall n, cn_force (f n) = cn_force n) -> total_force_ (upd_node st ci ni f) = total_force_ st.
Proof.
  intros Hf. unfold upd_node. revert ci; induction st as [|c r IH]; intros [|ci]; cbn [updn]; auto.
  - rewrite !total_force_cons. cbn [cc_nodes]. rewrite fsum_updn_keep by exact Hf. reflexivity.
  - rewrite !total_force_cons, IH. reflexivity.
Qed.

Lemma total_upd_add (st : state (T:=R)) ci ni v :
  valid st ci ni -> total_force_ (upd_node st ci ni (fun x => add_force NumR x v)) = total_force_ st +v v.
Proof.
  intros [c [n [Hc Hn]]]. unfold upd_node. revert ci Hc; induction st as [|c0 r IH]; intros [|ci] Hc; cbn [updn]; try discriminate.
  - cbn in Hc. injection Hc as Hc; subst c0.
    rewrite !total_force_cons. cbn [cc_nodes]. rewrite (fsum_updn_add _ _ _ _ Hn). apply vadd_swap.
  - cbn in Hc. rewrite !total_force_cons, (IH ci Hc). apply vadd_assoc.
Qed.

Lemma valid_upd (st : state (T:=R)) ci ni ci' ni' f :
  valid st ci ni -> valid (upd_node st ci' ni' f) ci ni.
Proof.
  intros [c [n [Hc Hn]]]. unfold valid, upd_node.
  destruct (Nat.eq_dec ci' ci) as [E|E].
  - subst ci'. rewrite updn_nth_same, Hc. cbn [option_map].
    destruct (Nat.eq_dec ni' ni) as [E2|E2].
    + subst ni'. eexists; exists (f n). split; [reflexivity|]. cbn [cc_nodes]. rewrite updn_nth_same, Hn. reflexivity.
    + eexists; exists n. split; [reflexivity|]. cbn [cc_nodes]. rewrite updn_nth_other by exact E2. exact Hn.
  - exists c, n. split; [|exact Hn]. rewrite updn_nth_other by exact E. exact Hc.
Qed.

(* the positions of the nodes, cell by cell *)
Definition shape (st : state (T:=R)) : list (list vR) := map (fun c => map cn_pos (cc_nodes c)) st.

Lemma shape_upd (st : state (T:=R)) ci ni f :
  (forall n, cn_pos (f n) = cn_pos n) -> shape (upd_node st ci ni f) = shape st.
Proof.
  intros Hf. unfold shape, upd_node. apply updn_map. intros c. cbn [cc_nodes]. apply updn_map. exact Hf.
Qed.

(* ================================================================== one resolved contact *)
Definition apply_forces (st : state (T:=R)) (c1i n1i c2i : nat) (f : cface (T:=R)) (r : option (vR * vR * vR * vR)) : option state :=
  match r with
  | Some (fn, fa, fb, fc) =>
      let s1 := upd_node st c2i (cf_n1 f) (fun n => add_force NumR n fa) in
      let s2 := upd_node s1 c2i (cf_n2 f) (fun n => add_force NumR n fb) in
      let s3 := upd_node s2 c2i (cf_n3 f) (fun n => add_force NumR n fc) in
      Some (upd_node s3 c1i n1i (fun n => add_force NumR n fn))
  | None => Some st
  end.

Lemma apply_forces_inv st c1i n1i c2i f r st' :
  valid st c1i n1i -> valid st c2i (cf_n1 f) -> valid st c2i (cf_n2 f) -> valid st c2i (cf_n3 f) ->
  (forall fn fa fb fc, r = Some (fn, fa, fb, fc) -> fn +v fa +v fb +v fc = mkv 0 0 0) ->
  apply_forces st c1i n1i c2i f r = Some st' ->
  total_force_ st' = total_force_ st /\ shape st' = shape st.
Proof.
  intros V1 Va Vb Vc Hz H. unfold apply_forces in H.
  destruct r as [[[[fn fa] fb] fc]|].
  - cbv zeta in H. injection H as H. subst st'. split.
    + rewrite !total_upd_add by (repeat apply valid_upd; assumption).
      pose proof (Hz fn fa fb fc eq_refl) as Z.
      assert (E : forall t : vR, t +v fa +v fb +v fc +v fn = t +v (fn +v fa +v fb +v fc)) by vring.
      rewrite E, Z. apply vadd_0_r.
    + rewrite !shape_upd by (intros; reflexivity). reflexivity.
  - injection H as H. subst st'. split; reflexivity.
Qed.

Section Resolve.
  Variables (dmax c45 cut_adh cut_rep : R).
  Notation resolveR := (resolve_contact NumR dmax c45 cut_adh cut_rep).

  Definition nd_faces (gfs : list (nat * cface (T:=R))) (st : state (T:=R)) : Prop :=
    forall ci f, In (ci, f) gfs -> forall c, nth_error st ci = Some c ->
      forall a b cc, nth_error (cc_nodes c) (cf_n1 f) = Some a -> nth_error (cc_nodes c) (cf_n2 f) = Some b ->
      nth_error (cc_nodes c) (cf_n3 f) = Some cc -> nondegenerate (cn_pos a) (cn_pos b) (cn_pos cc).

  Lemma resolve_inv : forall st c1i n1i gf st',
    nd_faces [gf] st -> resolveR st c1i n1i gf = Some st' ->
    total_force_ st' = total_force_ st /\ shape st' = shape st.
  Proof.
    intros st c1i n1i [c2i f] st' ND H. unfold resolve_contact in H.
    destruct (nth_error st c1i) as [c1|] eqn:E1; [|discriminate].
    destruct (nth_error st c2i) as [c2|] eqn:E2; [|discriminate].
    destruct (nth_error (cc_nodes c1) n1i) as [n1|] eqn:En1; [|discriminate].
    destruct (nth_error (cc_nodes c2) (cf_n1 f)) as [a|] eqn:Ea; [|discriminate].
    destruct (nth_error (cc_nodes c2) (cf_n2 f)) as [b|] eqn:Eb; [|discriminate].
    destruct (nth_error (cc_nodes c2) (cf_n3 f)) as [c|] eqn:Ec; [|discriminate].
    assert (NDf : nondegenerate (cn_pos a) (cn_pos b) (cn_pos c)).
    { apply (ND c2i f (or_introl eq_refl) c2 E2 a b c Ea Eb Ec). }
    assert (V1 : valid st c1i n1i) by (exists c1, n1; split; assumption).
    assert (Va : valid st c2i (cf_n1 f)) by (exists c2, a; split; assumption).
    assert (Vb : valid st c2i (cf_n2 f)) by (exists c2, b; split; assumption).
    assert (Vc : valid st c2i (cf_n3 f)) by (exists c2, c; split; assumption).
    assert (FB : forall st'',
      apply_forces st c1i n1i c2i f
        (interaction NumR cut_adh cut_rep (cn_pos n1) (cn_pos a) (cn_pos b) (cn_pos c) (cf_normal f) (cf_area f) (cf_rep f) (cc_type c1) (cc_type c2)) = Some st'' ->
      total_force_ st'' = total_force_ st /\ shape st'' = shape st).
    { intros st'' H2. refine (apply_forces_inv st c1i n1i c2i f _ st'' V1 Va Vb Vc _ H2).
      intros fn fa fb fc HI. apply (interaction_net_zero cut_adh cut_rep _ _ _ _ _ _ _ _ _ _ _ _ _ NDf HI). }
    cbv zeta in H.
    destruct (Nat.eqb (cc_type c1) 0 && Nat.eqb (cc_type c2) 0).
    - destruct (cpl_choice NumR dmax c45 n1 a b c (cf_n1 f) (cf_n2 f) (cf_n3 f) (cc_maxcurv c1)) as [n2i d].
      destruct (nltb NumR d (cut2_adh NumR cut_adh) && nltb NumR d (cn_sqd n1)).
      + injection H as H. subst st'. split.
        * rewrite !total_upd_keep by (intros; reflexivity). reflexivity.
        * rewrite !shape_upd by (intros; reflexivity). reflexivity.
      + apply FB. exact H.
    - apply FB. exact H.
  Qed.

  Lemma resolve_total_force : forall st c1i n1i gf st',
    (forall ci f, In (ci, f) [gf] -> forall c, nth_error st ci = Some c ->
       forall a b cc, nth_error (cc_nodes c) (cf_n1 f) = Some a -> nth_error (cc_nodes c) (cf_n2 f) = Some b ->
       nth_error (cc_nodes c) (cf_n3 f) = Some cc -> nondegenerate (cn_pos a) (cn_pos b) (cn_pos cc)) ->
    resolveR st c1i n1i gf = Some st' -> total_force_ st' = total_force_ st.
  Proof. intros st c1i n1i gf st' ND H. exact (proj1 (resolve_inv st c1i n1i gf st' ND H)). Qed.
End Resolve.

(* ================================================================== the whole phase *)
Lemma nth_error_map_inv {A B} (g : A -> B) (l : list A) n y :
  nth_error (map g l) n = Some y -> exists x, nth_error l n = Some x /\ y = g x.
Proof.
  revert n; induction l as [|x r IH]; intros [|n] H; cbn in H; try discriminate.
  - injection H as H. exists x. split; [reflexivity|symmetry; exact H].
  - apply IH. exact H.
Qed.

Lemma In_combine_seq {A} (s : list A) : forall k i c,
  In (i, c) (combine (seq k (length s)) s) -> (k <= i)%nat /\ nth_error s (i - k) = Some c.
Proof.
  induction s as [|x r IH]; intros k i c H; cbn in H; [contradiction|].
  destruct H as [E|H].
  - injection E as Ei Ec. subst i c. split; [lia|]. rewrite Nat.sub_diag. reflexivity.
  - destruct (IH (S k) i c H) as [L N]. split; [lia|].
    replace (i - k)%nat with (S (i - S k)) by lia. exact N.
Qed.

Lemma gfaces_in (s : state (T:=R)) ci f :
  In (ci, f) (gfaces s) -> exists c, nth_error s ci = Some c /\ In f (cc_faces c).
Proof.
  unfold gfaces. intros H.
  apply in_concat in H. destruct H as [l [Hl Hin]].
  apply in_map_iff in Hl. destruct Hl as [[i c] [El Hic]]. subst l. cbn [fst snd] in Hin.
  apply in_map_iff in Hin. destruct Hin as [f' [Ef Hf']]. injection Ef as Ei Ef. subst i f'.
  apply In_combine_seq in Hic. destruct Hic as [_ Hn]. rewrite Nat.sub_0_r in Hn.
  exists c. split; assumption.
Qed.

Lemma nd_faces_shape gfs (s s' : state (T:=R)) : shape s' = shape s -> nd_faces gfs s -> nd_faces gfs s'.
Proof.
  intros Hs ND ci f Hin c' Hc' a' b' cc' Ha Hb Hc.
  assert (S1 : nth_error (shape s') ci = Some (map cn_pos (cc_nodes c'))).
  { unfold shape. apply (map_nth_error (fun c => map cn_pos (cc_nodes c))). exact Hc'. }
  rewrite Hs in S1. unfold shape in S1. apply nth_error_map_inv in S1. destruct S1 as [c0 [Hc0 Em]].
  assert (P : forall k x', nth_error (cc_nodes c') k = Some x' ->
            exists x, nth_error (cc_nodes c0) k = Some x /\ cn_pos x' = cn_pos x).
  { intros k x' Hk. apply (map_nth_error cn_pos) in Hk. rewrite Em in Hk.
    apply nth_error_map_inv in Hk. exact Hk. }
  destruct (P _ _ Ha) as [a [Ha0 Pa]]. destruct (P _ _ Hb) as [b [Hb0 Pb]]. destruct (P _ _ Hc) as [cc [Hc0' Pc]].
  rewrite Pa, Pb, Pc. exact (ND ci f Hin c0 Hc0 a b cc Ha0 Hb0 Hc0').
Qed.

Lemma nd_faces_one gfs gf (s : state (T:=R)) : In gf gfs -> nd_faces gfs s -> nd_faces [gf] s.
Proof.
  intros Hin ND ci f H1. destruct H1 as [E|[]]. subst gf. exact (ND ci f Hin).
Qed.

Definition Inv (v : vR) (sh : list (list vR)) (o : option (state (T:=R))) : Prop :=
  match o with Some s => total_force_ s = v /\ shape s = sh | None => True end.

Definition InvF (v : vR) (o : option (state (T:=R))) : Prop :=
  match o with Some s => total_force_ s = v | None => True end.

Section Phase.
  Variables (eps dmax inf c45 c90 lmin cut_adh cut_rep : R).
  Notation try_faceR := (try_face NumR dmax c45 c90 cut_adh cut_rep).
  Notation phaseR := (contact_phase NumR Zfloor Zceil eps dmax inf c45 c90 lmin cut_adh cut_rep).

  Lemma try_face_inv boxes gfs c1i n1i (s0 : state (T:=R)) v acc fid :
    nd_faces gfs s0 -> Inv v (shape s0) acc -> Inv v (shape s0) (try_faceR boxes gfs c1i n1i acc fid).
  Proof.
    intros ND HI. destruct acc as [s|]; [|exact I]. destruct HI as [HT HS].
    unfold try_face.
    destruct (nth_error s c1i) as [c1|]; [|exact I].
    destruct (nth_error gfs fid) as [gf|] eqn:Eg; [|exact I].
    destruct (nth_error boxes fid) as [bx|]; [|exact I].
    destruct (nth_error s (fst gf)) as [c2|]; [|exact I].
    destruct (nth_error (cc_nodes c1) n1i) as [n1|]; [|exact I].
    destruct (negb (Nat.eqb (cc_id c1) (cc_id c2))); [|split; assumption].
    destruct (in_box NumR bx (cn_pos n1) && nltb NumR (vdot NumR (cn_normal n1) (cf_normal (snd gf))) c90); [|split; assumption].
    destruct (resolve_contact NumR dmax c45 cut_adh cut_rep s c1i n1i gf) as [s'|] eqn:ER; [|exact I].
    assert (ND1 : nd_faces [gf] s).
    { apply (nd_faces_one gfs); [exact (nth_error_In _ _ Eg)|]. apply (nd_faces_shape gfs s0); assumption. }
    destruct (resolve_inv dmax c45 cut_adh cut_rep s c1i n1i gf s' ND1 ER) as [T1 S1].
    split; [rewrite T1; exact HT | rewrite S1; exact HS].
  Qed.

  Lemma node_loop_inv cands boxes gfs (st0 : state (T:=R)) :
    nd_faces gfs st0 ->
    Inv (total_force_ st0) (shape st0) (node_loop NumR dmax c45 c90 cut_adh cut_rep cands boxes gfs st0).
  Proof.
    intros ND. unfold node_loop.
    apply (fold_left_inv (Inv (total_force_ st0) (shape st0))); [|split; reflexivity].
    intros acc ci HP. destruct acc as [s|]; [|exact I].
    destruct (nth_error s ci) as [c0|]; [|exact I].
    apply (fold_left_inv (Inv (total_force_ st0) (shape st0))); [|exact HP].
    intros acc2 ni HP2. destruct acc2 as [s2|]; [|exact I].
    destruct (nth_error s2 ci) as [c|]; [|exact I].
    destruct (nth_error (cc_nodes c) ni) as [n|]; [|exact I].
    destruct (node_active NumR c n); [|exact HP2].
    destruct (cands (cn_pos n)) as [l|]; [|exact I].
    apply (fold_left_inv (Inv (total_force_ st0) (shape st0))); [|exact HP2].
    intros acc3 fid HP3. apply try_face_inv; assumption.
  Qed.

  Lemma centre_pairs_inv (st0 : state (T:=R)) : InvF (total_force_ st0) (centre_pairs NumR st0).
  Proof.
    unfold centre_pairs.
    apply (fold_left_inv (InvF (total_force_ st0))); [|reflexivity].
    intros acc ci HP. destruct acc as [s|]; [|exact I].
    destruct (nth_error s ci) as [c0|]; [|exact I].
    apply (fold_left_inv (InvF (total_force_ st0))); [|exact HP].
    intros acc2 ni HP2. destruct acc2 as [s2|]; [|exact I].
    destruct (nth_error s2 ci) as [c|]; [|exact I].
    destruct (nth_error (cc_nodes c) ni) as [n|]; [|exact I].
    destruct (cn_used n); [|exact HP2].
    destruct (cn_cpl n) as [[c2i n2i]|]; [|exact HP2].
    destruct (Nat.ltb c2i ci); [|exact HP2].
    destruct (nth_error s2 c2i) as [c2|]; [|exact I].
    destruct (nth_error (cc_nodes c2) n2i) as [n2|]; [|exact I].
    unfold InvF. rewrite !total_upd_keep by (intros; reflexivity). exact HP2.
  Qed.

  Lemma reset_node_force (n : cnode (T:=R)) : cn_force (reset_node dmax n) = cn_force n.
  Proof. unfold reset_node. destruct (cn_used n); reflexivity. Qed.
  Lemma reset_node_pos (n : cnode (T:=R)) : cn_pos (reset_node dmax n) = cn_pos n.
  Proof. unfold reset_node. destruct (cn_used n); reflexivity. Qed.

  Lemma reset_total (st : state (T:=R)) : total_force_ (reset_state dmax st) = total_force_ st.
  Proof.
    unfold reset_state. induction st as [|c r IH]; [reflexivity|].
    cbn [map]. rewrite !total_force_cons, IH. cbn [cc_nodes]. f_equal.
    generalize (cc_nodes c) as l. induction l as [|n l IHl]; [reflexivity|].
    cbn [map]. rewrite !fsum_cons, IHl, reset_node_force. reflexivity.
  Qed.

  Definition faces_nondegenerate_ (st : state (T:=R)) : Prop :=
    forall c f a b cc, In c st -> In f (cc_faces c) ->
      nth_error (cc_nodes c) (cf_n1 f) = Some a -> nth_error (cc_nodes c) (cf_n2 f) = Some b -> nth_error (cc_nodes c) (cf_n3 f) = Some cc ->
      nondegenerate (cn_pos a) (cn_pos b) (cn_pos cc).

  Lemma reset_nd (st : state (T:=R)) :
    faces_nondegenerate_ st -> nd_faces (gfaces (reset_state dmax st)) (reset_state dmax st).
  Proof.
    intros FN ci f Hin c Hc a b cc Ha Hb Hcc.
    apply gfaces_in in Hin. destruct Hin as [c' [Hc' Hf]].
    rewrite Hc in Hc'. injection Hc' as Hc'. subst c'.
    unfold reset_state in Hc. apply nth_error_map_inv in Hc. destruct Hc as [c0 [Hc0 Ec]]. subst c.
    cbn [cc_nodes cc_faces] in *.
    apply nth_error_map_inv in Ha. destruct Ha as [a0 [Ha0 Ea]].
    apply nth_error_map_inv in Hb. destruct Hb as [b0 [Hb0 Eb]].
    apply nth_error_map_inv in Hcc. destruct Hcc as [cc0 [Hcc0 Ecc]].
    subst a b cc. rewrite !reset_node_pos.
    exact (FN c0 f a0 b0 cc0 (nth_error_In _ _ Hc0) Hf Ha0 Hb0 Hcc0).
  Qed.

  Lemma phase_total_force : forall st r s,
    faces_nondegenerate_ st -> phaseR st = Some (r, s) -> total_force_ r = total_force_ st.
  Proof.
    intros st r s FN H. unfold contact_phase, prepare in H.
    destruct (all_some _) as [boxes|]; [|discriminate].
    cbv zeta in H. cbn [p_grid p_boxes p_gfs p_state] in H.
    destruct (register _ _ _ _) as [sto|]; [|discriminate].
    match type of H with context [node_loop ?N ?d ?c4 ?c9 ?ca ?cr ?cands ?bx ?gfs ?s0] =>
      pose proof (node_loop_inv cands bx gfs s0 (reset_nd st FN)) as NL;
      destruct (node_loop N d c4 c9 ca cr cands bx gfs s0) as [st2|]; [|discriminate]
    end.
    destruct NL as [T2 _].
    pose proof (centre_pairs_inv st2) as CP.
    destruct (centre_pairs NumR st2) as [r'|]; [|discriminate].
    cbn [option_map] in H. injection H as Hr Hs. subst r' s.
    unfold InvF in CP. rewrite CP, T2. apply reset_total.
  Qed.
End Phase.
