(* Forces.v — the internal forces of a cell (src/mesh/cell.cpp): apply_pressure_on_surface,
   apply_surface_tension_and_membrane_elasticity, apply_bending_forces (hinge stencil), get_angle_gradient,
   regularize_face_angles, in the operation order of the code.  libm functions are arguments. *)
From Coq Require Import NArith ZArith Bool List.
From SC Require Import Num Vec3 Mesh Geometry.
Import ListNotations.

Section Forces.
  Context {T : Type} (Nm : Num T) (L : Libm T).
  Variable pi : T.              (* M_PI *)
  Variable dbl_eps dbl_min : T. (* DBL_EPSILON, DBL_MIN (almost_equal) *)
  Notation "x + y" := (nadd Nm x y).
  Notation "x - y" := (nsub Nm x y).
  Notation "x * y" := (nmul Nm x y).
  Notation "x / y" := (ndiv Nm x y).
  Notation "- x" := (nneg Nm x).
  Notation vec := (vec3 T).
  Notation c0 := (nzero Nm).
  Notation c1 := (none_ Nm).
  Definition cst (z : Z) : T := nofZ Nm z.
  Definition chalf : T := c1 / cst 2.

  Fixpoint addf (F : list vec) (i : nat) (f : vec) : list vec :=
    match F, i with
    | [], _ => []
    | x :: r, O => vadd Nm x f :: r
    | x :: r, S k => x :: addf r k f
    end.
  Definition add_force (F : list vec) (i : N) (f : vec) : list vec := addf F (N.to_nat i) f.

  Definition isnan (x : T) : bool := negb (neqb Nm x x).
  Definition isfinite (x : T) : bool := neqb Nm (x - x) c0.

  (* vec3::get_angle_with(vec3&&) — the overload taken when the argument is a temporary: `if(!std::isfinite(angle)) angle = 1.` *)
  Definition angle_with (u v : vec) : T :=
    let a := lacos L (vdot Nm u v / (vnorm Nm u * vnorm Nm v)) in
    if negb (isfinite a) then c1 else a.
  (* vec3::get_angle_with(const vec3&) — the overload taken for a named vector: `if(std::isnan(angle)) angle = 1.` *)
  Definition angle_with_nan (u v : vec) : T :=
    let a := lacos L (vdot Nm u v / (vnorm Nm u * vnorm Nm v)) in
    if isnan a then c1 else a.

  (* utils.hpp: almost_equal(x, y, ulp = 2) *)
  Definition almost_equal (x y : T) : bool :=
    nleb Nm (nabs Nm (x - y)) ((dbl_eps * nabs Nm (x + y)) * cst 2) || nltb Nm (nabs Nm (x - y)) dbl_min.

  Definition cot (a : T) : T := c1 / ltan L a.

  (* vec3::rotate_around_axis (Rodrigues) *)
  Definition rotate_around_axis (v axis : vec) (angle : T) : vec :=
    vadd Nm (vadd Nm (vscale Nm v (lcos L angle)) (vscale Nm (vcross Nm axis v) (lsin L angle)))
            (vscale Nm (vscale Nm axis (c1 - lcos L angle)) (vdot Nm axis v)).

  (* ---------------------------------------------------------------- faces with cached normal / area and a type *)
  Record fface := mkff { ff_tri : tri; ff_type : nat; ff_normal : vec; ff_area : T }.

  Definition refresh (nodes : list vec) (t : tri) (ty : nat) : fface :=
    let p := tri_pos Nm nodes t in mkff t ty (face_normal Nm p) (face_area Nm p).

  (* ---------------------------------------------------------------- pressure *)
  Definition pressure_face (P : T) (F : list vec) (f : fface) : list vec :=
    let '(a, b, c) := ff_tri f in
    let fp := vdivs Nm (vscale Nm (vscale Nm (ff_normal f) P) (ff_area f)) (cst 3) in
    add_force (add_force (add_force F a fp) b fp) c fp.
  Definition apply_pressure (P : T) (faces : list fface) (F : list vec) : list vec :=
    fold_left (pressure_face P) faces F.

  (* ---------------------------------------------------------------- surface tension + membrane elasticity *)
  Definition target_area (iso V : T) : T := lcbrt L ((iso * V) * V).
  Definition elasticity_factor (ka A0 A : T) : T := (- (ka / A0)) * ((A / A0) - c1).
  Definition tension_face (nodes : list vec) (tensions : list T) (mef : T) (F : list vec) (f : fface) : list vec :=
    if neqb Nm (ff_area f) c0 then F else
    let '(a, b, c) := ff_tri f in
    let p1 := pos_of Nm nodes a in let p2 := pos_of Nm nodes b in let p3 := pos_of Nm nodes c in
    let mh := - chalf in
    let g1 := vscale Nm (vcross Nm (ff_normal f) (vsub Nm p2 p3)) mh in
    let g2 := vscale Nm (vcross Nm (ff_normal f) (vsub Nm p3 p1)) mh in
    let g3 := vscale Nm (vcross Nm (ff_normal f) (vsub Nm p1 p2)) mh in
    let ff := (- (nth (ff_type f) tensions c0)) + mef in
    add_force (add_force (add_force F a (vscale Nm g1 ff)) b (vscale Nm g2 ff)) c (vscale Nm g3 ff).
  Definition apply_tension (nodes : list vec) (tensions : list T) (ka iso V A : T) (faces : list fface) (F : list vec) : list vec :=
    let A0 := target_area iso V in
    fold_left (tension_face nodes tensions (elasticity_factor ka A0 A)) faces F.

  (* ---------------------------------------------------------------- angle regularisation *)
  Definition zero3 : vec * vec * vec := (vzero Nm, vzero Nm, vzero Nm).
  Definition angle_gradient (i j k : vec) : vec * vec * vec :=
    let a := vsub Nm j i in let b := vsub Nm k i in
    let d_ab := vdot Nm a b in let d_aa := vdot Nm a a in let d_bb := vdot Nm b b in
    let norm_a := nsqrt Nm d_aa in let norm_b := nsqrt Nm d_bb in
    let den := nsqrt Nm (c1 - (d_ab * d_ab) / (d_aa * d_bb)) in
    let f1 := norm_b * lpow L d_aa (cst 3 / cst 2) in
    let f2 := norm_a * lpow L d_bb (cst 3 / cst 2) in
    if almost_equal den c0 || negb (isfinite den) || almost_equal norm_a c0 || almost_equal norm_b c0 then zero3 else
    if almost_equal f1 c0 || negb (isfinite f1) then zero3 else
    if almost_equal f2 c0 || negb (isfinite f2) then zero3 else
    let nab := norm_a * norm_b in
    let gi (ci cj ck ca cb : T) : T :=
      (- ((((cst 2 * ci - cj) - ck) / nab + (d_ab * ca) / f1) + (d_ab * cb) / f2)) / den in
    let gj (ci ck ca : T) : T := (- ((((- ci) + ck) / nab) - (d_ab * ca) / f1)) / den in
    let gk (ci cj cb : T) : T := (- ((((- ci) + cj) / nab) - (d_ab * cb) / f2)) / den in
    (mkv (gi (vx i) (vx j) (vx k) (vx a) (vx b)) (gi (vy i) (vy j) (vy k) (vy a) (vy b)) (gi (vz i) (vz j) (vz k) (vz a) (vz b)),
     mkv (gj (vx i) (vx k) (vx a)) (gj (vy i) (vy k) (vy a)) (gj (vz i) (vz k) (vz a)),
     mkv (gk (vx i) (vx j) (vx b)) (gk (vy i) (vy j) (vy b)) (gk (vz i) (vz j) (vz b))).

  Definition vfinite (v : vec) : bool := isfinite (vx v) && isfinite (vy v) && isfinite (vz v).

  Definition anglereg_face (nodes : list vec) (kreg : T) (F : list vec) (f : fface) : list vec :=
    if neqb Nm kreg c0 then F else
    let '(a, b, c) := ff_tri f in
    let p1 := pos_of Nm nodes a in let p2 := pos_of Nm nodes b in let p3 := pos_of Nm nodes c in
    let a1 := angle_with (vsub Nm p2 p1) (vsub Nm p3 p1) in
    let a2 := angle_with (vsub Nm p1 p2) (vsub Nm p3 p2) in
    let a3 := angle_with (vsub Nm p1 p3) (vsub Nm p2 p3) in
    let amin := (cst 10 * pi) / cst 180 in
    let amax := (cst 170 * pi) / cst 180 in
    if nltb Nm a1 amin || nltb Nm a2 amin || nltb Nm a3 amin then F else
    if nltb Nm amax a1 || nltb Nm amax a2 || nltb Nm amax a3 then F else
    let '(g1i, g1j, g1k) := angle_gradient p1 p2 p3 in
    let '(g2i, g2j, g2k) := angle_gradient p2 p1 p3 in
    let '(g3i, g3j, g3k) := angle_gradient p3 p1 p2 in
    if isfinite (vx g1i) && isfinite (vy g1i) && isfinite (vz g1i) && isfinite (vx g2i) && isfinite (vy g2i) && isfinite (vz g2i)
       && isfinite (vx g3i) && isfinite (vy g3i) && isfinite (vz g3i) then      (* one left-associated chain, as in the source *)
      let t3 := pi / cst 3 in
      let comb (u v w : vec) : vec :=
        vscale Nm (vadd Nm (vadd Nm (vscale Nm u (t3 - a1)) (vscale Nm v (t3 - a2))) (vscale Nm w (t3 - a3))) kreg in
      add_force (add_force (add_force F a (comb g1i g2j g3j)) b (comb g1j g2i g3k)) c (comb g1k g2k g3i)
    else F.
  Definition apply_anglereg (nodes : list vec) (kreg : T) (faces : list fface) (F : list vec) : list vec :=
    fold_left (anglereg_face nodes kreg) faces F.

  (* ---------------------------------------------------------------- bending (hinges, in edge-set order) *)
  Record hinge := mkh { h_n1 : N; h_n2 : N; h_f1 : nat; h_f2 : nat }.
  Definition dface : fface := mkff (0, 0, 0)%N 0 (vzero Nm) c0.
  Definition opposite (t : tri) (a b : N) : N :=
    let '(x, y, z) := t in
    if negb (N.eqb x a) && negb (N.eqb x b) then x else
    if negb (N.eqb y a) && negb (N.eqb y b) then y else z.

  Definition bending_hinge (nodes : list vec) (bends : list T) (faces : list fface) (F : list vec) (h : hinge) : list vec :=
    let f1 := nth (h_f1 h) faces dface in let f2 := nth (h_f2 h) faces dface in
    let kb := (nth (ff_type f1) bends c0 + nth (ff_type f2) bends c0) / cst 2 in
    let sumA := ff_area f1 + ff_area f2 in
    let nrm1 := ff_normal f1 in let nrm2 := ff_normal f2 in
    let n3 := opposite (ff_tri f1) (h_n1 h) (h_n2 h) in
    let n4 := opposite (ff_tri f2) (h_n1 h) (h_n2 h) in
    let x1 := pos_of Nm nodes (h_n1 h) in let x2 := pos_of Nm nodes (h_n2 h) in
    let x3 := pos_of Nm nodes n3 in let x4 := pos_of Nm nodes n4 in
    let e0 := vsub Nm x2 x1 in let e1 := vsub Nm x3 x1 in let e2 := vsub Nm x4 x1 in
    let e3 := vsub Nm x3 x2 in let e4 := vsub Nm x4 x2 in
    let me0 := vscale Nm e0 (- c1) in
    let al1 := angle_with_nan e0 e1 in let al2 := angle_with_nan e0 e2 in
    let al3 := angle_with e3 me0 in let al4 := angle_with e4 me0 in
    let dt := vdot Nm nrm1 nrm2 in
    let th0 := if nleb Nm c1 dt then c0 else if nleb Nm dt (- c1) then pi else lacos L dt in
    if nltb Nm ((cst 135 * pi) / cst 180) th0 then F else
    let th1 := if nltb Nm c0 (vdot Nm e2 nrm1) then (cst 2 * pi) - th0 else th0 in
    let th := pi - th1 in
    let el := vnorm Nm e0 in
    let pf1 := ((- cst 3) * (c1 + lcos L th)) * kb in
    let pf2 := ((((cst 3 * el) * el) / sumA) * lsin L th) * kb in
    if neqb Nm el c0 || neqb Nm (ff_area f1) c0 || neqb Nm (ff_area f2) c0 then F else
    if neqb Nm al1 c0 || neqb Nm al2 c0 || neqb Nm al3 c0 || neqb Nm al4 c0 then F else
    let minv := (- c1) / el in
    let g0t := vscale Nm (vadd Nm (vscale Nm nrm1 (cot al3)) (vscale Nm nrm2 (cot al4))) minv in
    let g1t := vscale Nm (vadd Nm (vscale Nm nrm1 (cot al1)) (vscale Nm nrm2 (cot al2))) minv in
    let g2t := vscale Nm nrm1 (el / (cst 2 * ff_area f1)) in
    let g3t := vscale Nm nrm2 (el / (cst 2 * ff_area f2)) in
    let hp := pi / cst 2 in
    let mhp := (- pi) / cst 2 in                    (* -M_PI / 2. as the source writes it *)
    let t1 := rotate_around_axis e1 nrm1 hp in
    let t2 := rotate_around_axis e2 nrm2 mhp in
    let t3 := rotate_around_axis e3 nrm1 mhp in
    let t4 := rotate_around_axis e4 nrm2 hp in
    let t00 := rotate_around_axis e0 nrm1 mhp in
    let t01 := rotate_around_axis e0 nrm2 hp in
    let pf3 := (el * el) / ((cst 2 * sumA) * sumA) in
    let g0i := vadd Nm (vscale Nm e0 ((- cst 2) / sumA)) (vscale Nm (vadd Nm t3 t4) pf3) in
    let g1i := vadd Nm (vscale Nm e0 (cst 2 / sumA)) (vscale Nm (vadd Nm t1 t2) pf3) in
    let g2i := vscale Nm t00 pf3 in
    let g3i := vscale Nm t01 pf3 in
    let fb (gi gt : vec) : vec := vadd Nm (vscale Nm gi pf1) (vscale Nm gt pf2) in
    add_force (add_force (add_force (add_force F (h_n1 h) (fb g0i g0t)) (h_n2 h) (fb g1i g1t)) n3 (fb g2i g2t)) n4 (fb g3i g3t).

  Definition apply_bending (nodes : list vec) (bends : list T) (faces : list fface) (hinges : list hinge) (F : list vec) : list vec :=
    if forallb (fun b => neqb Nm b c0) bends then F else
    fold_left (bending_hinge nodes bends faces) hinges F.
End Forces.
