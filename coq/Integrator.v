(* Integrator.v — time_integration_scheme::update_nodes_positions (src/time_integration/time_integration.cpp)
   for CONTACT_MODEL_INDEX in {0,1,2} x DYNAMIC_MODEL_INDEX in {0,1}.
   The population is flattened: nodes of all cells in list order (cell after cell, slot after slot), each node
   carrying the list position of its cell; a coupling designates the partner by its global index. *)
From Coq Require Import ZArith Bool List.
From SC Require Import Num Vec3.
Import ListNotations.

Section Integrator.
  Context {T : Type} (N : Num T).
  Notation "x + y" := (nadd N x y).
  Notation "x - y" := (nsub N x y).
  Notation "x * y" := (nmul N x y).
  Notation "x / y" := (ndiv N x y).
  Notation vec := (vec3 T).

  Record inode := mknode {
    n_used : bool;
    n_cell : nat;                    (* list position of the owner cell *)
    n_pos : vec; n_mom : vec; n_force : vec;
    n_cpl : option nat;              (* contact model 1: global index of the coupled node *)
    n_cpls : list nat }.             (* contact model 2: global indices of the coupled nodes, in map (cell id) order *)

  Record icell := mkcell {
    c_static : bool;
    c_local : nat;                   (* local_id_ as stored in the cell *)
    c_mass : T }.                    (* get_node_mass() = density*volume / number of live nodes *)

  Definition node_mass (density volume : T) (nb_live : Z) : T := (density * volume) / nofZ N nb_live.

  Record state := mkstate { s_cells : list icell; s_nodes : list inode; s_time : T }.

  Definition dnode : inode := mknode false 0 (vzero N) (vzero N) (vzero N) None [].
  Definition dcell : icell := mkcell true 0 (nzero N).

  Fixpoint set_nth {A} (l : list A) (k : nat) (x : A) : list A :=
    match l, k with
    | [], _ => []
    | _ :: r, O => x :: r
    | y :: r, S k' => y :: set_nth r k' x
    end.

  Definition half : T := ndiv N (none_ N) (nofZ N 2).   (* the literal 0.5 *)

  (* ---- one uncoupled node, semi-implicit Euler:
        momentum += (force - momentum*(damping/mass))*dt ; pos += momentum*(dt/mass) ; force = 0 *)
  Definition upd_dyn (dt damping m : T) (n : inode) : inode :=
    let mom' := vadd N (n_mom n) (vscale N (vsub N (n_force n) (vscale N (n_mom n) (damping / m))) dt) in
    let pos' := vadd N (n_pos n) (vscale N mom' (dt / m)) in
    mknode (n_used n) (n_cell n) pos' mom' (vzero N) (n_cpl n) (n_cpls n).

  (* ---- one uncoupled node, overdamped: pos += force*(dt/damping) ; force = 0 *)
  Definition upd_over (dt damping : T) (n : inode) : inode :=
    mknode (n_used n) (n_cell n) (vadd N (n_pos n) (vscale N (n_force n) (dt / damping))) (n_mom n) (vzero N) (n_cpl n) (n_cpls n).

  Definition upd_single (overdamped : bool) (dt damping m : T) (n : inode) : inode :=
    if overdamped then upd_over dt damping n else upd_dyn dt damping m n.

  (* ---- a coupled pair (contact model 1) *)
  Definition upd_pair (overdamped : bool) (dt damping m1 m2 : T) (n1 n2 : inode) : inode * inode :=
    let avg_f := vscale N (vadd N (n_force n1) (n_force n2)) half in
    let avg_m := (m1 + m2) * half in
    if overdamped then
      let d := vscale N avg_f (dt / damping) in
      (mknode (n_used n1) (n_cell n1) (vadd N (n_pos n1) d) (n_mom n1) (vzero N) (n_cpl n1) (n_cpls n1),
       mknode (n_used n2) (n_cell n2) (vadd N (n_pos n2) d) (n_mom n2) (vzero N) (n_cpl n2) (n_cpls n2))
    else
      let avg_p := vscale N (vadd N (n_mom n1) (n_mom n2)) half in
      let mom' := vadd N avg_p (vscale N (vsub N avg_f (vscale N avg_p (damping / avg_m))) dt) in
      let d := vscale N mom' (dt / avg_m) in
      (mknode (n_used n1) (n_cell n1) (vadd N (n_pos n1) d) mom' (vzero N) (n_cpl n1) (n_cpls n1),
       mknode (n_used n2) (n_cell n2) (vadd N (n_pos n2) d) mom' (vzero N) (n_cpl n2) (n_cpls n2)).

  (* ---- contact model 0: every live node of every non-static cell is uncoupled *)
  Definition process0 (overdamped : bool) (dt damping : T) (cells : list icell) (nodes : list inode) (k : nat) : list inode :=
    let n1 := nth k nodes dnode in
    let c1 := nth (n_cell n1) cells dcell in
    if c_static c1 then nodes else
    if negb (n_used n1) then nodes else
    set_nth nodes k (upd_single overdamped dt damping (c_mass c1) n1).

  (* ---- contact model 1 *)
  Definition process1 (overdamped : bool) (dt damping : T) (cells : list icell) (nodes : list inode) (k : nat) : list inode :=
    let n1 := nth k nodes dnode in
    let c1 := nth (n_cell n1) cells dcell in
    if c_static c1 then nodes else
    if negb (n_used n1) then nodes else
    match n_cpl n1 with
    | Some g2 =>
        let n2 := nth g2 nodes dnode in
        if Nat.ltb (n_cell n2) (c_local c1) then       (* c1->get_local_id() > c2_id *)
          let c2 := nth (n_cell n2) cells dcell in
          let '(n1', n2') := upd_pair overdamped dt damping (c_mass c1) (c_mass c2) n1 n2 in
          set_nth (set_nth nodes k n1') g2 n2'
        else nodes
    | None => set_nth nodes k (upd_single overdamped dt damping (c_mass c1) n1)
    end.

  (* ---- contact model 2: a node and the group of nodes it is coupled to *)
  Definition vdivs' (a : vec) (s : T) : vec := vdivs N a s.
  Definition process2 (overdamped : bool) (dt damping : T) (cells : list icell) (nodes : list inode) (k : nat) : list inode :=
    let n1 := nth k nodes dnode in
    let c1 := nth (n_cell n1) cells dcell in
    if c_static c1 then nodes else
    if negb (n_used n1) then nodes else
    let grp := n_cpls n1 in
    if negb (forallb (fun g => Nat.ltb (n_cell (nth g nodes dnode)) (c_local c1)) grp) then nodes else
    let sum_f := fold_left (fun acc g => vadd N acc (n_force (nth g nodes dnode))) grp (n_force n1) in
    let sum_m := fold_left (fun acc g => acc + c_mass (nth (n_cell (nth g nodes dnode)) cells dcell)) grp (c_mass c1) in
    let sum_p := fold_left (fun acc g => vadd N acc (n_mom (nth g nodes dnode))) grp (n_mom n1) in
    let cnt := nofZ N (Z.of_nat (length grp) + 1) in
    let avg_f := vdivs' sum_f cnt in
    let avg_m := sum_m / cnt in
    let avg_p := vdivs' sum_p cnt in
    let apply (n : inode) : inode :=
      if overdamped then
        mknode (n_used n) (n_cell n) (vadd N (n_pos n) (vscale N avg_f (dt / damping))) (n_mom n) (vzero N) (n_cpl n) (n_cpls n)
      else
        mknode (n_used n) (n_cell n) (vadd N (n_pos n) (vscale N avg_p (dt / avg_m)))
               (vadd N (n_mom n) (vscale N (vsub N avg_f (vscale N avg_p (damping / avg_m))) dt))
               (vzero N) (n_cpl n) (n_cpls n) in
    fold_left (fun nd g => set_nth nd g (apply (nth g nd dnode))) grp (set_nth nodes k (apply n1)).

  Definition step (contact : nat) (overdamped : bool) (dt damping : T) (s : state) : state :=
    let proc := match contact with O => process0 | S O => process1 | _ => process2 end in
    mkstate (s_cells s)
            (fold_left (proc overdamped dt damping (s_cells s)) (seq 0 (length (s_nodes s))) (s_nodes s))
            (s_time s + dt).

  Fixpoint steps (n : nat) (contact : nat) (overdamped : bool) (dt damping : T) (s : state) : state :=
    match n with O => s | S k => steps k contact overdamped dt damping (step contact overdamped dt damping s) end.
End Integrator.

Arguments inode T : clear implicits.
Arguments icell T : clear implicits.
Arguments state T : clear implicits.
