(* Properties_C15.v — property C15 (partial): results independent of thread count / schedule; parallel errors become
   exceptions.  Only statements; every proof is `exact <lemma of ScheduleProofs.v>`.  Model: Schedule.v (+ Population.v).
   What the model cannot exhibit: the C++ memory model and the OpenMP runtime (data races are observed with
   ThreadSanitizer by the check); that the footprint of each per-cell loop body really is its own cell is read off the
   code and validated by bit-exact runs with 1..16 threads: see DESIGN.md. *)
From Coq Require Import Arith Bool List NArith Permutation.
From SC Require Import Population PopulationSpec PopulationProofs Schedule ScheduleProofs Facts_gen.
Import ListNotations.

(* two schedules that apply the same steps to every component in the same per-component order give the same state *)
Theorem schedule_irrelevant_for_disjoint_footprints : forall (A : Type) (s1 s2 : list (step (A:=A))) (st : list A),
  (forall i, proj i s1 = proj i s2) -> run_schedule s1 st = run_schedule s2 st.
Proof. exact same_projections_same_result. Qed.
Print Assumptions schedule_irrelevant_for_disjoint_footprints.

(* hence every interleaving of per-cell tasks (any thread count, any OpenMP schedule) equals the sequential loop *)
Theorem every_interleaving_equals_sequential : forall (A : Type) (tasks : list (list (A -> A))) (sched : list (step (A:=A))) (st : list A),
  interleaving tasks sched -> run_schedule sched st = run_schedule (sequential tasks) st.
Proof. exact interleaving_sequential. Qed.
Print Assumptions every_interleaving_equals_sequential.

(* a step of task i never changes another component *)
Theorem other_components_untouched : forall (A : Type) (sched : list (step (A:=A))) (st : list A) (j : nat),
  proj j sched = [] -> nth_error (run_schedule sched st) j = nth_error st j.
Proof. exact untouched_component. Qed.
Print Assumptions other_components_untouched.

(* the exception handler: when no task throws nothing is raised; otherwise the caller receives one of the thrown
   exceptions, whatever the order in which the tasks finish (and only after every task has run: the order is a
   permutation of ALL task indices) *)
Theorem handler_raises_iff_some_task_threw : forall (E : Type) (results : list (outcome (E:=E))) (order : list nat),
  Permutation order (seq 0 (length results)) ->
  (handler results order = None <-> Forall (fun r => r = Done) results) /\
  (forall e, handler results order = Some e -> In (Threw e) results).
Proof. exact handler_spec. Qed.
Print Assumptions handler_raises_iff_some_task_threw.

(* simultaneous divisions: whatever the order in which the dividing threads enter the critical section, the resulting
   list of ids is the same (mothers erased, 2k fresh consecutive ids appended), no cell lost or duplicated *)
Theorem simultaneous_divisions_order_irrelevant : forall p ms ms', PopInv p -> Permutation ms ms' -> NoDup ms ->
  (forall m, In m ms -> (m < length (p_cells p))%nat) ->
  ids (divide ms' p) = ids (divide ms p) /\ p_counter (divide ms' p) = p_counter (divide ms p).
Proof. exact divide_order_irrelevant. Qed.
Print Assumptions simultaneous_divisions_order_irrelevant.

(* the population list must not be read while another thread resizes it.  With the appends INSIDE the parallel region
   the protocol admits a schedule with a dangling read (thread 1 loads the buffer address, another thread's push_back
   reallocates, thread 1 dereferences): this is the defect repaired in cell_divider::run *)
Theorem push_inside_parallel_region_admits_dangling_read :
  exists es, v_stale (vrun es (mkvs 2 2 0 [] false)) = true.
Proof. exact dangling_read_witness. Qed.
Print Assumptions push_inside_parallel_region_admits_dangling_read.

(* with the appends deferred to after the loop no schedule has a dangling read *)
Theorem deferred_appends_never_dangle : forall es s, deferred es = true -> v_stale s = false ->
  (forall p, In p (v_pending s) -> snd p = v_gen s) -> v_stale (vrun es s) = false.
Proof. exact deferred_safe. Qed.
Print Assumptions deferred_appends_never_dangle.

(* THE TIE TO THE SOURCE of the handler model: Facts_gen.v (regenerated from include/utils.hpp on every run) records the shape of
   parallel_exception_handler that `handler` of Schedule.v assumes: one shared exception slot declared before the parallel region
   (not private, lastprivate or a reduction), every task inside `try` with a catch-all that stores the current exception under a
   critical section, a loop that visits every element with no early exit, and a rethrow after the loop iff a slot was stored. *)
Theorem exception_handler_has_the_modelled_shape : facts_translation_ok = true /\ handler_shape = (true, true, true, true).
Proof. split; reflexivity. Qed.
Print Assumptions exception_handler_has_the_modelled_shape.
