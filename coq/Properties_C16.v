(* Properties_C16.v — property C16: mesh files written by the simulator are read back as the same tissue.
   Only statements; every proof is `exact <lemma of VtkProofs.v>`.  Model: Vtk.v (token level). *)
From Coq Require Import NArith Arith Bool List Lia.
From SC Require Import Vtk VtkSpec VtkProofs.
Import ListNotations.
Local Open Scope N_scope.

(* round trip: for every population of compacted valid cells, reading what was written returns the same number of
   cells, the same types, triangle i of cell k over the same local node ids (the reader's renumbering is the identity
   on a compacted cell), and for every coordinate the value of its written numeral *)
Theorem roundtrip : forall (F V : Type) (sem : F -> option V) (v : F -> V) (cells : list (wcell (F:=F))),
  cells <> [] -> Forall good_cell cells ->
  (forall c x, In c cells -> In x (w_coords c) -> sem x = Some (v x)) ->
  read_file sem (write_file cells) = Ok (map (expect_mesh v) cells, map (fun c => w_type c) cells).
Proof. exact write_read. Qed.
Print Assumptions roundtrip.

(* declared counts match contents *)
Theorem declared_points_match : forall (F : Type) (cells : list (wcell (F:=F))),
  Forall (fun c => exists n, length (w_coords c) = (3 * n)%nat) cells ->
  N.of_nat (length (flat_map (fun c => w_coords c) cells)) = 3 * total_nodes cells.
Proof. exact points_count. Qed.
Print Assumptions declared_points_match.

Theorem declared_cell_integers_match : forall (F : Type) (cells : list (wcell (F:=F))),
  N.of_nat (length (flat_map (fun oc => cell_toks (F:=F) (fst oc) (snd oc)) (combine (offsets cells 0) cells))) = total_ints cells.
Proof. exact cells_count_tokens. Qed.
Print Assumptions declared_cell_integers_match.

(* whatever the reader accepts is index-safe: every face of every returned mesh designates three coordinates that
   exist (the bounds check the reader needs; see the C17 finding on the unchecked copy) *)
Theorem read_ok_index_safe : forall (F V : Type) (sem : F -> option V) (file : list (tok (F:=F))) ms tys,
  read_file sem file = Ok (ms, tys) -> Forall mesh_index_safe ms.
Proof. exact read_safe. Qed.
Print Assumptions read_ok_index_safe.

(* named malformations are rejected by the model *)
Theorem reject_inconsistent_point_count : forall (F V : Type) (sem : F -> option V) (n : N) (xs : list F) (rest : list (tok (F:=F))) (vs : list V),
  (match rest with X _ :: _ => False | _ => True end) ->
  sem_all sem xs = Some vs -> N.of_nat (length vs) / 3 <> n ->
  read_points sem (KPoints :: I n :: map X xs ++ rest) = Err ECount.
Proof. exact reject_count. Qed.
Print Assumptions reject_inconsistent_point_count.

Theorem reject_bad_number : forall (F V : Type) (sem : F -> option V) (n : N) (xs : list F) (rest : list (tok (F:=F))),
  (match rest with X _ :: _ => False | _ => True end) ->
  sem_all sem xs = None ->
  read_points sem (KPoints :: I n :: map X xs ++ rest) = Err EBadNumber.
Proof. exact reject_number. Qed.
Print Assumptions reject_bad_number.

Theorem reject_dangling_point : forall (V : Type) (pts : list V) (rec : list N) (nf : N) (faces : list (list N)) (g : N),
  rec = nf :: flat_map (fun f => N.of_nat (length f) :: f) faces -> N.of_nat (length faces) = nf ->
  In g (concat faces) -> (length pts < N.to_nat (g * 3) + 3)%nat ->
  cell_mesh pts rec = Err EDangling.
Proof. exact reject_dangling. Qed.
Print Assumptions reject_dangling_point.

Theorem reject_missing_sections : forall (F V : Type) (sem : F -> option V) (file : list (tok (F:=F))),
  (forall t, In t file -> t <> KPoints) -> read_file sem file = Err ENoPoints.
Proof. exact reject_no_points. Qed.
Print Assumptions reject_missing_sections.
