(* Vec3.v — vec3 of src/math_modules/vec3.cpp, operation for operation, over any Num. *)
From Coq Require Import ZArith Bool List.
From SC Require Import Num.
Import ListNotations.

Section Vec3.
  Context {T : Type} (N : Num T).
  Notation "x + y" := (nadd N x y).
  Notation "x - y" := (nsub N x y).
  Notation "x * y" := (nmul N x y).
  Notation "x / y" := (ndiv N x y).

  Record vec3 := mkv { vx : T; vy : T; vz : T }.

  Definition vzero : vec3 := mkv (nzero N) (nzero N) (nzero N).
  Definition vadd (a b : vec3) : vec3 := mkv (vx a + vx b) (vy a + vy b) (vz a + vz b).
  Definition vsub (a b : vec3) : vec3 := mkv (vx a - vx b) (vy a - vy b) (vz a - vz b).
  Definition vscale (a : vec3) (s : T) : vec3 := mkv (vx a * s) (vy a * s) (vz a * s).
  Definition vdivs (a : vec3) (s : T) : vec3 := mkv (vx a / s) (vy a / s) (vz a / s).
  Definition vneg (a : vec3) : vec3 := mkv (nneg N (vx a)) (nneg N (vy a)) (nneg N (vz a)).
  (* dx_*v.dx() + dy_*v.dy() + dz_*v.dz(), left to right *)
  Definition vdot (a b : vec3) : T := (vx a * vx b + vy a * vy b) + vz a * vz b.
  Definition vcross (a b : vec3) : vec3 :=
    mkv (vy a * vz b - vz a * vy b) (vz a * vx b - vx a * vz b) (vx a * vy b - vy a * vx b).
  Definition vsqnorm (a : vec3) : T := (vx a * vx a + vy a * vy a) + vz a * vz a.
  Definition vnorm (a : vec3) : T := nsqrt N (vsqnorm a).
  Definition vnormalize (a : vec3) : vec3 :=
    let n := vnorm a in if neqb N n (nzero N) then vzero else vdivs a n.
End Vec3.

Arguments mkv {T}. Arguments vx {T}. Arguments vy {T}. Arguments vz {T}.
Arguments vec3 T : clear implicits.
