(* Mesh.v — combinatorics of a triangulated surface: triangles over node ids, directed half-edges,
   the operational definition of "closed, consistently oriented, genus-0 2-manifold" used by C01, C02, C09,
   C12, C13, and its boolean decision procedure (the oracle run on implementation dumps). *)
From Coq Require Import NArith ZArith Bool List Lia.
Import ListNotations.
Local Open Scope N_scope.

Definition tri := (N * N * N)%type.
Definition hedge := (N * N)%type.

Definition hedges (t : tri) : list hedge := let '(a, b, c) := t in [(a, b); (b, c); (c, a)].
Definition all_hedges (s : list tri) : list hedge := flat_map hedges s.
Definition hswap (e : hedge) : hedge := (snd e, fst e).
Definition tri_nodes (t : tri) : list N := let '(a, b, c) := t in [a; b; c].
Definition all_nodes (s : list tri) : list N := flat_map tri_nodes s.

Definition tri_distinct (t : tri) : Prop := let '(a, b, c) := t in a <> b /\ b <> c /\ a <> c.
Definition tri_distinct_b (t : tri) : bool := let '(a, b, c) := t in negb (a =? b) && negb (b =? c) && negb (a =? c).

Definition hedge_eqb (e f : hedge) : bool := (fst e =? fst f) && (snd e =? snd f).
Definition mem_hedge (e : hedge) (l : list hedge) : bool := existsb (hedge_eqb e) l.
Definition memN (x : N) (l : list N) : bool := existsb (N.eqb x) l.

Fixpoint nodup_b {A} (eqb : A -> A -> bool) (l : list A) : bool :=
  match l with
  | [] => true
  | x :: r => negb (existsb (eqb x) r) && nodup_b eqb r
  end.

(* distinct elements of a list, first occurrences kept *)
Fixpoint dedupN (l : list N) : list N :=
  match l with
  | [] => []
  | x :: r => if memN x r then dedupN r else x :: dedupN r
  end.

Definition n_vertices (s : list tri) : nat := length (dedupN (all_nodes s)).
Definition n_hedges (s : list tri) : nat := length (all_hedges s).

(* Euler characteristic with E = half the number of half-edges *)
Definition euler_ok (s : list tri) : Prop :=
  (Z.of_nat (n_vertices s) * 2 - Z.of_nat (n_hedges s) + Z.of_nat (length s) * 2 = 4)%Z.
Definition euler_ok_b (s : list tri) : bool :=
  (Z.of_nat (n_vertices s) * 2 - Z.of_nat (n_hedges s) + Z.of_nat (length s) * 2 =? 4)%Z.

(* closed, consistently oriented triangulated surface with V - E + F = 2:
   (i) no triangle repeats a node; (ii) no directed half-edge occurs twice; (iii) the half-edge set is closed under
   reversal -- (ii)+(iii): every edge is shared by exactly two triangles that traverse it in opposite directions;
   (iv) V - E + F = 2 *)
Record ValidSurface (s : list tri) : Prop := mkVS {
  vs_distinct : Forall tri_distinct s;
  vs_nodup : NoDup (all_hedges s);
  vs_closed : forall e, In e (all_hedges s) -> In (hswap e) (all_hedges s);
  vs_euler : euler_ok s }.

Definition closed_b (s : list tri) : bool :=
  let h := all_hedges s in forallb (fun e => mem_hedge (hswap e) h) h.

Definition valid_surface_b (s : list tri) : bool :=
  forallb tri_distinct_b s && nodup_b hedge_eqb (all_hedges s) && closed_b s && euler_ok_b s.

(* the same against a dump of the cell store: the live node ids must be exactly the nodes the triangles use *)
Definition same_set_b (l1 l2 : list N) : bool := forallb (fun x => memN x l2) l1 && forallb (fun x => memN x l1) l2.
Definition valid_dump_b (live_nodes : list N) (s : list tri) : bool :=
  valid_surface_b s && same_set_b live_nodes (all_nodes s) && nodup_b N.eqb live_nodes.

(* connectedness of the face adjacency is implied by (ii)-(iv) only together with the classification of surfaces;
   it is checked separately on dumps: flood fill over shared edges with fuel *)
Definition shares_edge (t u : tri) : bool := existsb (fun e => mem_hedge (hswap e) (hedges u)) (hedges t).
Fixpoint flood (fuel : nat) (front rest : list tri) : list tri :=
  match fuel with
  | O => rest
  | S k =>
      match front with
      | [] => rest
      | t :: fr =>
          let '(adj, others) := partition (shares_edge t) rest in
          flood k (fr ++ adj) others
      end
  end.
Definition connected_b (s : list tri) : bool :=
  match s with
  | [] => true
  | t :: r => match flood (S (length s)) [t] r with [] => true | _ => false end
  end.
