(* Contact.v — the contact phase of the default contact model (CONTACT_MODEL_INDEX == 1):
   contact_model_abstract::{update_face_aabbs, store_face_in_uspg, aabb_intersection_check} and
   contact_node_node_via_coupling::{run, resolve_all_contacts, resolve_contact}, statement for statement, over any Num
   with a floor/ceil to Z.  Out-of-range voxel indices are explicit None results (the C++ would index out of bounds).
   The same narrow phase driven by ALL node-face pairs (no grid) is `all_pairs_phase`. *)
From Coq Require Import ZArith Bool List.
From SC Require Import Num Vec3 Kernel Grid.
Import ListNotations.

Section Contact.
  Context {T : Type} (N : Num T) (floorZ ceilZ : T -> Z).
  Variables (eps dmax inf : T).            (* DBL_EPSILON, DBL_MAX, +infinity *)
  Variables (c45 c90 : T).                 (* cos(45 deg), cos(90 deg) as folded by the compiler *)
  Variables (lmin cut_adh cut_rep : T).    (* min_edge_len_, contact_cutoff_adhesion_, contact_cutoff_repulsion_ *)

  Notation vec := (vec3 T).
  Notation "x + y" := (nadd N x y).
  Notation "x - y" := (nsub N x y).
  Notation "x * y" := (nmul N x y).
  Notation "x <? y" := (nltb N x y) (at level 70).

  Record cnode := mkcn { cn_used : bool; cn_pos : vec; cn_normal : vec; cn_curv : T; cn_force : vec;
                         cn_cpl : option (nat * nat); cn_sqd : T }.
  Record cface := mkcf { cf_n1 : nat; cf_n2 : nat; cf_n3 : nat; cf_normal : vec; cf_area : T; cf_rep : T }.  (* used faces, slot order *)
  Record ccell := mkcc { cc_id : nat; cc_local : nat; cc_type : nat; cc_maxcurv : T; cc_nodes : list cnode; cc_faces : list cface }.
  Definition state := list ccell.

  (* constants of the constructor *)
  Definition cut2_adh : T := cut_adh * cut_adh.
  Definition cut2_rep : T := cut_rep * cut_rep.
  Definition cut2_max : T := nmax N cut2_rep cut2_adh.
  Definition pad : T := nmax N cut_rep cut_adh.
  Definition vsize : T := (lmin * nofZ N 3) + (nofZ N 2 * pad).

  (* ------------------------------------------------------------------ generic list update *)
  Fixpoint updn {B} (l : list B) (n : nat) (f : B -> B) : list B :=
    match l, n with
    | [], _ => []
    | x :: r, O => f x :: r
    | x :: r, S k => x :: updn r k f
    end.
  Definition upd_node (st : state) (ci ni : nat) (f : cnode -> cnode) : state :=
    updn st ci (fun c => mkcc (cc_id c) (cc_local c) (cc_type c) (cc_maxcurv c) (updn (cc_nodes c) ni f) (cc_faces c)).
  Definition add_force (n : cnode) (v : vec) : cnode :=
    mkcn (cn_used n) (cn_pos n) (cn_normal n) (cn_curv n) (vadd N (cn_force n) v) (cn_cpl n) (cn_sqd n).
  Definition set_cpl (n : cnode) (c : option (nat * nat)) (d : T) : cnode :=
    mkcn (cn_used n) (cn_pos n) (cn_normal n) (cn_curv n) (cn_force n) c d.
  Definition set_pos (n : cnode) (p : vec) : cnode :=
    mkcn (cn_used n) p (cn_normal n) (cn_curv n) (cn_force n) (cn_cpl n) (cn_sqd n).

  (* ------------------------------------------------------------------ run(): reset of the couplings *)
  Definition reset_node (n : cnode) : cnode := if cn_used n then set_cpl n None dmax else n.
  Definition reset_state (st : state) : state :=
    map (fun c => mkcc (cc_id c) (cc_local c) (cc_type c) (cc_maxcurv c) (map reset_node (cc_nodes c)) (cc_faces c)) st.

  (* the global face list: (index of the owner cell in the list, face), global id = position *)
  Definition gfaces (st : state) : list (nat * cface) :=
    concat (map (fun ic => map (fun f => (fst ic, f)) (cc_faces (snd ic))) (combine (seq 0 (length st)) st)).

  (* ------------------------------------------------------------------ update_face_aabbs *)
  Definition node_pos (st : state) (ci ni : nat) : option vec :=
    match nth_error st ci with
    | Some c => option_map cn_pos (nth_error (cc_nodes c) ni)
    | None => None
    end.

  Record box := mkbox { b_lo : vec; b_hi : vec }.

  Definition min3 (a b c : T) : T := nmin N a (nmin N b c).
  Definition max3 (a b c : T) : T := nmax N a (nmax N b c).
  Definition face_box (p1 p2 p3 : vec) : box :=
    mkbox (mkv (min3 (vx p1) (vx p2) (vx p3) - pad) (min3 (vy p1) (vy p2) (vy p3) - pad) (min3 (vz p1) (vz p2) (vz p3) - pad))
          (mkv (nadd N (max3 (vx p1) (vx p2) (vx p3)) pad) (nadd N (max3 (vy p1) (vy p2) (vy p3)) pad) (nadd N (max3 (vz p1) (vz p2) (vz p3)) pad)).

  Definition face_box_of (st : state) (cf : nat * cface) : option box :=
    let '(ci, f) := cf in
    match node_pos st ci (cf_n1 f), node_pos st ci (cf_n2 f), node_pos st ci (cf_n3 f) with
    | Some p1, Some p2, Some p3 => Some (face_box p1 p2 p3)
    | _, _, _ => None
    end.

  Fixpoint all_some {A} (l : list (option A)) : option (list A) :=
    match l with
    | [] => Some []
    | Some a :: r => option_map (cons a) (all_some r)
    | None :: _ => None
    end.

  Definition upd_min (g x : T) : T := if x <? g then x else g.      (* if(face_min < global_min) global_min = face_min *)
  Definition upd_max (g x : T) : T := if g <? x then x else g.      (* if(face_max > global_max) global_max = face_max *)
  Definition global_box (boxes : list box) : box :=
    let ninf := nneg N inf in
    let g := fold_left (fun g b =>
               mkbox (mkv (upd_min (vx (b_lo g)) (vx (b_lo b))) (upd_min (vy (b_lo g)) (vy (b_lo b))) (upd_min (vz (b_lo g)) (vz (b_lo b))))
                     (mkv (upd_max (vx (b_hi g)) (vx (b_hi b))) (upd_max (vy (b_hi g)) (vy (b_hi b))) (upd_max (vz (b_hi g)) (vz (b_hi b)))))
             boxes (mkbox (mkv inf inf inf) (mkv ninf ninf ninf)) in
    mkbox (mkv (vx (b_lo g) - pad) (vy (b_lo g) - pad) (vz (b_lo g) - pad)) (b_hi g).

  (* ------------------------------------------------------------------ store_face_in_uspg *)
  Definition grid_of (gb : box) : dims (T:=T) :=
    update_dimensions N ceilZ eps vsize (vx (b_lo gb), vy (b_lo gb), vz (b_lo gb)) (vx (b_hi gb), vy (b_hi gb), vz (b_hi gb)).

  Definition raw3 (g : dims (T:=T)) (p : vec) : Z * Z * Z :=
    let '(lx, ly, lz) := d_lo g in
    (raw_idx1 N floorZ lx (d_s g) (vx p), raw_idx1 N floorZ ly (d_s g) (vy p), raw_idx1 N floorZ lz (d_s g) (vz p)).

  (* the voxels a face box overlaps: x outer, z inner, inclusive ranges *)
  Definition box_voxels (g : dims (T:=T)) (b : box) : list (Z * Z * Z) :=
    let '(nx, ny, nz) := d_nb g in
    let '(xs, ys, zs) := raw3 g (b_lo b) in
    let '(xe0, ye0, ze0) := raw3 g (b_hi b) in
    let xe := Z.min xe0 (nx - 1) in let ye := Z.min ye0 (ny - 1) in let ze := Z.min ze0 (nz - 1) in   (* the stop index is clamped to the last voxel *)
    flat_map (fun x => flat_map (fun y => map (fun z => (x, y, z)) (zrange zs (ze + 1))) (zrange ys (ye + 1))) (zrange xs (xe + 1)).

  Definition store := list (list nat).        (* per voxel: global face ids, most recently placed first *)
  Definition place_face (g : dims (T:=T)) (st : option store) (i : nat) (b : box) : option store :=
    fold_left (fun acc v => match acc with
                            | Some s => if in_range g v then Some (updn s (Z.to_nat (flat g v)) (fun c => i :: c)) else None
                            | None => None end)
              (box_voxels g b) st.
  Definition register (g : dims (T:=T)) (boxes : list box) : option store :=
    fold_left (fun acc ib => place_face g acc (fst ib) (snd ib)) (combine (seq 0 (length boxes)) boxes)
              (Some (repeat [] (Z.to_nat (nvox g)))).

  (* ------------------------------------------------------------------ aabb_intersection_check *)
  Definition in_box (b : box) (p : vec) : bool :=
    negb ((vx p <? vx (b_lo b)) || (vx (b_hi b) <? vx p)) &&
    negb ((vy p <? vy (b_lo b)) || (vy (b_hi b) <? vy p)) &&
    negb ((vz p <? vz (b_lo b)) || (vz (b_hi b) <? vz p)).

  (* ------------------------------------------------------------------ resolve_contact *)
  (* the repulsion of one node-triangle interaction: forces on (the node, the three face nodes), if any *)
  Definition interaction (p a b c fnormal : vec) (area rep : T) (t1 t2 : nat) : option (vec * vec * vec * vec) :=
    let k := kernel N p a b c in
    if k_dist k <? cut2_max then
      let u := k_bary k in
      let cpa := vadd N (vadd N (vscale N a (vx u)) (vscale N b (vy u))) (vscale N c (vz u)) in
      let d := vsub N p cpa in
      let r0 := vdot N d fnormal <? nzero N in
      let r1 := if Nat.eqb t1 0 && Nat.eqb t2 1 then negb r0 else r0 in
      let r2 := if Nat.eqb t1 3 && Nat.eqb t2 0 then negb r1 else r1 in
      if r2 then
        let F := vscale N (vscale N d rep) area in
        Some (vscale N F (nneg N (none_ N)), vscale N F (vx u), vscale N F (vy u), vscale N F (vz u))
      else None
    else None.

  (* the choice of the face node a node is coupled to (both cells epithelial): Some (face node slot, squared distance) *)
  Definition cpl_dist (n1 fn : cnode) (maxcurv : T) : T :=
    let d0 := vsqnorm N (vsub N (cn_pos n1) (cn_pos fn)) in
    let d1 := if c45 <? vdot N (cn_normal n1) (cn_normal fn) then dmax else d0 in
    let d2 := if (match cn_cpl fn with Some _ => true | None => false end) && (cn_sqd fn <? d1) then dmax else d1 in
    if maxcurv <? cn_curv fn then dmax else d2.
  Definition cpl_choice (n1 a b c : cnode) (ia ib ic : nat) (maxcurv : T) : nat * T :=
    let d1 := cpl_dist n1 a maxcurv in let d2 := cpl_dist n1 b maxcurv in let d3 := cpl_dist n1 c maxcurv in
    if (d1 <? d2) && (d1 <? d3) then (ia, d1) else if (d2 <? d1) && (d2 <? d3) then (ib, d2) else (ic, d3).

  Definition resolve_contact (st : state) (c1i n1i : nat) (gf : nat * cface) : option state :=
    let '(c2i, f) := gf in
    match nth_error st c1i, nth_error st c2i with
    | Some c1, Some c2 =>
        match nth_error (cc_nodes c1) n1i, nth_error (cc_nodes c2) (cf_n1 f), nth_error (cc_nodes c2) (cf_n2 f), nth_error (cc_nodes c2) (cf_n3 f) with
        | Some n1, Some a, Some b, Some c =>
            let coupled :=
              if Nat.eqb (cc_type c1) 0 && Nat.eqb (cc_type c2) 0 then
                let '(n2i, d) := cpl_choice n1 a b c (cf_n1 f) (cf_n2 f) (cf_n3 f) (cc_maxcurv c1) in
                if (d <? cut2_adh) && (d <? cn_sqd n1) then
                  Some (upd_node (upd_node st c1i n1i (fun n => set_cpl n (Some (cc_local c2, n2i)) d))
                                 c2i n2i (fun n => set_cpl n (Some (cc_local c1, n1i)) d))
                else None
              else None in
            match coupled with
            | Some st' => Some st'
            | None =>
                match interaction (cn_pos n1) (cn_pos a) (cn_pos b) (cn_pos c) (cf_normal f) (cf_area f) (cf_rep f) (cc_type c1) (cc_type c2) with
                | Some (fn, fa, fb, fc) =>
                    let s1 := upd_node st c2i (cf_n1 f) (fun n => add_force n fa) in
                    let s2 := upd_node s1 c2i (cf_n2 f) (fun n => add_force n fb) in
                    let s3 := upd_node s2 c2i (cf_n3 f) (fun n => add_force n fc) in
                    Some (upd_node s3 c1i n1i (fun n => add_force n fn))
                | None => Some st
                end
            end
        | _, _, _, _ => None
        end
    | _, _ => None
    end.

  (* what a node does with one candidate face (the body of the innermost loop of resolve_all_contacts) *)
  Definition try_face (boxes : list box) (gfs : list (nat * cface)) (c1i n1i : nat) (acc : option state) (fid : nat) : option state :=
    match acc with
    | None => None
    | Some st =>
        match nth_error st c1i, nth_error gfs fid, nth_error boxes fid with
        | Some c1, Some gf, Some b =>
            match nth_error st (fst gf), nth_error (cc_nodes c1) n1i with
            | Some c2, Some n1 =>
                if negb (Nat.eqb (cc_id c1) (cc_id c2)) then
                  if in_box b (cn_pos n1) && (vdot N (cn_normal n1) (cf_normal (snd gf)) <? c90)
                  then resolve_contact st c1i n1i gf else Some st
                else Some st
            | _, _ => None
            end
        | _, _, _ => None
        end
    end.

  (* the candidate faces of a node: the content of its own voxel *)
  Definition candidates (g : dims (T:=T)) (s : store) (p : vec) : option (list nat) :=
    let v := raw3 g p in if in_range g v then Some (nth (Z.to_nat (flat g v)) s []) else None.

  Definition node_active (c : ccell) (n : cnode) : bool := cn_used n && (cn_curv n <? cc_maxcurv c).

  (* the loop over cells and nodes, with the candidate faces given by `cands` *)
  Definition node_loop (cands : vec -> option (list nat)) (boxes : list box) (gfs : list (nat * cface)) (st0 : state) : option state :=
    fold_left (fun acc ci =>
      match acc with None => None | Some st =>
        match nth_error st ci with None => None | Some c0 =>
          fold_left (fun acc2 ni =>
            match acc2 with None => None | Some st2 =>
              match nth_error st2 ci with None => None | Some c =>
                match nth_error (cc_nodes c) ni with None => None | Some n =>
                  if node_active c n then
                    match cands (cn_pos n) with
                    | None => None
                    | Some l => fold_left (try_face boxes gfs ci ni) l (Some st2)
                    end
                  else Some st2
                end end end)
            (seq 0 (length (cc_nodes c0))) (Some st)
        end end)
      (seq 0 (length st0)) (Some st0).

  (* second loop of resolve_all_contacts: a coupled pair (c1 > c2) is moved to its centre point *)
  Definition half : T := ndiv N (none_ N) (nofZ N 2).
  Definition centre_pairs (st0 : state) : option state :=
    fold_left (fun acc ci =>
      match acc with None => None | Some st =>
        match nth_error st ci with None => None | Some c0 =>
          fold_left (fun acc2 ni =>
            match acc2 with None => None | Some st2 =>
              match nth_error st2 ci with None => None | Some c =>
                match nth_error (cc_nodes c) ni with None => None | Some n =>
                  if cn_used n then
                    match cn_cpl n with
                    | Some (c2i, n2i) =>
                        if Nat.ltb c2i ci then
                          match nth_error st2 c2i with None => None | Some c2 =>
                            match nth_error (cc_nodes c2) n2i with None => None | Some n2 =>
                              let m := vscale N (vadd N (cn_pos n) (cn_pos n2)) half in
                              Some (upd_node (upd_node st2 ci ni (fun x => set_pos x m)) c2i n2i (fun x => set_pos x m))
                            end end
                        else Some st2
                    | None => Some st2
                    end
                  else Some st2
                end end end)
            (seq 0 (length (cc_nodes c0))) (Some st)
        end end)
      (seq 0 (length st0)) (Some st0).

  (* ------------------------------------------------------------------ the phase, with the grid and with all pairs *)
  Record prepared := mkprep { p_state : state; p_gfs : list (nat * cface); p_boxes : list box; p_gbox : box; p_grid : dims (T:=T) }.
  Definition prepare (st : state) : option prepared :=
    let st1 := reset_state st in
    let gfs := gfaces st1 in
    match all_some (map (face_box_of st1) gfs) with
    | None => None
    | Some boxes => let gb := global_box boxes in Some (mkprep st1 gfs boxes gb (grid_of gb))
    end.

  Definition contact_phase (st : state) : option (state * store) :=
    match prepare st with
    | None => None
    | Some p =>
        match register (p_grid p) (p_boxes p) with
        | None => None
        | Some s =>
            match node_loop (candidates (p_grid p) s) (p_boxes p) (p_gfs p) (p_state p) with
            | Some st2 => option_map (fun r => (r, s)) (centre_pairs st2)
            | None => None
            end
        end
    end.

  (* the same rules applied to ALL faces, in decreasing global id (the order in which a voxel lists them) *)
  Definition all_faces_desc (p : prepared) : list nat := rev (seq 0 (length (p_gfs p))).
  Definition all_pairs_phase (st : state) : option state :=
    match prepare st with
    | None => None
    | Some p =>
        match node_loop (fun _ => Some (all_faces_desc p)) (p_boxes p) (p_gfs p) (p_state p) with
        | Some st2 => centre_pairs st2
        | None => None
        end
    end.

  (* ------------------------------------------------------------------ the same rules with NO bounding-box test at all:
     every node of every other cell's faces is handed to resolve_contact (which applies the cut-offs itself) *)
  Definition try_face_nobox (gfs : list (nat * cface)) (c1i n1i : nat) (acc : option state) (fid : nat) : option state :=
    match acc with
    | None => None
    | Some st =>
        match nth_error st c1i, nth_error gfs fid with
        | Some c1, Some gf =>
            match nth_error st (fst gf), nth_error (cc_nodes c1) n1i with
            | Some c2, Some n1 =>
                if negb (Nat.eqb (cc_id c1) (cc_id c2)) then
                  if vdot N (cn_normal n1) (cf_normal (snd gf)) <? c90
                  then resolve_contact st c1i n1i gf else Some st
                else Some st
            | _, _ => None
            end
        | _, _ => None
        end
    end.
  Definition node_loop_nobox (gfs : list (nat * cface)) (st0 : state) : option state :=
    fold_left (fun acc ci =>
      match acc with None => None | Some st =>
        match nth_error st ci with None => None | Some c0 =>
          fold_left (fun acc2 ni =>
            match acc2 with None => None | Some st2 =>
              match nth_error st2 ci with None => None | Some c =>
                match nth_error (cc_nodes c) ni with None => None | Some n =>
                  if node_active c n then fold_left (try_face_nobox gfs ci ni) (rev (seq 0 (length gfs))) (Some st2) else Some st2
                end end end)
            (seq 0 (length (cc_nodes c0))) (Some st)
        end end)
      (seq 0 (length st0)) (Some st0).
  Definition all_pairs_nobox_phase (st : state) : option state :=
    match prepare st with
    | None => None
    | Some p => match node_loop_nobox (p_gfs p) (p_state p) with Some st2 => centre_pairs st2 | None => None end
    end.
End Contact.
