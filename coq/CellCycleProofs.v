(* CellCycleProofs.v — theorems about CellCycle.v at the real numbers (property C04). *)
From Coq Require Import Reals Lra Bool ZArith List Rpower.
From SC Require Import Num VecR CellCycle.
Import ListNotations.
Local Open Scope R_scope.

(* the real-number "libm": only log and exp matter here *)
Definition LibmR : Libm R := {|
  lcos := cos; lsin := sin; ltan := tan; lacos := acos; llog := ln; lexp := exp;
  lcbrt := fun x => Rpower x (/ 3); lpow := Rpower |}.

Lemma target_volume_step dt g minvol vt :
  update_target_volume NumR dt g minvol vt = Rmax (vt + dt * g) minvol.
Proof.
  unfold update_target_volume. cbn. destruct (Rltb_spec (vt + dt * g) minvol) as [H|H].
  - rewrite Rmax_right; lra.
  - rewrite Rmax_left; lra.
Qed.

Lemma target_ge_min dt g minvol vt : minvol <= update_target_volume NumR dt g minvol vt.
Proof. rewrite target_volume_step. apply Rmax_r. Qed.

Lemma target_unclamped dt g minvol vt : minvol <= vt + dt * g ->
  update_target_volume NumR dt g minvol vt = vt + g * dt.
Proof. intros H. rewrite target_volume_step, Rmax_left; lra. Qed.

(* over any history of time steps and growth rates the target volume never drops below the minimum *)
Lemma target_history_ge_min_aux minvol (h : list (R * R)) v :
  minvol <= v -> minvol <= fold_left (fun v s => update_target_volume NumR (fst s) (snd s) minvol v) h v.
Proof.
  revert v. induction h as [|s h IH]; intros v Hv; cbn [fold_left]; [exact Hv|].
  apply IH. apply target_ge_min.
Qed.

Lemma target_history_ge_min minvol (h : list (R * R)) vt :
  h <> [] -> minvol <= fold_left (fun v s => update_target_volume NumR (fst s) (snd s) minvol v) h vt.
Proof.
  intros Hne. destruct h as [|s h]; [congruence|]. cbn [fold_left].
  apply target_history_ge_min_aux. apply target_ge_min.
Qed.

Lemma pressure_law K pmax V vt :
  update_pressure NumR LibmR K pmax V vt = Rmin (- K * ln (V / vt)) pmax.
Proof.
  unfold update_pressure. cbn. destruct (Rltb_spec pmax (- K * ln (V / vt))) as [H|H].
  - rewrite Rmin_right; lra.
  - rewrite Rmin_left; lra.
Qed.

Lemma pressure_le_cap K pmax V vt : update_pressure NumR LibmR K pmax V vt <= pmax.
Proof. rewrite pressure_law. apply Rmin_r. Qed.

Lemma pressure_uncapped K pmax V vt : - K * ln (V / vt) <= pmax ->
  update_pressure NumR LibmR K pmax V vt = - K * ln (V / vt).
Proof. intros H. rewrite pressure_law, Rmin_left; lra. Qed.

Lemma ready_iff cls V vdiv : is_ready NumR cls V vdiv = true <-> (cls = 0%Z /\ vdiv <= V).
Proof.
  unfold is_ready. cbn. rewrite andb_true_iff, Z.eqb_eq, Rleb_true. tauto.
Qed.

Lemma below_iff V minvol : is_below NumR V minvol = true <-> V < minvol.
Proof. unfold is_below. cbn. apply Rltb_true. Qed.

Lemma clamp_within_3sigma avg sd x : 0 <= sd ->
  avg - 3 * sd <= clamp3 NumR avg sd x <= avg + 3 * sd.
Proof.
  intros Hsd. unfold clamp3, three. cbn.
  destruct (Rltb_spec (avg + 3 * sd) x) as [H1|H1];
  match goal with |- context [Rltb ?a ?b] => destruct (Rltb_spec a b) as [H2|H2] end; lra.
Qed.

Lemma clamp_identity avg sd x : avg - 3 * sd <= x <= avg + 3 * sd -> clamp3 NumR avg sd x = x.
Proof.
  intros [Ha Hb]. unfold clamp3, three. cbn.
  destruct (Rltb_spec (avg + 3 * sd) x) as [H1|H1]; [lra|].
  destruct (Rltb_spec x (avg - 3 * sd)) as [H2|H2]; [lra|reflexivity].
Qed.

Lemma growth_within avg sd raw : 0 <= sd ->
  avg - 3 * sd <= growth_of NumR avg sd raw <= avg + 3 * sd.
Proof.
  intros Hsd. unfold growth_of. cbn. destruct (Reqb_spec sd 0) as [E|E].
  - subst. lra.
  - apply clamp_within_3sigma; assumption.
Qed.

Lemma divvol_within b avg sd raw : 0 <= sd ->
  avg - 3 * sd <= divvol_of NumR b avg sd raw <= avg + 3 * sd.
Proof.
  intros Hsd. unfold divvol_of. cbn. destruct (Reqb_spec sd 0) as [E|E]; cbn [orb].
  - subst. lra.
  - destruct b; [lra|]. apply clamp_within_3sigma; assumption.
Qed.

Lemma initial_pressure_consistent V p0 K pmax : 0 < V -> 0 < K -> p0 <= pmax ->
  update_pressure NumR LibmR K pmax V (initial_target NumR LibmR V p0 K) = p0.
Proof.
  intros HV HK Hp. unfold initial_target. cbn.
  rewrite pressure_uncapped.
  - replace (V / (V * exp (p0 / K))) with (/ exp (p0 / K)) by (field; split; [apply Rgt_not_eq, exp_pos|lra]).
    rewrite ln_Rinv by apply exp_pos. rewrite ln_exp. field. lra.
  - replace (V / (V * exp (p0 / K))) with (/ exp (p0 / K)) by (field; split; [apply Rgt_not_eq, exp_pos|lra]).
    rewrite ln_Rinv by apply exp_pos. rewrite ln_exp. replace (- K * - (p0 / K)) with p0 by (field; lra). exact Hp.
Qed.

Lemma survivors_iff {A} (cells : list (A * R * R)) c :
  In c (survivors NumR cells) <-> In c cells /\ ~ (snd (fst c) < snd c).
Proof.
  unfold survivors. rewrite filter_In, negb_true_iff. rewrite <- below_iff.
  destruct (is_below NumR (snd (fst c)) (snd c)); split; intros [H1 H2]; split; auto; congruence.
Qed.

(* a removed cell never reappears: the survivors of any number of later filters are a sub-list of the survivors now *)
Lemma survivors_incl {A} (cells : list (A * R * R)) : incl (survivors NumR cells) cells.
Proof. intros c H. apply survivors_iff in H. tauto. Qed.
