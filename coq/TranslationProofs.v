(* TranslationProofs.v — proofs for property C14: every phase model commutes with a translation of the tissue.
   Statements are in Properties_C14.v; the meaning of "translated state" is in Translation.v. *)
From Coq Require Import Reals Lra Lia ZArith NArith Bool List.
From Flocq Require Import Core.Raux.
From SC Require Import Num Vec3 VecR Rot Kernel KernelProofs Mesh Geometry GeometrySpec GeometryProofs
                       Integrator Grid Contact MeshOps Translation ContactProofsB.
Import ListNotations.
Local Open Scope R_scope.

(* ------------------------------------------------------------------ generic facts *)
Lemma compose_equivariant : forall (S : Type) (sym : S -> S) (phases : list (S -> S)),
  Forall (equivariant sym) phases -> equivariant sym (fun s => fold_left (fun x f => f x) phases s).
Proof.
  intros S sym phases HF. unfold equivariant.
  induction HF as [| f l Hf HF IH]; intros s; cbn [fold_left].
  - reflexivity.
  - rewrite (Hf s). apply IH.
Qed.

Lemma iterate_equivariant : forall (S : Type) (sym : S -> S) (iter : S -> S) (n : nat),
  equivariant sym iter -> equivariant sym (fun s => Nat.iter n iter s).
Proof.
  intros S sym iter n H. unfold equivariant in *. intros s.
  induction n as [| n IH]; cbn [Nat.iter nat_rect].
  - reflexivity.
  - unfold Nat.iter in IH. rewrite IH. apply H.
Qed.

Lemma option_map_id_ext {A} (f : A -> A) (o : option A) : (forall x, f x = x) -> option_map f o = o.
Proof. intros H. destruct o; cbn; [rewrite H |]; reflexivity. Qed.

Lemma nth_error_map' {A B} (f : A -> B) (l : list A) n : nth_error (map f l) n = option_map f (nth_error l n).
Proof. revert n; induction l as [| x l IH]; intros [| n]; cbn; auto. Qed.

Lemma filter_map_comm {A B} (f : A -> B) (p : B -> bool) (l : list A) :
  filter p (map f l) = map f (filter (fun x => p (f x)) l).
Proof.
  induction l as [| x l IH]; cbn [map filter]; [reflexivity |].
  destruct (p (f x)); cbn [map]; rewrite IH; reflexivity.
Qed.

(* ------------------------------------------------------------------ vectors *)
Lemma vsub_tr (p q t : vR) : (p +v t) -v (q +v t) = p -v q.
Proof. vring. Qed.
Lemma vadd_tr_l (p x t : vR) : (p +v t) +v x = (p +v x) +v t.
Proof. vring. Qed.
Lemma vadd_zero_r (p : vR) : p +v vzero NumR = p.
Proof. destruct p as [x y z]. vunfold. cbn [vx vy vz]. f_equal; ring. Qed.

Lemma Rltb_shift (x y c : R) : Rltb (x + c) (y + c) = Rltb x y.
Proof. destruct (Rltb_spec (x + c) (y + c)), (Rltb_spec x y); try reflexivity; lra. Qed.

(* ------------------------------------------------------------------ kernel, area *)
Definition mI : mat3 := mkm 1 0 0 0 1 0 0 0 1.
Lemma mI_orth : orthogonal mI.
Proof. unfold orthogonal, mI; cbn [m11 m12 m13 m21 m22 m23 m31 m32 m33]. repeat split; ring. Qed.
Lemma rigid_mI (t p : vR) : rigid mI t p = p +v t.
Proof.
  unfold rigid, mapply, mI. destruct p as [x y z], t as [tx ty tz]. vunfold.
  cbn [m11 m12 m13 m21 m22 m23 m31 m32 m33 vx vy vz]. f_equal; ring.
Qed.

Lemma kernel_translate : forall t p a b c : vR,
  kernel NumR (p +v t) (a +v t) (b +v t) (c +v t) = kernel NumR p a b c.
Proof. intros t p a b c. rewrite <- !(rigid_mI t). apply kernel_rigid. exact mI_orth. Qed.

Lemma area_translate : forall (t : vR) (tris : list triR),
  compute_area NumR (map (tmap (fun p => p +v t)) tris) = compute_area NumR tris.
Proof.
  intros t tris. apply area_map_invariant. intros [[a b] c].
  rewrite <- (face_area_rigid mI t (a, b, c) mI_orth). unfold tmap. rewrite !rigid_mI. reflexivity.
Qed.

(* the barycentric coordinates returned by the kernel always sum to one (no nondegeneracy needed) *)
Lemma bary_sum_one_all (p a b c : vR) :
  vx (k_bary (kernel NumR p a b c)) + vy (k_bary (kernel NumR p a b c)) + vz (k_bary (kernel NumR p a b c)) = 1.
Proof.
  rewrite kernel_gram'. unfold gkernel. cbv zeta.
  repeat match goal with |- context [if ?b then _ else _] => destruct b end; cbn [k_bary vx vy vz]; ring.
Qed.

(* ------------------------------------------------------------------ remeshing *)
Section ReplayTr.
  Variable t : vR.
  Definition trns (v : nstate (T:=R)) : nstate (T:=R) := mkns (ns_pos v +v t) (ns_mom v).
  Definition trkv (kv : N * nstate (T:=R)) : N * nstate (T:=R) := (fst kv, trns (snd kv)).

  Lemma tr_mstate_eq st : tr_mstate t st = mkms (ms_faces st) (map trkv (ms_nodes st)).
  Proof. reflexivity. Qed.

  Lemma nget_tr m k : nget (map trkv m) k = option_map trns (nget m k).
  Proof.
    induction m as [| [k' v] m IH]; cbn [map nget trkv fst snd option_map]; [reflexivity |].
    destruct (N.eqb k k'); [reflexivity | exact IH].
  Qed.
  Lemma ndel_tr m k : ndel (map trkv m) k = map trkv (ndel m k).
  Proof. unfold ndel. rewrite filter_map_comm. reflexivity. Qed.
  Lemma nset_tr m k v : nset (map trkv m) k (trns v) = map trkv (nset m k v).
  Proof. unfold nset. rewrite filter_map_comm. reflexivity. Qed.

  Lemma midpoint_tr (pa pb : vR) : midpoint NumR (pa +v t) (pb +v t) = midpoint NumR pa pb +v t.
  Proof.
    unfold midpoint, chalf. vunfold. cbn [nofZ NumR]. apply vec3_eq; cbn [vx vy vz]; lra.
  Qed.

  Lemma apply_op_tr dynamic st o :
    apply_op NumR dynamic (tr_mstate t st) o = option_map (tr_mstate t) (apply_op NumR dynamic st o).
  Proof.
    rewrite tr_mstate_eq. destruct o as [a b e | a b i | a b]; cbn [apply_op ms_nodes ms_faces].
    - rewrite !nget_tr.
      destruct (nget (ms_nodes st) a) as [na |]; cbn [option_map]; [| reflexivity].
      destruct (nget (ms_nodes st) b) as [nb |]; cbn [option_map]; [| reflexivity].
      destruct (negb (edge_exists (ms_faces st) a b)); cbn [option_map]; [reflexivity |].
      rewrite tr_mstate_eq. cbn [ms_nodes ms_faces]. f_equal. f_equal.
      cbn [trns ns_pos ns_mom]. rewrite midpoint_tr.
      destruct dynamic.
      + change (mkns (ns_pos na +v t) (ns_mom na *v two_thirds NumR))
          with (trns (mkns (ns_pos na) (ns_mom na *v two_thirds NumR))).
        change (mkns (ns_pos nb +v t) (ns_mom nb *v two_thirds NumR))
          with (trns (mkns (ns_pos nb) (ns_mom nb *v two_thirds NumR))).
        change (mkns (midpoint NumR (ns_pos na) (ns_pos nb) +v t) (vdivs NumR (ns_mom na +v ns_mom nb) (nofZ NumR 3)))
          with (trns (mkns (midpoint NumR (ns_pos na) (ns_pos nb)) (vdivs NumR (ns_mom na +v ns_mom nb) (nofZ NumR 3)))).
        rewrite !nset_tr. reflexivity.
      + change (mkns (midpoint NumR (ns_pos na) (ns_pos nb) +v t) (vzero NumR))
          with (trns (mkns (midpoint NumR (ns_pos na) (ns_pos nb)) (vzero NumR))).
        rewrite nset_tr. reflexivity.
    - rewrite !nget_tr.
      destruct (nget (ms_nodes st) a) as [na |]; cbn [option_map]; [| reflexivity].
      destruct (nget (ms_nodes st) b) as [nb |]; cbn [option_map]; [| reflexivity].
      destruct (negb (edge_exists (ms_faces st) a b)); cbn [option_map]; [reflexivity |].
      rewrite tr_mstate_eq. cbn [ms_nodes ms_faces]. f_equal. f_equal.
      cbn [trns ns_pos ns_mom]. rewrite midpoint_tr. rewrite !ndel_tr.
      match goal with |- nset _ _ (mkns (?m +v t) ?mo) = _ => change (mkns (m +v t) mo) with (trns (mkns m mo)) end.
      rewrite nset_tr. reflexivity.
    - destruct (swap (ms_faces st) a b) as [fs |]; cbn [option_map]; reflexivity.
  Qed.

  Lemma replay_tr dynamic ops : forall st,
    replay NumR dynamic (tr_mstate t st) ops = option_map (tr_mstate t) (replay NumR dynamic st ops).
  Proof.
    induction ops as [| o r IH]; intros st; cbn [replay]; [reflexivity |].
    rewrite apply_op_tr. destruct (apply_op NumR dynamic st o) as [st' |]; cbn [option_map]; [apply IH | reflexivity].
  Qed.

  Lemma sq_len_tr st a b : sq_len NumR (tr_mstate t st) a b = sq_len NumR st a b.
  Proof.
    unfold sq_len. rewrite tr_mstate_eq. cbn [ms_nodes]. rewrite !nget_tr.
    destruct (nget (ms_nodes st) a) as [na |]; cbn [option_map]; [| reflexivity].
    destruct (nget (ms_nodes st) b) as [nb |]; cbn [option_map]; [| reflexivity].
    cbn [trns ns_pos]. rewrite vsub_tr. reflexivity.
  Qed.

  Lemma guard_ok_tr lmin2 lmax2 st o : guard_ok NumR lmin2 lmax2 (tr_mstate t st) o = guard_ok NumR lmin2 lmax2 st o.
  Proof. destruct o as [a b e | a b i | a b]; cbn [guard_ok]; rewrite ?sq_len_tr; reflexivity. Qed.

  Lemma guards_ok_tr dynamic lmin2 lmax2 ops : forall st,
    guards_ok NumR dynamic lmin2 lmax2 (tr_mstate t st) ops = guards_ok NumR dynamic lmin2 lmax2 st ops.
  Proof.
    induction ops as [| o r IH]; intros st; cbn [guards_ok]; [reflexivity |].
    rewrite guard_ok_tr, apply_op_tr.
    destruct (apply_op NumR dynamic st o) as [st' |]; cbn [option_map]; [rewrite IH |]; reflexivity.
  Qed.
End ReplayTr.

Lemma replay_equivariant : forall (t : vR) dynamic ops,
  equivariant_opt (tr_mstate t) (fun st => replay NumR dynamic st ops).
Proof. intros t dynamic ops st. apply replay_tr. Qed.

Lemma guards_invariant : forall (t : vR) dynamic lmin2 lmax2 st ops,
  guards_ok NumR dynamic lmin2 lmax2 (tr_mstate t st) ops = guards_ok NumR dynamic lmin2 lmax2 st ops.
Proof. intros t dynamic lmin2 lmax2 st ops. apply guards_ok_tr. Qed.

(* ------------------------------------------------------------------ time integration *)
Lemma fold_left_ext' {A B} (f g : A -> B -> A) (l : list B) :
  (forall a x, f a x = g a x) -> forall a, fold_left f l a = fold_left g l a.
Proof. intros H. induction l as [| x l IH]; intros a; cbn [fold_left]; [reflexivity |]. rewrite H. apply IH. Qed.

Lemma forallb_ext' {A} (f g : A -> bool) (l : list A) : (forall x, f x = g x) -> forallb f l = forallb g l.
Proof. intros H. induction l as [| x l IH]; cbn [forallb]; [reflexivity |]. rewrite H, IH. reflexivity. Qed.

Lemma set_nth_length {A} (l : list A) : forall k x, length (set_nth l k x) = length l.
Proof. induction l as [| y l IH]; intros [| k] x; cbn [set_nth length]; auto. Qed.
Lemma set_nth_map {A B} (f : A -> B) (l : list A) : forall k x, set_nth (map f l) k (f x) = map f (set_nth l k x).
Proof. induction l as [| y l IH]; intros [| k] x; cbn [set_nth map]; try reflexivity. rewrite IH. reflexivity. Qed.
Lemma set_nth_oob {A} (l : list A) : forall k x, (length l <= k)%nat -> set_nth l k x = l.
Proof.
  induction l as [| y l IH]; intros [| k] x H; cbn [set_nth length] in *; try reflexivity; try lia.
  rewrite IH by lia. reflexivity.
Qed.

Lemma tri_used t (n : inode R) : n_used (tr_inode t n) = n_used n. Proof. reflexivity. Qed.
Lemma tri_cell t (n : inode R) : n_cell (tr_inode t n) = n_cell n. Proof. reflexivity. Qed.
Lemma tri_mom t (n : inode R) : n_mom (tr_inode t n) = n_mom n. Proof. reflexivity. Qed.
Lemma tri_force t (n : inode R) : n_force (tr_inode t n) = n_force n. Proof. reflexivity. Qed.
Lemma tri_cpl t (n : inode R) : n_cpl (tr_inode t n) = n_cpl n. Proof. reflexivity. Qed.
Lemma tri_cpls t (n : inode R) : n_cpls (tr_inode t n) = n_cpls n. Proof. reflexivity. Qed.
Lemma tri_pos t (n : inode R) : n_pos (tr_inode t n) = n_pos n +v t. Proof. reflexivity. Qed.

Lemma tri_mk t u ce p m f cp cps :
  mknode u ce (p +v t) m f cp cps = tr_inode t (mknode u ce p m f cp cps).
Proof. reflexivity. Qed.

Lemma upd_single_tr t over dt damping m n :
  upd_single NumR over dt damping m (tr_inode t n) = tr_inode t (upd_single NumR over dt damping m n).
Proof.
  unfold upd_single, upd_over, upd_dyn. cbv zeta. destruct over;
    rewrite ?tri_used, ?tri_cell, ?tri_mom, ?tri_force, ?tri_cpl, ?tri_cpls, ?tri_pos;
    rewrite vadd_tr_l; reflexivity.
Qed.

Lemma upd_pair_tr t over dt damping m1 m2 n1 n2 :
  upd_pair NumR over dt damping m1 m2 (tr_inode t n1) (tr_inode t n2) =
  (tr_inode t (fst (upd_pair NumR over dt damping m1 m2 n1 n2)), tr_inode t (snd (upd_pair NumR over dt damping m1 m2 n1 n2))).
Proof.
  unfold upd_pair. cbv zeta. destruct over; cbn [fst snd];
    rewrite ?tri_used, ?tri_cell, ?tri_mom, ?tri_force, ?tri_cpl, ?tri_cpls, ?tri_pos;
    rewrite !vadd_tr_l; reflexivity.
Qed.

Lemma upd_pair_fst_tr t over dt damping m1 m2 n1 n2 :
  fst (upd_pair NumR over dt damping m1 m2 (tr_inode t n1) n2) = tr_inode t (fst (upd_pair NumR over dt damping m1 m2 n1 n2)).
Proof.
  unfold upd_pair. cbv zeta. destruct over; cbn [fst snd];
    rewrite ?tri_used, ?tri_cell, ?tri_mom, ?tri_force, ?tri_cpl, ?tri_cpls, ?tri_pos;
    rewrite !vadd_tr_l; reflexivity.
Qed.

Section IntegratorTr.
  Variable t : vR.
  Notation tri := (tr_inode t).
  Notation dn := (dnode NumR).
  Notation dc := (dcell NumR).

  Lemma nth_tr_cases g (l : list (inode R)) :
    ((g < length l)%nat /\ nth g (map tri l) dn = tri (nth g l dn)) \/
    ((length l <= g)%nat /\ nth g (map tri l) dn = dn /\ nth g l dn = dn).
  Proof.
    destruct (Nat.lt_ge_cases g (length l)) as [H | H].
    - left. split; [exact H |]. rewrite (nth_indep _ dn (tri dn)) by (rewrite map_length; exact H). apply map_nth.
    - right. split; [exact H |]. split; apply nth_overflow; [rewrite map_length |]; exact H.
  Qed.

  Lemma nth_tr_cell g l : n_cell (nth g (map tri l) dn) = n_cell (nth g l dn).
  Proof. destruct (nth_tr_cases g l) as [[_ E] | [_ [E1 E2]]]; [rewrite E | rewrite E1, E2]; reflexivity. Qed.
  Lemma nth_tr_force g l : n_force (nth g (map tri l) dn) = n_force (nth g l dn).
  Proof. destruct (nth_tr_cases g l) as [[_ E] | [_ [E1 E2]]]; [rewrite E | rewrite E1, E2]; reflexivity. Qed.
  Lemma nth_tr_mom g l : n_mom (nth g (map tri l) dn) = n_mom (nth g l dn).
  Proof. destruct (nth_tr_cases g l) as [[_ E] | [_ [E1 E2]]]; [rewrite E | rewrite E1, E2]; reflexivity. Qed.

  Lemma fold_proc_tr (proc : list (inode R) -> nat -> list (inode R)) :
    (forall nodes k, proc (map tri nodes) k = map tri (proc nodes k)) ->
    forall ks nodes, fold_left proc ks (map tri nodes) = map tri (fold_left proc ks nodes).
  Proof. intros H ks. induction ks as [| k ks IH]; intros nodes; cbn [fold_left]; [reflexivity |]. rewrite H. apply IH. Qed.

  Lemma process0_tr over dt damping cells nodes k :
    process0 NumR over dt damping cells (map tri nodes) k = map tri (process0 NumR over dt damping cells nodes k).
  Proof.
    unfold process0. cbv zeta.
    destruct (nth_tr_cases k nodes) as [[Hk E] | [Hk [E1 E2]]].
    - rewrite E, tri_cell, tri_used.
      destruct (c_static (nth (n_cell (nth k nodes dn)) cells dc)); [reflexivity |].
      destruct (negb (n_used (nth k nodes dn))); [reflexivity |].
      rewrite upd_single_tr. apply set_nth_map.
    - rewrite E1, E2. cbn [dnode n_cell n_used negb].
      destruct (c_static (nth 0 cells dc)); reflexivity.
  Qed.

  Lemma process1_tr over dt damping cells nodes k :
    process1 NumR over dt damping cells (map tri nodes) k = map tri (process1 NumR over dt damping cells nodes k).
  Proof.
    unfold process1. cbv zeta.
    destruct (nth_tr_cases k nodes) as [[Hk E] | [Hk [E1 E2]]].
    - rewrite E, tri_cell, tri_used, tri_cpl.
      set (n1 := nth k nodes dn).
      destruct (c_static (nth (n_cell n1) cells dc)); [reflexivity |].
      destruct (negb (n_used n1)); [reflexivity |].
      destruct (n_cpl n1) as [g2 |].
      + rewrite nth_tr_cell.
        destruct (Nat.ltb (n_cell (nth g2 nodes dn)) (c_local (nth (n_cell n1) cells dc))); [| reflexivity].
        destruct (nth_tr_cases g2 nodes) as [[Hg E2] | [Hg [E2a E2b]]].
        * rewrite E2, upd_pair_tr.
          destruct (upd_pair NumR over dt damping (c_mass (nth (n_cell n1) cells dc))
                      (c_mass (nth (n_cell (nth g2 nodes dn)) cells dc)) n1 (nth g2 nodes dn)) as [a b].
          cbn [fst snd]. rewrite !set_nth_map. reflexivity.
        * rewrite E2a, E2b.
          pose proof (upd_pair_fst_tr t over dt damping (c_mass (nth (n_cell n1) cells dc))
                        (c_mass (nth (n_cell dn) cells dc)) n1 dn) as Hf.
          destruct (upd_pair NumR over dt damping (c_mass (nth (n_cell n1) cells dc))
                      (c_mass (nth (n_cell dn) cells dc)) (tri n1) dn) as [aL bL].
          destruct (upd_pair NumR over dt damping (c_mass (nth (n_cell n1) cells dc))
                      (c_mass (nth (n_cell dn) cells dc)) n1 dn) as [aR bR].
          cbn [fst] in Hf. subst aL.
          rewrite (set_nth_oob _ g2 bL) by (rewrite set_nth_length, map_length; exact Hg).
          rewrite (set_nth_oob _ g2 bR) by (rewrite set_nth_length; exact Hg).
          apply set_nth_map.
      + rewrite upd_single_tr. apply set_nth_map.
    - rewrite E1, E2. cbn [dnode n_cell n_used negb].
      destruct (c_static (nth 0 cells dc)); reflexivity.
  Qed.

  (* contact model 2 with its local definitions named *)
  Definition p2_ok (cells : list (icell R)) (nodes : list (inode R)) (n1 : inode R) : bool :=
    forallb (fun g => Nat.ltb (n_cell (nth g nodes dn)) (c_local (nth (n_cell n1) cells dc))) (n_cpls n1).
  Definition p2_ap (over : bool) (dt damping : R) (cells : list (icell R)) (nodes : list (inode R)) (n1 : inode R)
    : inode R -> inode R :=
    let c1 := nth (n_cell n1) cells dc in
    let grp := n_cpls n1 in
    let sum_f := fold_left (fun acc g => vadd NumR acc (n_force (nth g nodes dn))) grp (n_force n1) in
    let sum_m := fold_left (fun acc g => acc + c_mass (nth (n_cell (nth g nodes dn)) cells dc)) grp (c_mass c1) in
    let sum_p := fold_left (fun acc g => vadd NumR acc (n_mom (nth g nodes dn))) grp (n_mom n1) in
    let cnt := IZR (Z.of_nat (length grp) + 1) in
    let avg_f := vdivs' NumR sum_f cnt in
    let avg_m := sum_m / cnt in
    let avg_p := vdivs' NumR sum_p cnt in
    fun n =>
      if over then
        mknode (n_used n) (n_cell n) (vadd NumR (n_pos n) (vscale NumR avg_f (dt / damping))) (n_mom n) (vzero NumR) (n_cpl n) (n_cpls n)
      else
        mknode (n_used n) (n_cell n) (vadd NumR (n_pos n) (vscale NumR avg_p (dt / avg_m)))
               (vadd NumR (n_mom n) (vscale NumR (vsub NumR avg_f (vscale NumR avg_p (damping / avg_m))) dt))
               (vzero NumR) (n_cpl n) (n_cpls n).

  Lemma process2_unfold over dt damping cells nodes k :
    process2 NumR over dt damping cells nodes k =
    let n1 := nth k nodes dn in
    if c_static (nth (n_cell n1) cells dc) then nodes else
    if negb (n_used n1) then nodes else
    if negb (p2_ok cells nodes n1) then nodes else
    fold_left (fun nd g => set_nth nd g (p2_ap over dt damping cells nodes n1 (nth g nd dn))) (n_cpls n1)
              (set_nth nodes k (p2_ap over dt damping cells nodes n1 n1)).
  Proof. reflexivity. Qed.

  Lemma p2_ok_tr cells nodes n1 : p2_ok cells (map tri nodes) (tri n1) = p2_ok cells nodes n1.
  Proof. unfold p2_ok. rewrite tri_cpls, tri_cell. apply forallb_ext'. intros g. rewrite nth_tr_cell. reflexivity. Qed.

  Lemma p2_ap_tr over dt damping cells nodes n1 n :
    p2_ap over dt damping cells (map tri nodes) (tri n1) (tri n) = tri (p2_ap over dt damping cells nodes n1 n).
  Proof.
    unfold p2_ap. cbv zeta. rewrite !tri_cpls, !tri_cell, !tri_force, !tri_mom, !tri_used, !tri_cpl, !tri_pos.
    rewrite (fold_left_ext' (fun acc g => vadd NumR acc (n_force (nth g (map tri nodes) dn)))
                            (fun acc g => vadd NumR acc (n_force (nth g nodes dn))))
      by (intros a x; rewrite nth_tr_force; reflexivity).
    rewrite (fold_left_ext' (fun acc g => vadd NumR acc (n_mom (nth g (map tri nodes) dn)))
                            (fun acc g => vadd NumR acc (n_mom (nth g nodes dn))))
      by (intros a x; rewrite nth_tr_mom; reflexivity).
    rewrite (fold_left_ext' (fun acc g => acc + c_mass (nth (n_cell (nth g (map tri nodes) dn)) cells dc))
                            (fun acc g => acc + c_mass (nth (n_cell (nth g nodes dn)) cells dc)))
      by (intros a x; rewrite nth_tr_cell; reflexivity).
    destruct over; rewrite vadd_tr_l; reflexivity.
  Qed.

  Lemma grp_fold_tr (apL apR : inode R -> inode R) (H : forall n, apL (tri n) = tri (apR n)) grp : forall nd,
    fold_left (fun nd g => set_nth nd g (apL (nth g nd dn))) grp (map tri nd) =
    map tri (fold_left (fun nd g => set_nth nd g (apR (nth g nd dn))) grp nd).
  Proof.
    induction grp as [| g grp IH]; intros nd; cbn [fold_left]; [reflexivity |].
    rewrite <- IH. f_equal.
    destruct (nth_tr_cases g nd) as [[Hg E] | [Hg [E1 E2]]].
    - rewrite E, H. apply set_nth_map.
    - rewrite !set_nth_oob; [reflexivity | exact Hg | rewrite map_length; exact Hg].
  Qed.

  Lemma process2_tr over dt damping cells nodes k :
    process2 NumR over dt damping cells (map tri nodes) k = map tri (process2 NumR over dt damping cells nodes k).
  Proof.
    rewrite !process2_unfold. cbv zeta.
    destruct (nth_tr_cases k nodes) as [[Hk E] | [Hk [E1 E2]]].
    - rewrite E, tri_cell, tri_used, tri_cpls, p2_ok_tr.
      set (n1 := nth k nodes dn).
      destruct (c_static (nth (n_cell n1) cells dc)); [reflexivity |].
      destruct (negb (n_used n1)); [reflexivity |].
      destruct (negb (p2_ok cells nodes n1)); [reflexivity |].
      rewrite p2_ap_tr, set_nth_map.
      apply grp_fold_tr. intros n. apply p2_ap_tr.
    - rewrite E1, E2. cbn [dnode n_cell n_used negb].
      destruct (c_static (nth 0 cells dc)); reflexivity.
  Qed.

  Lemma step_tr contact over dt damping s :
    step NumR contact over dt damping (tr_istate t s) = tr_istate t (step NumR contact over dt damping s).
  Proof.
    unfold step, tr_istate. cbn [s_cells s_nodes Integrator.s_time]. rewrite map_length. f_equal.
    destruct contact as [| [| c]]; apply fold_proc_tr; intros nodes k;
      [apply process0_tr | apply process1_tr | apply process2_tr].
  Qed.
End IntegratorTr.

Lemma integrator_equivariant : forall (t : vR) contact over dt damping,
  equivariant (tr_istate t) (step NumR contact over dt damping).
Proof. intros t contact over dt damping s. apply step_tr. Qed.

Lemma integrator_steps_equivariant : forall (t : vR) n contact over dt damping,
  equivariant (tr_istate t) (steps NumR n contact over dt damping).
Proof.
  intros t n contact over dt damping. unfold equivariant.
  induction n as [| n IH]; intros s; cbn [steps]; [reflexivity |].
  rewrite step_tr. apply IH.
Qed.
