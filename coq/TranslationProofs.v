(* TranslationProofs.v — proofs for property C14: every phase model commutes with a translation of the tissue.
   Statements are in Properties_C14.v; the meaning of "translated state" is in Translation.v. *)
From Coq Require Import Reals Lra Lia ZArith NArith Bool List.
From Flocq Require Import Core.Raux.
From SC Require Import Num Vec3 VecR Rot Kernel KernelProofs Mesh Geometry GeometrySpec GeometryProofs
                       Integrator Grid Contact MeshOps Translation ContactProofsB.
Import ListNotations.
Local Open Scope R_scope.

(* ------------------------------------------------------------------ generic facts *)
Lemma compose_equivariant : forall (S : Type) (sym : S -> S) (phases : list (S -> S)),
  Forall (equivariant sym) phases -> equivariant sym (fun s => fold_left (fun x f => f x) phases s).
Proof.
  intros S sym phases HF. unfold equivariant.
  induction HF as [| f l Hf HF IH]; intros s; cbn [fold_left].
  - reflexivity.
  - rewrite (Hf s). apply IH.
Qed.

Lemma iterate_equivariant : forall (S : Type) (sym : S -> S) (iter : S -> S) (n : nat),
  equivariant sym iter -> equivariant sym (fun s => Nat.iter n iter s).
Proof.
  intros S sym iter n H. unfold equivariant in *. intros s.
  induction n as [| n IH]; cbn [Nat.iter nat_rect].
  - reflexivity.
  - unfold Nat.iter in IH. rewrite IH. apply H.
Qed.

Lemma option_map_id_ext {A} (f : A -> A) (o : option A) : (forall x, f x = x) -> option_map f o = o.
Proof. intros H. destruct o; cbn; [rewrite H |]; reflexivity. Qed.

Lemma nth_error_map' {A B} (f : A -> B) (l : list A) n : nth_error (map f l) n = option_map f (nth_error l n).
Proof. revert n; induction l as [| x l IH]; intros [| n]; cbn; auto. Qed.

Lemma filter_map_comm {A B} (f : A -> B) (p : B -> bool) (l : list A) :
  filter p (map f l) = map f (filter (fun x => p (f x)) l).
Proof.
  induction l as [| x l IH]; cbn [map filter]; [reflexivity |].
  destruct (p (f x)); cbn [map]; rewrite IH; reflexivity.
Qed.

(* ------------------------------------------------------------------ vectors *)
Lemma vsub_tr (p q t : vR) : (p +v t) -v (q +v t) = p -v q.
Proof. vring. Qed.
Lemma vadd_tr_l (p x t : vR) : (p +v t) +v x = (p +v x) +v t.
Proof. vring. Qed.
Lemma vadd_zero_r (p : vR) : p +v vzero NumR = p.
Proof. destruct p as [x y z]. vunfold. cbn [vx vy vz]. f_equal; ring. Qed.

Lemma Rltb_shift (x y c : R) : Rltb (x + c) (y + c) = Rltb x y.
Proof. destruct (Rltb_spec (x + c) (y + c)), (Rltb_spec x y); try reflexivity; lra. Qed.

(* ------------------------------------------------------------------ kernel, area *)
Definition mI : mat3 := mkm 1 0 0 0 1 0 0 0 1.
Lemma mI_orth : orthogonal mI.
Proof. unfold orthogonal, mI; cbn [m11 m12 m13 m21 m22 m23 m31 m32 m33]. repeat split; ring. Qed.
Lemma rigid_mI (t p : vR) : rigid mI t p = p +v t.
Proof.
  unfold rigid, mapply, mI. destruct p as [x y z], t as [tx ty tz]. vunfold.
  cbn [m11 m12 m13 m21 m22 m23 m31 m32 m33 vx vy vz]. f_equal; ring.
Qed.

Lemma kernel_translate : forall t p a b c : vR,
  kernel NumR (p +v t) (a +v t) (b +v t) (c +v t) = kernel NumR p a b c.
Proof. intros t p a b c. rewrite <- !(rigid_mI t). apply kernel_rigid. exact mI_orth. Qed.

Lemma area_translate : forall (t : vR) (tris : list triR),
  compute_area NumR (map (tmap (fun p => p +v t)) tris) = compute_area NumR tris.
Proof.
  intros t tris. apply area_map_invariant. intros [[a b] c].
  rewrite <- (face_area_rigid mI t (a, b, c) mI_orth). unfold tmap. rewrite !rigid_mI. reflexivity.
Qed.

(* the barycentric coordinates returned by the kernel always sum to one (no nondegeneracy needed) *)
Lemma bary_sum_one_all (p a b c : vR) :
  vx (k_bary (kernel NumR p a b c)) + vy (k_bary (kernel NumR p a b c)) + vz (k_bary (kernel NumR p a b c)) = 1.
Proof.
  rewrite kernel_gram'. unfold gkernel. cbv zeta.
  repeat match goal with |- context [if ?b then _ else _] => destruct b end; cbn [k_bary vx vy vz]; ring.
Qed.

(* ------------------------------------------------------------------ remeshing *)
Section ReplayTr.
  Variable t : vR.
  Definition trns (v : nstate (T:=R)) : nstate (T:=R) := mkns (ns_pos v +v t) (ns_mom v).
  Definition trkv (kv : N * nstate (T:=R)) : N * nstate (T:=R) := (fst kv, trns (snd kv)).

  Lemma tr_mstate_eq st : tr_mstate t st = mkms (ms_faces st) (map trkv (ms_nodes st)).
  Proof. reflexivity. Qed.

  Lemma nget_tr m k : nget (map trkv m) k = option_map trns (nget m k).
  Proof.
    induction m as [| [k' v] m IH]; cbn [map nget trkv fst snd option_map]; [reflexivity |].
    destruct (N.eqb k k'); [reflexivity | exact IH].
  Qed.
  Lemma ndel_tr m k : ndel (map trkv m) k = map trkv (ndel m k).
  Proof. unfold ndel. rewrite filter_map_comm. reflexivity. Qed.
  Lemma nset_tr m k v : nset (map trkv m) k (trns v) = map trkv (nset m k v).
  Proof. unfold nset. rewrite filter_map_comm. reflexivity. Qed.

  Lemma midpoint_tr (pa pb : vR) : midpoint NumR (pa +v t) (pb +v t) = midpoint NumR pa pb +v t.
  Proof.
    unfold midpoint, chalf. vunfold. cbn [nofZ NumR]. apply vec3_eq; cbn [vx vy vz]; lra.
  Qed.

  Lemma apply_op_tr dynamic st o :
    apply_op NumR dynamic (tr_mstate t st) o = option_map (tr_mstate t) (apply_op NumR dynamic st o).
  Proof.
    rewrite tr_mstate_eq. destruct o as [a b e | a b i | a b]; cbn [apply_op ms_nodes ms_faces].
    - rewrite !nget_tr.
      destruct (nget (ms_nodes st) a) as [na |]; cbn [option_map]; [| reflexivity].
      destruct (nget (ms_nodes st) b) as [nb |]; cbn [option_map]; [| reflexivity].
      destruct (negb (edge_exists (ms_faces st) a b)); cbn [option_map]; [reflexivity |].
      rewrite tr_mstate_eq. cbn [ms_nodes ms_faces]. f_equal. f_equal.
      cbn [trns ns_pos ns_mom]. rewrite midpoint_tr.
      destruct dynamic.
      + change (mkns (ns_pos na +v t) (ns_mom na *v two_thirds NumR))
          with (trns (mkns (ns_pos na) (ns_mom na *v two_thirds NumR))).
        change (mkns (ns_pos nb +v t) (ns_mom nb *v two_thirds NumR))
          with (trns (mkns (ns_pos nb) (ns_mom nb *v two_thirds NumR))).
        change (mkns (midpoint NumR (ns_pos na) (ns_pos nb) +v t) (vdivs NumR (ns_mom na +v ns_mom nb) (nofZ NumR 3)))
          with (trns (mkns (midpoint NumR (ns_pos na) (ns_pos nb)) (vdivs NumR (ns_mom na +v ns_mom nb) (nofZ NumR 3)))).
        rewrite !nset_tr. reflexivity.
      + change (mkns (midpoint NumR (ns_pos na) (ns_pos nb) +v t) (vzero NumR))
          with (trns (mkns (midpoint NumR (ns_pos na) (ns_pos nb)) (vzero NumR))).
        rewrite nset_tr. reflexivity.
    - rewrite !nget_tr.
      destruct (nget (ms_nodes st) a) as [na |]; cbn [option_map]; [| reflexivity].
      destruct (nget (ms_nodes st) b) as [nb |]; cbn [option_map]; [| reflexivity].
      destruct (negb (edge_exists (ms_faces st) a b)); cbn [option_map]; [reflexivity |].
      rewrite tr_mstate_eq. cbn [ms_nodes ms_faces]. f_equal. f_equal.
      cbn [trns ns_pos ns_mom]. rewrite midpoint_tr. rewrite !ndel_tr.
      match goal with |- nset _ _ (mkns (?m +v t) ?mo) = _ => change (mkns (m +v t) mo) with (trns (mkns m mo)) end.
      rewrite nset_tr. reflexivity.
    - destruct (swap (ms_faces st) a b) as [fs |]; cbn [option_map]; reflexivity.
  Qed.

  Lemma replay_tr dynamic ops : forall st,
    replay NumR dynamic (tr_mstate t st) ops = option_map (tr_mstate t) (replay NumR dynamic st ops).
  Proof.
    induction ops as [| o r IH]; intros st; cbn [replay]; [reflexivity |].
    rewrite apply_op_tr. destruct (apply_op NumR dynamic st o) as [st' |]; cbn [option_map]; [apply IH | reflexivity].
  Qed.

  Lemma sq_len_tr st a b : sq_len NumR (tr_mstate t st) a b = sq_len NumR st a b.
  Proof.
    unfold sq_len. rewrite tr_mstate_eq. cbn [ms_nodes]. rewrite !nget_tr.
    destruct (nget (ms_nodes st) a) as [na |]; cbn [option_map]; [| reflexivity].
    destruct (nget (ms_nodes st) b) as [nb |]; cbn [option_map]; [| reflexivity].
    cbn [trns ns_pos]. rewrite vsub_tr. reflexivity.
  Qed.

  Lemma guard_ok_tr lmin2 lmax2 st o : guard_ok NumR lmin2 lmax2 (tr_mstate t st) o = guard_ok NumR lmin2 lmax2 st o.
  Proof. destruct o as [a b e | a b i | a b]; cbn [guard_ok]; rewrite ?sq_len_tr; reflexivity. Qed.

  Lemma guards_ok_tr dynamic lmin2 lmax2 ops : forall st,
    guards_ok NumR dynamic lmin2 lmax2 (tr_mstate t st) ops = guards_ok NumR dynamic lmin2 lmax2 st ops.
  Proof.
    induction ops as [| o r IH]; intros st; cbn [guards_ok]; [reflexivity |].
    rewrite guard_ok_tr, apply_op_tr.
    destruct (apply_op NumR dynamic st o) as [st' |]; cbn [option_map]; [rewrite IH |]; reflexivity.
  Qed.
End ReplayTr.

Lemma replay_equivariant : forall (t : vR) dynamic ops,
  equivariant_opt (tr_mstate t) (fun st => replay NumR dynamic st ops).
Proof. intros t dynamic ops st. apply replay_tr. Qed.

Lemma guards_invariant : forall (t : vR) dynamic lmin2 lmax2 st ops,
  guards_ok NumR dynamic lmin2 lmax2 (tr_mstate t st) ops = guards_ok NumR dynamic lmin2 lmax2 st ops.
Proof. intros t dynamic lmin2 lmax2 st ops. apply guards_ok_tr. Qed.

(* ------------------------------------------------------------------ time integration *)
Lemma fold_left_ext' {A B} (f g : A -> B -> A) (l : list B) :
  (forall a x, f a x = g a x) -> forall a, fold_left f l a = fold_left g l a.
Proof. intros H. induction l as [| x l IH]; intros a; cbn [fold_left]; [reflexivity |]. rewrite H. apply IH. Qed.

Lemma forallb_ext' {A} (f g : A -> bool) (l : list A) : (forall x, f x = g x) -> forallb f l = forallb g l.
Proof. intros H. induction l as [| x l IH]; cbn [forallb]; [reflexivity |]. rewrite H, IH. reflexivity. Qed.

Lemma set_nth_length {A} (l : list A) : forall k x, length (set_nth l k x) = length l.
Proof. induction l as [| y l IH]; intros [| k] x; cbn [set_nth length]; auto. Qed.
Lemma set_nth_map {A B} (f : A -> B) (l : list A) : forall k x, set_nth (map f l) k (f x) = map f (set_nth l k x).
Proof. induction l as [| y l IH]; intros [| k] x; cbn [set_nth map]; try reflexivity. rewrite IH. reflexivity. Qed.
Lemma set_nth_oob {A} (l : list A) : forall k x, (length l <= k)%nat -> set_nth l k x = l.
Proof.
  induction l as [| y l IH]; intros [| k] x H; cbn [set_nth length] in *; try reflexivity; try lia.
  rewrite IH by lia. reflexivity.
Qed.

Lemma trin_used t (n : inode R) : n_used (tr_inode t n) = n_used n. Proof. reflexivity. Qed.
Lemma trin_cell t (n : inode R) : n_cell (tr_inode t n) = n_cell n. Proof. reflexivity. Qed.
Lemma trin_mom t (n : inode R) : n_mom (tr_inode t n) = n_mom n. Proof. reflexivity. Qed.
Lemma trin_force t (n : inode R) : n_force (tr_inode t n) = n_force n. Proof. reflexivity. Qed.
Lemma trin_cpl t (n : inode R) : n_cpl (tr_inode t n) = n_cpl n. Proof. reflexivity. Qed.
Lemma trin_cpls t (n : inode R) : n_cpls (tr_inode t n) = n_cpls n. Proof. reflexivity. Qed.
Lemma trin_pos t (n : inode R) : n_pos (tr_inode t n) = n_pos n +v t. Proof. reflexivity. Qed.

Lemma trin_mk t u ce p m f cp cps :
  mknode u ce (p +v t) m f cp cps = tr_inode t (mknode u ce p m f cp cps).
Proof. reflexivity. Qed.

Lemma upd_single_tr t over dt damping m n :
  upd_single NumR over dt damping m (tr_inode t n) = tr_inode t (upd_single NumR over dt damping m n).
Proof.
  unfold upd_single, upd_over, upd_dyn. cbv zeta. destruct over;
    rewrite ?trin_used, ?trin_cell, ?trin_mom, ?trin_force, ?trin_cpl, ?trin_cpls, ?trin_pos;
    rewrite !(vadd_tr_l _ _ t); reflexivity.
Qed.

Lemma upd_pair_tr t over dt damping m1 m2 n1 n2 :
  upd_pair NumR over dt damping m1 m2 (tr_inode t n1) (tr_inode t n2) =
  (tr_inode t (fst (upd_pair NumR over dt damping m1 m2 n1 n2)), tr_inode t (snd (upd_pair NumR over dt damping m1 m2 n1 n2))).
Proof.
  unfold upd_pair. cbv zeta. destruct over; cbn [fst snd];
    rewrite ?trin_used, ?trin_cell, ?trin_mom, ?trin_force, ?trin_cpl, ?trin_cpls, ?trin_pos;
    rewrite !(vadd_tr_l _ _ t); reflexivity.
Qed.

Lemma upd_pair_fst_tr t over dt damping m1 m2 n1 n2 :
  fst (upd_pair NumR over dt damping m1 m2 (tr_inode t n1) n2) = tr_inode t (fst (upd_pair NumR over dt damping m1 m2 n1 n2)).
Proof.
  unfold upd_pair. cbv zeta. destruct over; cbn [fst snd];
    rewrite ?trin_used, ?trin_cell, ?trin_mom, ?trin_force, ?trin_cpl, ?trin_cpls, ?trin_pos;
    rewrite !(vadd_tr_l _ _ t); reflexivity.
Qed.

Section IntegratorTr.
  Variable t : vR.
  Notation trI := (tr_inode t).
  Notation dn := (dnode NumR).
  Notation dc := (dcell NumR).

  Lemma nth_tr_cases g (l : list (inode R)) :
    ((g < length l)%nat /\ nth g (map trI l) dn = trI (nth g l dn)) \/
    ((length l <= g)%nat /\ nth g (map trI l) dn = dn /\ nth g l dn = dn).
  Proof.
    destruct (Nat.lt_ge_cases g (length l)) as [H | H].
    - left. split; [exact H |]. rewrite (nth_indep _ dn (trI dn)) by (rewrite map_length; exact H). apply map_nth.
    - right. split; [exact H |]. split; apply nth_overflow; [rewrite map_length |]; exact H.
  Qed.

  Lemma nth_tr_cell g l : n_cell (nth g (map trI l) dn) = n_cell (nth g l dn).
  Proof. destruct (nth_tr_cases g l) as [[_ E] | [_ [E1 E2]]]; [rewrite E | rewrite E1, E2]; reflexivity. Qed.
  Lemma nth_tr_force g l : n_force (nth g (map trI l) dn) = n_force (nth g l dn).
  Proof. destruct (nth_tr_cases g l) as [[_ E] | [_ [E1 E2]]]; [rewrite E | rewrite E1, E2]; reflexivity. Qed.
  Lemma nth_tr_mom g l : n_mom (nth g (map trI l) dn) = n_mom (nth g l dn).
  Proof. destruct (nth_tr_cases g l) as [[_ E] | [_ [E1 E2]]]; [rewrite E | rewrite E1, E2]; reflexivity. Qed.

  Lemma fold_proc_tr (proc : list (inode R) -> nat -> list (inode R)) :
    (forall nodes k, proc (map trI nodes) k = map trI (proc nodes k)) ->
    forall ks nodes, fold_left proc ks (map trI nodes) = map trI (fold_left proc ks nodes).
  Proof. intros H ks. induction ks as [| k ks IH]; intros nodes; cbn [fold_left]; [reflexivity |]. rewrite H. apply IH. Qed.

  Lemma process0_tr over dt damping cells nodes k :
    process0 NumR over dt damping cells (map trI nodes) k = map trI (process0 NumR over dt damping cells nodes k).
  Proof.
    unfold process0. cbv zeta.
    destruct (nth_tr_cases k nodes) as [[Hk E] | [Hk [E1 E2]]].
    - rewrite E, trin_cell, trin_used.
      destruct (c_static (nth (n_cell (nth k nodes dn)) cells dc)); [reflexivity |].
      destruct (negb (n_used (nth k nodes dn))); [reflexivity |].
      rewrite upd_single_tr. apply set_nth_map.
    - rewrite E1, E2. cbn [dnode n_cell n_used negb].
      destruct (c_static (nth 0 cells dc)); reflexivity.
  Qed.

  Lemma process1_tr over dt damping cells nodes k :
    process1 NumR over dt damping cells (map trI nodes) k = map trI (process1 NumR over dt damping cells nodes k).
  Proof.
    unfold process1. cbv zeta.
    destruct (nth_tr_cases k nodes) as [[Hk E] | [Hk [E1 E2]]].
    - rewrite E, trin_cell, trin_used, trin_cpl.
      set (n1 := nth k nodes dn).
      destruct (c_static (nth (n_cell n1) cells dc)); [reflexivity |].
      destruct (negb (n_used n1)); [reflexivity |].
      destruct (n_cpl n1) as [g2 |].
      + rewrite nth_tr_cell.
        destruct (Nat.ltb (n_cell (nth g2 nodes dn)) (c_local (nth (n_cell n1) cells dc))); [| reflexivity].
        destruct (nth_tr_cases g2 nodes) as [[Hg E2] | [Hg [E2a E2b]]].
        * rewrite E2, upd_pair_tr.
          destruct (upd_pair NumR over dt damping (c_mass (nth (n_cell n1) cells dc))
                      (c_mass (nth (n_cell (nth g2 nodes dn)) cells dc)) n1 (nth g2 nodes dn)) as [a b].
          cbn [fst snd]. rewrite !set_nth_map. reflexivity.
        * rewrite E2a, E2b.
          pose proof (upd_pair_fst_tr t over dt damping (c_mass (nth (n_cell n1) cells dc))
                        (c_mass (nth (n_cell dn) cells dc)) n1 dn) as Hf.
          destruct (upd_pair NumR over dt damping (c_mass (nth (n_cell n1) cells dc))
                      (c_mass (nth (n_cell dn) cells dc)) (trI n1) dn) as [aL bL].
          destruct (upd_pair NumR over dt damping (c_mass (nth (n_cell n1) cells dc))
                      (c_mass (nth (n_cell dn) cells dc)) n1 dn) as [aR bR].
          cbn [fst] in Hf. subst aL.
          rewrite (set_nth_oob _ g2 bL) by (rewrite set_nth_length, map_length; exact Hg).
          rewrite (set_nth_oob _ g2 bR) by (rewrite set_nth_length; exact Hg).
          apply set_nth_map.
      + rewrite upd_single_tr. apply set_nth_map.
    - rewrite E1, E2. cbn [dnode n_cell n_used negb].
      destruct (c_static (nth 0 cells dc)); reflexivity.
  Qed.

  (* contact model 2 with its local definitions named *)
  Definition p2_ok (cells : list (icell R)) (nodes : list (inode R)) (n1 : inode R) : bool :=
    forallb (fun g => Nat.ltb (n_cell (nth g nodes dn)) (c_local (nth (n_cell n1) cells dc))) (n_cpls n1).
  Definition p2_ap (over : bool) (dt damping : R) (cells : list (icell R)) (nodes : list (inode R)) (n1 : inode R)
    : inode R -> inode R :=
    let c1 := nth (n_cell n1) cells dc in
    let grp := n_cpls n1 in
    let sum_f := fold_left (fun acc g => vadd NumR acc (n_force (nth g nodes dn))) grp (n_force n1) in
    let sum_m := fold_left (fun acc g => acc + c_mass (nth (n_cell (nth g nodes dn)) cells dc)) grp (c_mass c1) in
    let sum_p := fold_left (fun acc g => vadd NumR acc (n_mom (nth g nodes dn))) grp (n_mom n1) in
    let cnt := IZR (Z.of_nat (length grp) + 1) in
    let avg_f := vdivs' NumR sum_f cnt in
    let avg_m := sum_m / cnt in
    let avg_p := vdivs' NumR sum_p cnt in
    fun n =>
      if over then
        mknode (n_used n) (n_cell n) (vadd NumR (n_pos n) (vscale NumR avg_f (dt / damping))) (n_mom n) (vzero NumR) (n_cpl n) (n_cpls n)
      else
        mknode (n_used n) (n_cell n) (vadd NumR (n_pos n) (vscale NumR avg_p (dt / avg_m)))
               (vadd NumR (n_mom n) (vscale NumR (vsub NumR avg_f (vscale NumR avg_p (damping / avg_m))) dt))
               (vzero NumR) (n_cpl n) (n_cpls n).

  Lemma process2_unfold over dt damping cells nodes k :
    process2 NumR over dt damping cells nodes k =
    let n1 := nth k nodes dn in
    if c_static (nth (n_cell n1) cells dc) then nodes else
    if negb (n_used n1) then nodes else
    if negb (p2_ok cells nodes n1) then nodes else
    fold_left (fun nd g => set_nth nd g (p2_ap over dt damping cells nodes n1 (nth g nd dn))) (n_cpls n1)
              (set_nth nodes k (p2_ap over dt damping cells nodes n1 n1)).
  Proof. reflexivity. Qed.

  Lemma p2_ok_tr cells nodes n1 : p2_ok cells (map trI nodes) (trI n1) = p2_ok cells nodes n1.
  Proof. unfold p2_ok. rewrite trin_cpls, trin_cell. apply forallb_ext'. intros g. rewrite nth_tr_cell. reflexivity. Qed.

  Lemma p2_ap_tr over dt damping cells nodes n1 n :
    p2_ap over dt damping cells (map trI nodes) (trI n1) (trI n) = trI (p2_ap over dt damping cells nodes n1 n).
  Proof.
    unfold p2_ap. cbv zeta. rewrite !trin_cpls, !trin_cell, !trin_force, !trin_mom, !trin_used, !trin_cpl, !trin_pos.
    rewrite (fold_left_ext' (fun acc g => vadd NumR acc (n_force (nth g (map trI nodes) dn)))
                            (fun acc g => vadd NumR acc (n_force (nth g nodes dn))))
      by (intros a x; rewrite nth_tr_force; reflexivity).
    rewrite (fold_left_ext' (fun acc g => vadd NumR acc (n_mom (nth g (map trI nodes) dn)))
                            (fun acc g => vadd NumR acc (n_mom (nth g nodes dn))))
      by (intros a x; rewrite nth_tr_mom; reflexivity).
    rewrite (fold_left_ext' (fun acc g => acc + c_mass (nth (n_cell (nth g (map trI nodes) dn)) cells dc))
                            (fun acc g => acc + c_mass (nth (n_cell (nth g nodes dn)) cells dc)))
      by (intros a x; rewrite nth_tr_cell; reflexivity).
    destruct over; rewrite !(vadd_tr_l _ _ t); reflexivity.
  Qed.

  Lemma grp_fold_tr (apL apR : inode R -> inode R) (H : forall n, apL (trI n) = trI (apR n)) grp : forall nd,
    fold_left (fun nd g => set_nth nd g (apL (nth g nd dn))) grp (map trI nd) =
    map trI (fold_left (fun nd g => set_nth nd g (apR (nth g nd dn))) grp nd).
  Proof.
    induction grp as [| g grp IH]; intros nd; cbn [fold_left]; [reflexivity |].
    rewrite <- IH. f_equal.
    destruct (nth_tr_cases g nd) as [[Hg E] | [Hg [E1 E2]]].
    - rewrite E, H. apply set_nth_map.
    - rewrite !set_nth_oob; [reflexivity | exact Hg | rewrite map_length; exact Hg].
  Qed.

  Lemma process2_tr over dt damping cells nodes k :
    process2 NumR over dt damping cells (map trI nodes) k = map trI (process2 NumR over dt damping cells nodes k).
  Proof.
    rewrite !process2_unfold. cbv zeta.
    destruct (nth_tr_cases k nodes) as [[Hk E] | [Hk [E1 E2]]].
    - rewrite E, trin_cell, trin_used, trin_cpls, p2_ok_tr.
      set (n1 := nth k nodes dn).
      destruct (c_static (nth (n_cell n1) cells dc)); [reflexivity |].
      destruct (negb (n_used n1)); [reflexivity |].
      destruct (negb (p2_ok cells nodes n1)); [reflexivity |].
      rewrite p2_ap_tr, set_nth_map.
      apply grp_fold_tr. intros n. apply p2_ap_tr.
    - rewrite E1, E2. cbn [dnode n_cell n_used negb].
      destruct (c_static (nth 0 cells dc)); reflexivity.
  Qed.

  Lemma step_tr contact over dt damping s :
    step NumR contact over dt damping (tr_istate t s) = tr_istate t (step NumR contact over dt damping s).
  Proof.
    unfold step, tr_istate. cbn [s_cells s_nodes Integrator.s_time]. rewrite map_length. f_equal.
    destruct contact as [| [| c]]; apply fold_proc_tr; intros nodes k;
      [apply process0_tr | apply process1_tr | apply process2_tr].
  Qed.
End IntegratorTr.

Lemma integrator_equivariant : forall (t : vR) contact over dt damping,
  equivariant (tr_istate t) (step NumR contact over dt damping).
Proof. intros t contact over dt damping s. apply step_tr. Qed.

Lemma integrator_steps_equivariant : forall (t : vR) n contact over dt damping,
  equivariant (tr_istate t) (steps NumR n contact over dt damping).
Proof.
  intros t n contact over dt damping. unfold equivariant.
  induction n as [| n IH]; intros s; cbn [steps]; [reflexivity |].
  rewrite step_tr. apply IH.
Qed.

(* ------------------------------------------------------------------ contact phase *)
Lemma fold_opt_comm {S A} (sym : S -> S) (f f' : option S -> A -> option S) :
  (forall a, f None a = None) -> (forall a, f' None a = None) ->
  (forall s a, f' (Some (sym s)) a = option_map sym (f (Some s) a)) ->
  forall l acc, fold_left f' l (option_map sym acc) = option_map sym (fold_left f l acc).
Proof.
  intros Hn Hn' H l. induction l as [| a l IH]; intros acc; cbn [fold_left]; [reflexivity |].
  destruct acc as [s |]; cbn [option_map].
  - rewrite H. apply IH.
  - rewrite Hn, Hn'. apply (IH None).
Qed.

Lemma updn_map_comm {A B} (g : A -> B) (f : A -> A) (f' : B -> B) (l : list A) :
  (forall x, f' (g x) = g (f x)) -> forall n, updn (map g l) n f' = map g (updn l n f).
Proof.
  intros H. induction l as [| x l IH]; intros [| n]; cbn [updn map]; try reflexivity.
  - rewrite H. reflexivity.
  - rewrite IH. reflexivity.
Qed.

Lemma all_some_map {A B} (f : A -> B) (l : list (option A)) :
  all_some (map (option_map f) l) = option_map (map f) (all_some l).
Proof.
  induction l as [| [a |] l IH]; cbn [map all_some option_map]; try reflexivity.
  rewrite IH. destruct (all_some l); reflexivity.
Qed.

Lemma min3_shift (a b d c : R) : min3 NumR (a + c) (b + c) (d + c) = min3 NumR a b d + c.
Proof.
  unfold min3, nmin. cbn [nltb NumR]. rewrite (Rltb_shift d b c).
  destruct (Rltb d b); rewrite Rltb_shift; match goal with |- context [Rltb ?x a] => destruct (Rltb x a) end; reflexivity.
Qed.
Lemma max3_shift (a b d c : R) : max3 NumR (a + c) (b + c) (d + c) = max3 NumR a b d + c.
Proof.
  unfold max3, nmax. cbn [nltb NumR]. rewrite (Rltb_shift b d c).
  destruct (Rltb b d); rewrite Rltb_shift; match goal with |- context [Rltb a ?x] => destruct (Rltb a x) end; reflexivity.
Qed.

Lemma bary_comb_tr (a b c u t : vR) : vx u + vy u + vz u = 1 ->
  (a +v t) *v vx u +v (b +v t) *v vy u +v (c +v t) *v vz u = (a *v vx u +v b *v vy u +v c *v vz u) +v t.
Proof.
  destruct u as [ux uy uz], a as [ax ay az], b as [bx by_ bz], c as [cx cy cz], t as [tx ty tz].
  cbn [vx vy vz]. intros H. vunfold. cbn [vx vy vz]. f_equal.
  - transitivity (ax * ux + bx * uy + cx * uz + tx * (ux + uy + uz)); [ring | rewrite H; ring].
  - transitivity (ay * ux + by_ * uy + cy * uz + ty * (ux + uy + uz)); [ring | rewrite H; ring].
  - transitivity (az * ux + bz * uy + cz * uz + tz * (ux + uy + uz)); [ring | rewrite H; ring].
Qed.

Lemma mid_tr (p q t : vR) :
  vscale NumR (vadd NumR (p +v t) (q +v t)) (Contact.half NumR) = vscale NumR (vadd NumR p q) (Contact.half NumR) +v t.
Proof. unfold Contact.half. vunfold. cbn [nofZ NumR]. apply vec3_eq; cbn [vx vy vz]; lra. Qed.

Section ContactTr.
  Variables (eps dmax inf c45 c90 lmin cut_adh cut_rep : R).
  Variable t : vR.
  Notation stateR := (@Contact.state R).
  Notation trn := (tr_cnode t).
  Notation prepareR := (prepare NumR Zceil eps dmax inf lmin cut_adh cut_rep).
  Notation tryR := (try_face NumR dmax c45 c90 cut_adh cut_rep).
  Notation resolveR := (resolve_contact NumR dmax c45 cut_adh cut_rep).

  Definition trc (c : ccell (T:=R)) : ccell (T:=R) :=
    mkcc (cc_id c) (cc_local c) (cc_type c) (cc_maxcurv c) (map trn (cc_nodes c)) (cc_faces c).
  Lemma tr_cstate_eq (st : stateR) : tr_cstate t st = map trc st.
  Proof. reflexivity. Qed.

  Lemma trc_id c : cc_id (trc c) = cc_id c. Proof. reflexivity. Qed.
  Lemma trc_local c : cc_local (trc c) = cc_local c. Proof. reflexivity. Qed.
  Lemma trc_type c : cc_type (trc c) = cc_type c. Proof. reflexivity. Qed.
  Lemma trc_maxcurv c : cc_maxcurv (trc c) = cc_maxcurv c. Proof. reflexivity. Qed.
  Lemma trc_nodes c : cc_nodes (trc c) = map trn (cc_nodes c). Proof. reflexivity. Qed.
  Lemma trc_faces c : cc_faces (trc c) = cc_faces c. Proof. reflexivity. Qed.
  Lemma trn_used (n : cnode (T:=R)) : cn_used (trn n) = cn_used n. Proof. reflexivity. Qed.
  Lemma trn_pos (n : cnode (T:=R)) : cn_pos (trn n) = cn_pos n +v t. Proof. reflexivity. Qed.
  Lemma trn_normal (n : cnode (T:=R)) : cn_normal (trn n) = cn_normal n. Proof. reflexivity. Qed.
  Lemma trn_cpl (n : cnode (T:=R)) : cn_cpl (trn n) = cn_cpl n. Proof. reflexivity. Qed.
  Lemma trn_sqd (n : cnode (T:=R)) : cn_sqd (trn n) = cn_sqd n. Proof. reflexivity. Qed.

  (* ---- list updates *)
  Lemma upd_node_tr (st : stateR) ci ni (f f' : cnode (T:=R) -> cnode (T:=R)) :
    (forall n, f' (trn n) = trn (f n)) -> upd_node (map trc st) ci ni f' = map trc (upd_node st ci ni f).
  Proof.
    intros H. unfold upd_node. apply updn_map_comm. intros c.
    cbv beta. unfold trc. cbn [cc_id cc_local cc_type cc_maxcurv cc_nodes cc_faces].
    f_equal. apply updn_map_comm. exact H.
  Qed.
  Lemma upd_node_tr_same (st : stateR) ci ni (f : cnode (T:=R) -> cnode (T:=R)) :
    (forall n, f (trn n) = trn (f n)) -> upd_node (map trc st) ci ni f = map trc (upd_node st ci ni f).
  Proof. apply upd_node_tr. Qed.

  (* ---- prepare *)
  Lemma reset_state_tr (st : stateR) : reset_state dmax (map trc st) = map trc (reset_state dmax st).
  Proof.
    unfold reset_state. rewrite !map_map. apply map_ext. intros c.
    unfold trc. cbn [cc_id cc_local cc_type cc_maxcurv cc_nodes cc_faces]. f_equal.
    rewrite !map_map. apply map_ext. intros n.
    unfold reset_node. rewrite trn_used. destruct (cn_used n); reflexivity.
  Qed.

  Lemma gfaces_tr (st : stateR) : gfaces (map trc st) = gfaces st.
  Proof.
    unfold gfaces. f_equal. rewrite map_length. generalize 0%nat.
    induction st as [| c st IH]; intros k; cbn [length seq combine map]; [reflexivity |].
    rewrite IH. reflexivity.
  Qed.

  Lemma node_pos_tr (st : stateR) ci ni : node_pos (map trc st) ci ni = option_map (fun p => p +v t) (node_pos st ci ni).
  Proof.
    unfold node_pos. rewrite nth_error_map'. destruct (nth_error st ci) as [c |]; cbn [option_map]; [| reflexivity].
    rewrite trc_nodes, nth_error_map'. destruct (nth_error (cc_nodes c) ni) as [n |]; reflexivity.
  Qed.

  Definition shb (b : box (T:=R)) : box (T:=R) := mkbox (b_lo b +v t) (b_hi b +v t).

  Lemma face_box_tr (p1 p2 p3 : vR) :
    face_box NumR cut_adh cut_rep (p1 +v t) (p2 +v t) (p3 +v t) = shb (face_box NumR cut_adh cut_rep p1 p2 p3).
  Proof.
    unfold face_box, shb. cbn [b_lo b_hi vadd vx vy vz nadd nsub NumR].
    rewrite !min3_shift, !max3_shift. f_equal; apply vec3_eq; cbn [vadd vx vy vz nadd NumR]; ring.
  Qed.

  Lemma face_box_of_tr (st : stateR) cf :
    face_box_of NumR cut_adh cut_rep (map trc st) cf = option_map shb (face_box_of NumR cut_adh cut_rep st cf).
  Proof.
    destruct cf as [ci f]. unfold face_box_of. rewrite !node_pos_tr.
    destruct (node_pos st ci (cf_n1 f)) as [p1 |]; cbn [option_map]; [| reflexivity].
    destruct (node_pos st ci (cf_n2 f)) as [p2 |]; cbn [option_map]; [| reflexivity].
    destruct (node_pos st ci (cf_n3 f)) as [p3 |]; cbn [option_map]; [| reflexivity].
    rewrite face_box_tr. reflexivity.
  Qed.

  Lemma prepare_tr (st : stateR) :
    match prepareR st with
    | None => prepareR (map trc st) = None
    | Some p => exists p', prepareR (map trc st) = Some p' /\
                           p_state p' = map trc (p_state p) /\ p_gfs p' = p_gfs p /\ p_boxes p' = map shb (p_boxes p)
    end.
  Proof.
    unfold prepare. cbv zeta. rewrite reset_state_tr, gfaces_tr.
    rewrite (map_ext _ _ (face_box_of_tr (reset_state dmax st))).
    rewrite <- (map_map (face_box_of NumR cut_adh cut_rep (reset_state dmax st)) (option_map shb)).
    rewrite all_some_map.
    destruct (all_some (map (face_box_of NumR cut_adh cut_rep (reset_state dmax st)) (gfaces (reset_state dmax st)))) as [boxes |];
      cbn [option_map]; [| reflexivity].
    eexists. split; [reflexivity |]. cbn [p_state p_gfs p_boxes]. repeat split.
  Qed.

  (* ---- narrow phase *)
  Lemma in_box_tr (b : box (T:=R)) (p : vR) : in_box NumR (shb b) (p +v t) = in_box NumR b p.
  Proof.
    unfold in_box, shb. cbn [b_lo b_hi vadd vx vy vz nadd nltb NumR]. rewrite !Rltb_shift. reflexivity.
  Qed.

  Lemma cpl_dist_tr (n1 fn : cnode (T:=R)) mc : cpl_dist NumR dmax c45 (trn n1) (trn fn) mc = cpl_dist NumR dmax c45 n1 fn mc.
  Proof. unfold cpl_dist. rewrite !trn_pos, vsub_tr. reflexivity. Qed.

  Lemma cpl_choice_tr (n1 a b c : cnode (T:=R)) ia ib ic mc :
    cpl_choice NumR dmax c45 (trn n1) (trn a) (trn b) (trn c) ia ib ic mc = cpl_choice NumR dmax c45 n1 a b c ia ib ic mc.
  Proof. unfold cpl_choice. rewrite !cpl_dist_tr. reflexivity. Qed.

  Lemma interaction_tr (p a b c fnormal : vR) area rep t1 t2 :
    interaction NumR cut_adh cut_rep (p +v t) (a +v t) (b +v t) (c +v t) fnormal area rep t1 t2 =
    interaction NumR cut_adh cut_rep p a b c fnormal area rep t1 t2.
  Proof.
    unfold interaction. cbv zeta. rewrite kernel_translate.
    rewrite (bary_comb_tr a b c (k_bary (kernel NumR p a b c)) t (bary_sum_one_all p a b c)).
    rewrite vsub_tr. reflexivity.
  Qed.

  Lemma resolve_contact_tr (st : stateR) c1i n1i gf :
    resolveR (map trc st) c1i n1i gf = option_map (map trc) (resolveR st c1i n1i gf).
  Proof.
    destruct gf as [c2i f]. unfold resolve_contact. cbv zeta. rewrite !nth_error_map'.
    destruct (nth_error st c1i) as [c1 |]; cbn [option_map]; [| reflexivity].
    destruct (nth_error st c2i) as [c2 |]; cbn [option_map]; [| reflexivity].
    rewrite !trc_nodes, !trc_type, !trc_local, !trc_maxcurv, !nth_error_map'.
    destruct (nth_error (cc_nodes c1) n1i) as [n1 |]; cbn [option_map]; [| reflexivity].
    destruct (nth_error (cc_nodes c2) (cf_n1 f)) as [a |]; cbn [option_map]; [| reflexivity].
    destruct (nth_error (cc_nodes c2) (cf_n2 f)) as [b |]; cbn [option_map]; [| reflexivity].
    destruct (nth_error (cc_nodes c2) (cf_n3 f)) as [c |]; cbn [option_map]; [| reflexivity].
    rewrite cpl_choice_tr, trn_sqd, !trn_pos, interaction_tr.
    assert (Hint :
      match interaction NumR cut_adh cut_rep (cn_pos n1) (cn_pos a) (cn_pos b) (cn_pos c) (cf_normal f) (cf_area f) (cf_rep f) (cc_type c1) (cc_type c2) with
      | Some (fn, fa, fb, fc) =>
          Some (upd_node (upd_node (upd_node (upd_node (map trc st) c2i (cf_n1 f) (fun n => add_force NumR n fa))
                                             c2i (cf_n2 f) (fun n => add_force NumR n fb))
                                   c2i (cf_n3 f) (fun n => add_force NumR n fc))
                         c1i n1i (fun n => add_force NumR n fn))
      | None => Some (map trc st)
      end =
      option_map (map trc)
      match interaction NumR cut_adh cut_rep (cn_pos n1) (cn_pos a) (cn_pos b) (cn_pos c) (cf_normal f) (cf_area f) (cf_rep f) (cc_type c1) (cc_type c2) with
      | Some (fn, fa, fb, fc) =>
          Some (upd_node (upd_node (upd_node (upd_node st c2i (cf_n1 f) (fun n => add_force NumR n fa))
                                             c2i (cf_n2 f) (fun n => add_force NumR n fb))
                                   c2i (cf_n3 f) (fun n => add_force NumR n fc))
                         c1i n1i (fun n => add_force NumR n fn))
      | None => Some st
      end).
    { destruct (interaction NumR cut_adh cut_rep (cn_pos n1) (cn_pos a) (cn_pos b) (cn_pos c) (cf_normal f) (cf_area f)
                  (cf_rep f) (cc_type c1) (cc_type c2)) as [[[[fn fa] fb] fc] |]; cbn [option_map]; [| reflexivity].
      rewrite !upd_node_tr_same by (intros n; reflexivity). reflexivity. }
    destruct (Nat.eqb (cc_type c1) 0 && Nat.eqb (cc_type c2) 0); [| exact Hint].
    destruct (cpl_choice NumR dmax c45 n1 a b c (cf_n1 f) (cf_n2 f) (cf_n3 f) (cc_maxcurv c1)) as [n2i d].
    destruct ((nltb NumR d (cut2_adh NumR cut_adh)) && (nltb NumR d (cn_sqd n1))); [| exact Hint].
    cbn [option_map]. rewrite !upd_node_tr_same by (intros n; reflexivity). reflexivity.
  Qed.

  Lemma try_face_tr boxes gfs c1i n1i (st : stateR) fid :
    tryR (map shb boxes) gfs c1i n1i (Some (map trc st)) fid = option_map (map trc) (tryR boxes gfs c1i n1i (Some st) fid).
  Proof.
    unfold try_face. rewrite !nth_error_map'.
    destruct (nth_error st c1i) as [c1 |]; cbn [option_map]; [| reflexivity].
    destruct (nth_error gfs fid) as [gf |]; [| reflexivity].
    destruct (nth_error boxes fid) as [b |]; cbn [option_map]; [| reflexivity].
    rewrite nth_error_map'.
    destruct (nth_error st (fst gf)) as [c2 |]; cbn [option_map]; [| reflexivity].
    rewrite trc_nodes, nth_error_map'.
    destruct (nth_error (cc_nodes c1) n1i) as [n1 |]; cbn [option_map]; [| reflexivity].
    rewrite !trc_id, trn_pos, trn_normal, in_box_tr.
    destruct (negb (Nat.eqb (cc_id c1) (cc_id c2))); [| reflexivity].
    destruct (in_box NumR b (cn_pos n1) && nltb NumR (vdot NumR (cn_normal n1) (cf_normal (snd gf))) c90); [| reflexivity].
    apply resolve_contact_tr.
  Qed.

  Lemma node_active_tr c (n : cnode (T:=R)) : node_active NumR (trc c) (trn n) = node_active NumR c n.
  Proof. reflexivity. Qed.

  Section Loop.
    Variables (cands cands' : vR -> option (list nat)).
    Hypothesis Hc : forall p, cands' (p +v t) = cands p.
    Variables (boxes : list (box (T:=R))) (gfs : list (nat * cface (T:=R))).

    Lemma innerF_tr ci (st2 : stateR) ni :
      innerF dmax c45 c90 cut_adh cut_rep cands' (map shb boxes) gfs ci (Some (map trc st2)) ni =
      option_map (map trc) (innerF dmax c45 c90 cut_adh cut_rep cands boxes gfs ci (Some st2) ni).
    Proof.
      unfold innerF. rewrite nth_error_map'.
      destruct (nth_error st2 ci) as [c |]; cbn [option_map]; [| reflexivity].
      rewrite trc_nodes, nth_error_map'.
      destruct (nth_error (cc_nodes c) ni) as [n |]; cbn [option_map]; [| reflexivity].
      rewrite node_active_tr. destruct (node_active NumR c n); [| reflexivity].
      rewrite trn_pos, Hc. destruct (cands (cn_pos n)) as [l |]; [| reflexivity].
      apply (fold_opt_comm (map trc) (tryR boxes gfs ci ni) (tryR (map shb boxes) gfs ci ni)
               (fun a => eq_refl) (fun a => eq_refl) (fun s a => try_face_tr boxes gfs ci ni s a) l (Some st2)).
    Qed.

    Lemma outerF_tr (st : stateR) ci :
      outerF dmax c45 c90 cut_adh cut_rep cands' (map shb boxes) gfs (Some (map trc st)) ci =
      option_map (map trc) (outerF dmax c45 c90 cut_adh cut_rep cands boxes gfs (Some st) ci).
    Proof.
      unfold outerF. rewrite nth_error_map'.
      destruct (nth_error st ci) as [c0 |]; cbn [option_map]; [| reflexivity].
      rewrite trc_nodes, map_length.
      apply (fold_opt_comm (map trc) (innerF dmax c45 c90 cut_adh cut_rep cands boxes gfs ci)
               (innerF dmax c45 c90 cut_adh cut_rep cands' (map shb boxes) gfs ci)
               (fun a => eq_refl) (fun a => eq_refl) (fun s a => innerF_tr ci s a) _ (Some st)).
    Qed.

    Lemma node_loop_tr (st0 : stateR) :
      node_loop NumR dmax c45 c90 cut_adh cut_rep cands' (map shb boxes) gfs (map trc st0) =
      option_map (map trc) (node_loop NumR dmax c45 c90 cut_adh cut_rep cands boxes gfs st0).
    Proof.
      rewrite !node_loop_eq, map_length.
      apply (fold_opt_comm (map trc) (outerF dmax c45 c90 cut_adh cut_rep cands boxes gfs)
               (outerF dmax c45 c90 cut_adh cut_rep cands' (map shb boxes) gfs)
               (fun a => eq_refl) (fun a => eq_refl) (fun s a => outerF_tr s a) _ (Some st0)).
    Qed.
  End Loop.

  (* ---- the second loop *)
  Definition cinner (ci : nat) (acc2 : option stateR) (ni : nat) : option stateR :=
    match acc2 with None => None | Some st2 =>
      match nth_error st2 ci with None => None | Some c =>
        match nth_error (cc_nodes c) ni with None => None | Some n =>
          if cn_used n then
            match cn_cpl n with
            | Some (c2i, n2i) =>
                if Nat.ltb c2i ci then
                  match nth_error st2 c2i with None => None | Some c2 =>
                    match nth_error (cc_nodes c2) n2i with None => None | Some n2 =>
                      let m := vscale NumR (vadd NumR (cn_pos n) (cn_pos n2)) (Contact.half NumR) in
                      Some (upd_node (upd_node st2 ci ni (fun x => set_pos x m)) c2i n2i (fun x => set_pos x m))
                    end end
                else Some st2
            | None => Some st2
            end
          else Some st2
        end end end.
  Definition couter (acc : option stateR) (ci : nat) : option stateR :=
    match acc with None => None | Some st =>
      match nth_error st ci with None => None | Some c0 =>
        fold_left (cinner ci) (seq 0 (length (cc_nodes c0))) (Some st)
      end end.
  Lemma centre_pairs_eq (st0 : stateR) : centre_pairs NumR st0 = fold_left couter (seq 0 (length st0)) (Some st0).
  Proof. reflexivity. Qed.

  Lemma cinner_tr ci (st2 : stateR) ni : cinner ci (Some (map trc st2)) ni = option_map (map trc) (cinner ci (Some st2) ni).
  Proof.
    unfold cinner. rewrite nth_error_map'.
    destruct (nth_error st2 ci) as [c |]; cbn [option_map]; [| reflexivity].
    rewrite trc_nodes, nth_error_map'.
    destruct (nth_error (cc_nodes c) ni) as [n |]; cbn [option_map]; [| reflexivity].
    rewrite trn_used, trn_cpl. destruct (cn_used n); [| reflexivity].
    destruct (cn_cpl n) as [[c2i n2i] |]; [| reflexivity].
    destruct (Nat.ltb c2i ci); [| reflexivity].
    rewrite nth_error_map'.
    destruct (nth_error st2 c2i) as [c2 |]; cbn [option_map]; [| reflexivity].
    rewrite trc_nodes, nth_error_map'.
    destruct (nth_error (cc_nodes c2) n2i) as [n2 |]; cbn [option_map]; [| reflexivity].
    cbv zeta. rewrite !trn_pos, mid_tr. f_equal.
    set (m := vscale NumR (vadd NumR (cn_pos n) (cn_pos n2)) (Contact.half NumR)).
    rewrite (upd_node_tr st2 ci ni (fun x => set_pos x m) (fun x => set_pos x (m +v t))) by (intros x; reflexivity).
    apply upd_node_tr. intros x; reflexivity.
  Qed.

  Lemma couter_tr (st : stateR) ci : couter (Some (map trc st)) ci = option_map (map trc) (couter (Some st) ci).
  Proof.
    unfold couter. rewrite nth_error_map'.
    destruct (nth_error st ci) as [c0 |]; cbn [option_map]; [| reflexivity].
    rewrite trc_nodes, map_length.
    apply (fold_opt_comm (map trc) (cinner ci) (cinner ci) (fun a => eq_refl) (fun a => eq_refl)
             (fun s a => cinner_tr ci s a) _ (Some st)).
  Qed.

  Lemma centre_pairs_tr (st0 : stateR) : centre_pairs NumR (map trc st0) = option_map (map trc) (centre_pairs NumR st0).
  Proof.
    rewrite !centre_pairs_eq, map_length.
    apply (fold_opt_comm (map trc) couter couter (fun a => eq_refl) (fun a => eq_refl) (fun s a => couter_tr s a) _ (Some st0)).
  Qed.

  Lemma all_pairs_tr (st : stateR) :
    all_pairs_phase NumR Zceil eps dmax inf c45 c90 lmin cut_adh cut_rep (tr_cstate t st) =
    option_map (tr_cstate t) (all_pairs_phase NumR Zceil eps dmax inf c45 c90 lmin cut_adh cut_rep st).
  Proof.
    rewrite tr_cstate_eq. unfold all_pairs_phase. pose proof (prepare_tr st) as Hp.
    destruct (prepareR st) as [p |].
    - destruct Hp as (p' & Ep' & Es & Eg & Eb). rewrite Ep'. unfold all_faces_desc. rewrite Es, Eg, Eb.
      rewrite (node_loop_tr (fun _ => Some (rev (seq 0 (length (p_gfs p))))) (fun _ => Some (rev (seq 0 (length (p_gfs p)))))
                 (fun _ => eq_refl) (p_boxes p) (p_gfs p) (p_state p)).
      destruct (node_loop NumR dmax c45 c90 cut_adh cut_rep (fun _ => Some (rev (seq 0 (length (p_gfs p)))))
                  (p_boxes p) (p_gfs p) (p_state p)) as [st2 |]; cbn [option_map]; [| reflexivity].
      apply centre_pairs_tr.
    - rewrite Hp. reflexivity.
  Qed.
End ContactTr.

Lemma all_pairs_equivariant (eps dmax inf c45 c90 lmin cut_adh cut_rep : R) :
  forall t : vR, equivariant_opt (tr_cstate t) (all_pairs_phase NumR Zceil eps dmax inf c45 c90 lmin cut_adh cut_rep).
Proof. intros t st. apply all_pairs_tr. Qed.

Lemma phase_equivariant (eps dmax inf c45 c90 lmin cut_adh cut_rep : R)
  (Hlmin : 0 < lmin) (Hadh : 0 <= cut_adh) (Hrep : 0 <= cut_rep) :
  forall (t : vR) st r s r' s',
  contact_phase NumR Zfloor Zceil eps dmax inf c45 c90 lmin cut_adh cut_rep st = Some (r, s) ->
  contact_phase NumR Zfloor Zceil eps dmax inf c45 c90 lmin cut_adh cut_rep (tr_cstate t st) = Some (r', s') ->
  r' = tr_cstate t r.
Proof.
  intros t st r s r' s' H1 H2.
  apply (grid_all_pairs eps dmax inf c45 c90 lmin cut_adh cut_rep Hlmin Hadh Hrep) in H1.
  apply (grid_all_pairs eps dmax inf c45 c90 lmin cut_adh cut_rep Hlmin Hadh Hrep) in H2.
  rewrite (all_pairs_equivariant eps dmax inf c45 c90 lmin cut_adh cut_rep t st), H1 in H2.
  cbn [option_map] in H2. injection H2 as H2. symmetry. exact H2.
Qed.
