(* Population.v — the bookkeeping of the cell population: persistent ids, list indices (local ids) and the id counter
   under the events of solver::run_iteration: simultaneous divisions (cell_divider::run) and removals. *)
From Coq Require Import NArith Arith Bool List Lia.
Import ListNotations.

Record pcell := mkpc { p_id : N; p_local : nat }.
Record pop := mkpop { p_cells : list pcell; p_counter : N }.

(* solver constructor: ids 0..n-1 in list order, local id = id, counter = n *)
Fixpoint init_cells (n : nat) (k : N) : list pcell :=
  match n with O => [] | S m => mkpc k (N.to_nat k) :: init_cells m (N.succ k) end.
Definition init_pop (n : nat) : pop := mkpop (init_cells n 0%N) (N.of_nat n).

Fixpoint renumber (cells : list pcell) (k : nat) : list pcell :=
  match cells with [] => [] | c :: r => mkpc (p_id c) k :: renumber r (S k) end.

Fixpoint remove_positions (cells : list pcell) (k : nat) (ms : list nat) : list pcell :=
  match cells with
  | [] => []
  | c :: r => if existsb (Nat.eqb k) ms then remove_positions r (S k) ms else c :: remove_positions r (S k) ms
  end.

(* cell_divider::run: for every successfully divided mother (positions ms, in the order the critical section is
   entered) two daughters with fresh ids are appended; then the mothers are erased and the list is renumbered.
   Nothing changes when no division succeeded (the renumbering is skipped too). *)
Definition append_daughters (p : pop) (ms : list nat) : pop :=
  fold_left (fun q _ => mkpop (p_cells q ++ [mkpc (p_counter q) 0; mkpc (N.succ (p_counter q)) 0]) (N.succ (N.succ (p_counter q)))) ms p.
Definition divide (ms : list nat) (p : pop) : pop :=
  match ms with
  | [] => p
  | _ => let q := append_daughters p ms in mkpop (renumber (remove_positions (p_cells q) 0 ms) 0) (p_counter q)
  end.

(* end of run_iteration: cells below their minimum volume (given by id) are erased, the rest renumbered *)
Definition remove (ids : list N) (p : pop) : pop :=
  mkpop (renumber (filter (fun c => negb (existsb (N.eqb (p_id c)) ids)) (p_cells p)) 0) (p_counter p).

Inductive pevent := EvDivide (ms : list nat) | EvRemove (ids : list N).
Definition pstep (p : pop) (e : pevent) : pop :=
  match e with EvDivide ms => divide ms p | EvRemove ids => remove ids p end.

Definition ids (p : pop) : list N := map p_id (p_cells p).

(* boolean form of the invariant, run on the model state by the correspondence *)
Fixpoint locals_ok (cells : list pcell) (k : nat) : bool :=
  match cells with [] => true | c :: r => Nat.eqb (p_local c) k && locals_ok r (S k) end.
Fixpoint nodupN_b (l : list N) : bool :=
  match l with [] => true | x :: r => negb (existsb (N.eqb x) r) && nodupN_b r end.
Definition popinv_b (p : pop) : bool :=
  locals_ok (p_cells p) 0 && nodupN_b (ids p) && forallb (fun i => N.ltb i (p_counter p)) (ids p).

(* a reference to a cell is stored as its local id and dereferenced as a list index *)
Definition store_ref (p : pop) (j : nat) : option nat := option_map p_local (nth_error (p_cells p) j).
Definition deref (p : pop) (r : nat) : option pcell := nth_error (p_cells p) r.
