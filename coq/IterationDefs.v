(* IterationDefs.v — vocabulary shared by the generated Iteration_gen.v and the model Iteration.v: the phases of
   solver::run_iteration and the conditions under which a phase runs. *)
From Coq Require Import Bool Arith.
Inductive phase :=
| PSave            (* save_mesh(): mesh files *)
| PDivide          (* cell_divider::run *)
| PFaceTypes       (* update_face_types of every cell *)
| PRefine          (* local_mesh_refiner::refine_meshes *)
| PContact         (* contact model *)
| PAutoPolarize    (* automatic polarizer (POLARIZATION_MODE_INDEX == 2 only) *)
| PPolarize        (* special_polarization_update(cell_lst_) of every cell *)
| PForces          (* apply_internal_forces: volume, target volume, pressure, forces *)
| PIntegrate       (* update_nodes_positions: one time step *)
| PStats           (* statistics record *)
| PRemove          (* erase the cells below their minimum volume *)
| PRenumber        (* local id := list position *)
| PCount.          (* iteration_++ *)

(* a phase, whether it is skipped on a temporary step of the integrator, and its period (0 = every iteration;
   n = only when iteration_ % n == 0) *)
Record phase_entry := mkpe { pe_phase : phase; pe_not_tmp : bool; pe_period : nat }.

Definition phase_eqb (a b : phase) : bool :=
  match a, b with
  | PSave, PSave | PDivide, PDivide | PFaceTypes, PFaceTypes | PRefine, PRefine | PContact, PContact
  | PAutoPolarize, PAutoPolarize | PPolarize, PPolarize | PForces, PForces | PIntegrate, PIntegrate
  | PStats, PStats | PRemove, PRemove | PRenumber, PRenumber | PCount, PCount => true
  | _, _ => false
  end.
Definition entry_eqb (a b : phase_entry) : bool :=
  phase_eqb (pe_phase a) (pe_phase b) && Bool.eqb (pe_not_tmp a) (pe_not_tmp b) && Nat.eqb (pe_period a) (pe_period b).
