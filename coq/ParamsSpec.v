(* ParamsSpec.v — vocabulary of the C18 statements: what a successful read must mean, and the documented wiring
   (doc/parameter_file_doc.md, the field comments of include/custom_structures.hpp and the reader's own messages)
   against which the table regenerated from parameter_reader.cpp is compared. *)
From Coq Require Import String List Bool ZArith.
From SC Require Import Params.
Import ListNotations.
Local Open Scope string_scope.

Section Spec.
  Context {T V : Type}.
  Variable stod : T -> option V.
  Variable stoi : T -> option Z.
  Variable is_inf : T -> bool.
  Variable lower : T -> T.
  Variable inf : V.
  Variable empty : T.
  Variable ltb0 leb0 : V -> bool.
  Variable ltb : V -> V -> bool.

  Notation xml := (@xml T).
  Notation value := (@value T V).
  Notation record := (@record T V).

  (* the record r (newest field first, as decode builds it) is what the table prescribes for the children ch:
     one (field, value) per entry, in table order, the value being the conversion of the text of the FIRST child
     element carrying the entry's tag; and no validation rule of the table is violated by r *)
  Definition reads (table : list entry) (ch : list xml) (r : record) : Prop :=
    Forall2 (fun e fv => fst fv = e_field e /\
                         exists x, first_child (e_tag e) ch = Some x /\
                                   convert stod stoi is_inf lower inf (e_conv e) (x_text empty x) = Some (snd fv))
            table (rev r) /\
    (forall e c, In e table -> In c (e_checks e) -> violated ltb0 leb0 ltb r c = Some false).
End Spec.

(* ---------------------------------------------------------------- the documented wiring *)
Definition wiring (e : entry) : string * string * conv := (e_tag e, e_field e, e_conv e).
Definition rules (e : entry) : string * list chk := (e_tag e, e_checks e).

Definition doc_num_wiring : list (string * string * conv) := [
  ("input_mesh_file_path", "input_mesh_path_", CString);
  ("output_mesh_folder_path", "output_folder_path_", CString);
  ("damping_coefficient", "damping_coefficient_", CDouble);
  ("perform_initial_triangulation", "perform_initial_triangulation_", CBool);
  ("simulation_duration", "simulation_duration_", CDouble);
  ("time_step", "time_step_", CDouble);
  ("sampling_period", "sampling_period_", CDouble);
  ("min_edge_length", "min_edge_len_", CDouble);
  ("contact_cutoff_adhesion", "contact_cutoff_adhesion_", CDouble);
  ("contact_cutoff_repulsion", "contact_cutoff_repulsion_", CDouble);
  ("enable_edge_swap_operation", "enable_edge_swap_operation_", CBool) ].

Definition doc_cell_wiring : list (string * string * conv) := [
  ("cell_type_name", "name_", CString);
  ("global_cell_id", "global_type_id_", CShort);
  ("cell_mass_density", "mass_density_", CDouble);
  ("cell_bulk_modulus", "bulk_modulus_", CDouble);
  ("max_inner_pressure", "max_pressure_", CInfDouble);           (* "Set to INF to have no pressure limit" *)
  ("area_elasticity_modulus", "area_elasticity_modulus_", CDouble);
  ("avg_division_volume", "avg_division_vol_", CInfDouble);      (* INF: the cell type never divides *)
  ("std_division_volume", "std_division_vol_", CDouble);
  ("avg_growth_rate", "avg_growth_rate_", CDouble);
  ("std_growth_rate", "std_growth_rate_", CDouble);
  ("target_isoperimetric_ratio", "target_isoperimetric_ratio_", CDouble);
  ("angle_regularization_factor", "angle_regularization_factor_", CDouble);
  ("min_vol", "min_vol_", CDouble);
  ("surface_coupling_max_curvature", "surface_coupling_max_curvature_", CDouble) ].

Definition doc_face_wiring : list (string * string * conv) := [
  ("face_type_name", "name_", CString);
  ("global_face_id", "face_type_global_id_", CShort);
  ("surface_tension", "surface_tension_", CDouble);
  ("adherence_strength", "adherence_strength_", CDouble);
  ("repulsion_strength", "repulsion_strength_", CDouble);
  ("bending_modulus", "bending_modulus_", CDouble) ].

(* the sign constraints, as the reader's messages state them (the strictness of each is the operator the reader
   uses; the documentation has no table of constraints): tag -> rules, every rule about the tag's own field *)
Definition doc_num_rules : list (string * list chk) := [
  ("input_mesh_file_path", []); ("output_mesh_folder_path", []);
  ("damping_coefficient", [ThrowIfNeg "damping_coefficient_"]);
  ("perform_initial_triangulation", []);
  ("simulation_duration", [ThrowIfNotPos "simulation_duration_"]);
  ("time_step", [ThrowIfNotPos "time_step_"]);
  ("sampling_period", [ThrowIfNotPos "sampling_period_"; ThrowIfLess "sampling_period_" "time_step_"]);
  ("min_edge_length", [ThrowIfNotPos "min_edge_len_"]);
  ("contact_cutoff_adhesion", [ThrowIfNotPos "contact_cutoff_adhesion_"]);
  ("contact_cutoff_repulsion", [ThrowIfNotPos "contact_cutoff_repulsion_"]);
  ("enable_edge_swap_operation", []) ].

Definition doc_cell_rules : list (string * list chk) := [
  ("cell_type_name", []); ("global_cell_id", []); ("cell_mass_density", []); ("cell_bulk_modulus", []);
  ("max_inner_pressure", []); ("area_elasticity_modulus", []); ("avg_division_volume", []); ("std_division_volume", []);
  ("avg_growth_rate", []); ("std_growth_rate", []);
  ("target_isoperimetric_ratio", [ThrowIfNotPos "target_isoperimetric_ratio_"]);
  ("angle_regularization_factor", []); ("min_vol", []);
  ("surface_coupling_max_curvature", [ThrowIfNeg "surface_coupling_max_curvature_"]) ].

Definition doc_face_rules : list (string * list chk) := [
  ("face_type_name", []);
  ("global_face_id", [ThrowIfNegI "face_type_global_id_"]);
  ("surface_tension", [ThrowIfNeg "surface_tension_"]);
  ("adherence_strength", [ThrowIfNeg "adherence_strength_"]);
  ("repulsion_strength", [ThrowIfNeg "repulsion_strength_"]);
  ("bending_modulus", [ThrowIfNeg "bending_modulus_"]) ].

(* decidable equality of the finite tables (so that the comparison is a computation) *)
Definition conv_eqb (a b : conv) : bool :=
  match a, b with
  | CString, CString | CDouble, CDouble | CInt, CInt | CShort, CShort | CBool, CBool | CInfDouble, CInfDouble | CInfDoubleCS, CInfDoubleCS => true
  | _, _ => false end.
Definition chk_eqb (a b : chk) : bool :=
  match a, b with
  | ThrowIfNeg f, ThrowIfNeg g | ThrowIfNotPos f, ThrowIfNotPos g | ThrowIfNegI f, ThrowIfNegI g => String.eqb f g
  | ThrowIfLess f f', ThrowIfLess g g' => String.eqb f g && String.eqb f' g'
  | _, _ => false end.
Fixpoint list_eqb {A} (eq : A -> A -> bool) (l m : list A) : bool :=
  match l, m with [] , [] => true | a :: l', b :: m' => eq a b && list_eqb eq l' m' | _, _ => false end.
Definition wiring_eqb (a b : string * string * conv) : bool :=
  let '(t, f, c) := a in let '(t', f', c') := b in String.eqb t t' && String.eqb f f' && conv_eqb c c'.
Definition rules_eqb (a b : string * list chk) : bool :=
  String.eqb (fst a) (fst b) && list_eqb chk_eqb (snd a) (snd b).
