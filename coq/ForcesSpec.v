(* ForcesSpec.v — vocabulary of the C02 statements: force lists, net force, net torque, fresh faces, coherent hinges *)
From Coq Require Import NArith ZArith Bool List Lia Reals.
From SC Require Import Num Vec3 VecR Mesh Geometry GeometrySpec Forces.
Import ListNotations.
Local Open Scope R_scope.

Notation ffaceR := (fface (T:=R)).
Definition LibmRF : Libm R := {|
  lcos := cos; lsin := sin; ltan := tan; lacos := acos; llog := ln; lexp := exp;
  lcbrt := fun x => Rpower x (/ 3); lpow := Rpower |}.

Definition zeroF (n : nat) : list vR := repeat (mkv 0 0 0) n.
Definition net_force (F : list vR) : vR := vsum F.
(* sum of x_i x F_i over the node slots *)
Definition net_torque (nodes F : list vR) : vR := vsum (map (fun xf => fst xf × snd xf) (combine nodes F)).

(* the cached normal and area of every face are those of the current positions (what apply_internal_forces
   guarantees by calling update_all_face_normals_and_areas first) *)
Definition fresh (nodes : list vR) (faces : list ffaceR) : Prop :=
  Forall (fun f => f = refresh NumR nodes (ff_tri f) (ff_type f)) faces.
Definition tris_of (faces : list ffaceR) : list tri := map (fun f => ff_tri f) faces.

(* a hinge is coherent with the faces: both faces exist, contain both end points of the edge, which are distinct *)
Definition tri_has (t : tri) (a : N) : Prop := let '(x, y, z) := t in a = x \/ a = y \/ a = z.
Definition hinge_ok (faces : list ffaceR) (h : hinge) : Prop :=
  (h_f1 h < length faces)%nat /\ (h_f2 h < length faces)%nat /\ h_n1 h <> h_n2 h /\
  tri_has (ff_tri (nth (h_f1 h) faces (dface NumR))) (h_n1 h) /\ tri_has (ff_tri (nth (h_f1 h) faces (dface NumR))) (h_n2 h) /\
  tri_has (ff_tri (nth (h_f2 h) faces (dface NumR))) (h_n1 h) /\ tri_has (ff_tri (nth (h_f2 h) faces (dface NumR))) (h_n2 h) /\
  tri_distinct (ff_tri (nth (h_f1 h) faces (dface NumR))) /\ tri_distinct (ff_tri (nth (h_f2 h) faces (dface NumR))).

(* node list with node i displaced by d *)
Fixpoint displace (nodes : list vR) (i : nat) (d : vR) : list vR :=
  match nodes, i with
  | [], _ => []
  | x :: r, O => (x +v d) :: r
  | x :: r, S k => x :: displace r k d
  end.
