(* Properties_Mesh.v — shared facts about Mesh.v used by C01, C02, C09, C12, C13.
   Only statements; every proof is `exact <lemma of MeshProofs.v>`. *)
From Coq Require Import NArith ZArith Bool List Lia Reals Permutation.
From SC Require Import Num Vec3 VecR Mesh MeshProofs.
Import ListNotations.
Local Open Scope R_scope.

(* the boolean oracle run on implementation dumps decides the operational definition *)
Theorem valid_b_spec : forall s : list tri, valid_surface_b s = true <-> ValidSurface s.
Proof. exact valid_surface_b_spec. Qed.
Print Assumptions valid_b_spec.

(* on a closed consistently oriented surface the half-edges are a permutation of their reversals *)
Theorem closed_hedges_perm : forall s : list tri, ValidSurface s ->
  Permutation (all_hedges s) (map hswap (all_hedges s)).
Proof. exact hedges_perm_swap. Qed.
Print Assumptions closed_hedges_perm.

(* hence every antisymmetric quantity summed over the half-edges vanishes (real- and vector-valued) *)
Theorem antisym_sum_zero : forall (s : list tri) (g : N -> N -> R), ValidSurface s ->
  (forall a b, g a b = (- g b a)%R) ->
  fold_right (fun e acc => (g (fst e) (snd e) + acc)%R) 0%R (all_hedges s) = 0%R.
Proof. exact antisym_sum_zero_R. Qed.
Print Assumptions antisym_sum_zero.

Theorem antisym_vsum_zero : forall (s : list tri) (g : N -> N -> vR), ValidSurface s ->
  (forall a b, g a b = mkv 0 0 0 -v g b a) ->
  fold_right (fun e acc => g (fst e) (snd e) +v acc) (mkv 0 0 0) (all_hedges s) = mkv 0 0 0.
Proof. exact antisym_sum_zero_V. Qed.
Print Assumptions antisym_vsum_zero.

(* non-vacuity: the tetrahedron is a ValidSurface *)
Example tetra_valid : ValidSurface [(0,1,2); (0,3,1); (0,2,3); (1,3,2)]%N.
Proof. exact tetra_is_valid. Qed.
