(* Properties_C08.v — property C08: cell identities and cross-references stay valid as the population changes.
   Only statements; every proof is `exact <lemma of PopulationProofs.v>`.  Model: Population.v. *)
From Coq Require Import NArith Arith Bool List Lia.
From SC Require Import Population PopulationSpec PopulationProofs.
Import ListNotations.
Local Open Scope N_scope.

Theorem popinv_b_spec : forall p, popinv_b p = true <-> PopInv p.
Proof. exact popinv_b_correct. Qed.
Print Assumptions popinv_b_spec.

Theorem popinv_init : forall n, PopInv (init_pop n).
Proof. exact init_inv. Qed.
Print Assumptions popinv_init.

Theorem popinv_step : forall p e, PopInv p -> event_ok p e -> PopInv (pstep p e).
Proof. exact step_inv. Qed.
Print Assumptions popinv_step.

(* across any history of divisions and removals, in any order and at any list position *)
Theorem popinv_history : forall es p, PopInv p -> events_ok es p -> PopInv (run es p).
Proof. exact run_inv. Qed.
Print Assumptions popinv_history.

(* ids are never reused: whatever is in the population later was there before or is at least the old counter;
   hence a removed (or divided) cell's id never reappears *)
Theorem ids_never_reused : forall es p i, PopInv p -> events_ok es p ->
  In i (ids (run es p)) -> In i (ids p) \/ p_counter p <= i.
Proof. exact run_ids. Qed.
Print Assumptions ids_never_reused.

Theorem removed_never_reappears : forall es1 es2 p i, PopInv p -> events_ok (es1 ++ es2) p ->
  In i (ids p) -> ~ In i (ids (run es1 p)) -> ~ In i (ids (run (es1 ++ es2) p)).
Proof. exact gone_forever. Qed.
Print Assumptions removed_never_reappears.

(* a reference to a cell, stored as its list index and dereferenced later (no event in between), designates that cell *)
Theorem stored_reference_designates_cell : forall p j r, PopInv p ->
  store_ref p j = Some r -> deref p r = nth_error (p_cells p) j.
Proof. exact deref_store. Qed.
Print Assumptions stored_reference_designates_cell.

(* one successful division: the mother's id disappears, exactly two fresh ids (counter, counter+1) are appended in
   that order, every other cell keeps its id and its relative order, the counter advances by two *)
Theorem divide_bookkeeping : forall p m c, PopInv p -> nth_error (p_cells p) m = Some c ->
  ids (divide [m] p) = filter (fun i => negb (i =? p_id c)) (ids p) ++ [p_counter p; N.succ (p_counter p)] /\
  p_counter (divide [m] p) = N.succ (N.succ (p_counter p)).
Proof. exact divide_one. Qed.
Print Assumptions divide_bookkeeping.

(* a failed division (no mother in the list) leaves the population unchanged *)
Theorem failed_division_changes_nothing : forall p, divide [] p = p.
Proof. exact divide_none. Qed.
Print Assumptions failed_division_changes_nothing.

Example popinv_witness : PopInv (run [EvDivide [1%nat]; EvRemove [0]] (init_pop 3)).
Proof. apply popinv_b_spec. vm_compute. reflexivity. Qed.

(* ------------------------------------------------------------------------------------------------------------------
   "At every point where the simulation uses them": the composition of the phases of one iteration (Iteration.v), in the
   order READ FROM src/solver.cpp on this run (Iteration_gen.v). *)
From SC Require Import IterationDefs Iteration_gen Iteration IterationProofs.
Local Open Scope nat_scope.

(* the order of the phases in the source is the documented one (divider before the phases that use list indices, the
   statistics before the removal, the renumbering right after the erase, ...) *)
Theorem phase_order_is_documented :
  (iteration_translation_ok && entries_eqb run_iteration_phases documented_order && run_loop_final_statistics)%bool = true.
Proof. vm_compute. reflexivity. Qed.
Print Assumptions phase_order_is_documented.

(* the population after one iteration is the bookkeeping of Population.v: the divisions (when the divider runs), then the
   removals *)
Theorem iteration_is_divide_then_remove : forall (inp : inputs) (s : istate),
  i_pop (run_iteration documented_order inp s) = remove (in_below inp) (mid_pop inp s).
Proof. exact iteration_population. Qed.
Print Assumptions iteration_is_divide_then_remove.

(* across any number of iterations, with any history of divisions and removals: the invariant holds between iterations, and
   EVERY phase that dereferences stored list indices (contact, polarization update, time integration) ran on a population
   whose list indices were the positions *)
Theorem list_indices_are_positions_wherever_they_are_used : forall (inps : list inputs) (s : istate),
  PopInv (i_pop s) -> uses_ok (i_log s) = true -> inputs_all_ok inps s ->
  PopInv (i_pop (run_iterations documented_order inps s)) /\ uses_ok (i_log (run_iterations documented_order inps s)) = true.
Proof. exact uses_see_positions. Qed.
Print Assumptions list_indices_are_positions_wherever_they_are_used.

(* the order matters (the obligation above is not decorative): with the statistics after the removal the record differs *)
Theorem another_order_gives_another_record :
  i_log (run_iteration stats_after_removal (mkin [] [1%N] false) (init_state 3)) <>
  i_log (run_iteration documented_order (mkin [] [1%N] false) (init_state 3)).
Proof. exact order_matters. Qed.

(* A FACT READ FROM THE SOURCE ON EVERY RUN (Facts_gen.v, harness/translate_facts.py): every write of a face-type index in the cell
   types is the constant 0 or goes through the clamp `min(id, number of face types - 1)` of set_face_type — the premise under which
   a face-type index always designates an entry of the (non-empty) table of its cell type. *)
From SC Require Facts_gen.
Theorem face_type_writes_are_zero_or_clamped : Facts_gen.facts_translation_ok = true /\ Facts_gen.raw_face_type_writes = nil.
Proof. split; reflexivity. Qed.
Print Assumptions face_type_writes_are_zero_or_clamped.
