(* ParamsProofs.v — proofs of the generic C18 statements (Properties_C18.v) about the interpreter of Params.v:
   decode is exactly `reads` on a well-formed table, it is insensitive to the order of uniquely tagged children,
   it rejects a missing tag / an unconvertible text, INF maps to infinity, cell and face types come in document order. *)
From Coq Require Import String List Bool ZArith Permutation.
From SC Require Import Params ParamsSpec.
Import ListNotations.
Local Open Scope string_scope.
Local Open Scope list_scope.

(* ---------------------------------------------------------------- reflection of the boolean table facts *)
Lemma str_in_In : forall s l, str_in s l = true <-> In s l.
Proof.
  intros s l; induction l as [|x l IH]; simpl.
  - split; [discriminate | tauto].
  - rewrite orb_true_iff, String.eqb_eq, IH. tauto.
Qed.

Lemma str_nodup_NoDup : forall l, str_nodup l = true -> NoDup l.
Proof.
  induction l as [|x l IH]; simpl; intros H.
  - constructor.
  - apply andb_true_iff in H. destruct H as [H1 H2]. constructor.
    + intro Hin. apply str_in_In in Hin. rewrite Hin in H1. discriminate.
    + apply IH; exact H2.
Qed.

Lemma field_conv_In : forall f t k, field_conv f t = Some k -> In f (map e_field t).
Proof.
  intros f t k; induction t as [|e t IH]; simpl; intros H.
  - discriminate.
  - destruct (String.eqb (e_field e) f) eqn:E.
    + left. apply String.eqb_eq; exact E.
    + right; apply IH; exact H.
Qed.

Lemma chk_typed_fields : forall seen c f,
  chk_typed seen c = true -> In f (chk_fields c) -> In f (map e_field seen).
Proof.
  intros seen c f Ht Hin. destruct c as [g|g|g|g h]; simpl in Ht, Hin.
  - destruct Hin as [<-|[]]. destruct (field_conv g seen) as [k|] eqn:E; [|discriminate].
    eapply field_conv_In; exact E.
  - destruct Hin as [<-|[]]. destruct (field_conv g seen) as [k|] eqn:E; [|discriminate].
    eapply field_conv_In; exact E.
  - destruct Hin as [<-|[]]. destruct (field_conv g seen) as [k|] eqn:E; [|discriminate].
    eapply field_conv_In; exact E.
  - destruct (field_conv g seen) as [k|] eqn:E1; [|discriminate].
    destruct (field_conv h seen) as [k'|] eqn:E2; [|discriminate].
    destruct Hin as [<-|[<-|[]]]; eapply field_conv_In; eassumption.
Qed.

(* ---------------------------------------------------------------- list helpers *)
Lemma Forall2_nil_inv_l : forall A B (P : A -> B -> Prop) l, Forall2 P [] l -> l = [].
Proof. intros A B P l H; inversion H; reflexivity. Qed.

Lemma Forall2_cons_inv_l : forall A B (P : A -> B -> Prop) a t l,
  Forall2 P (a :: t) l -> exists b l', l = b :: l' /\ P a b /\ Forall2 P t l'.
Proof. intros A B P a t l H; inversion H; subst; eauto. Qed.

Lemma Forall2_weaken : forall A B (P Q : A -> B -> Prop),
  (forall a b, P a b -> Q a b) -> forall l m, Forall2 P l m -> Forall2 Q l m.
Proof. intros A B P Q HPQ l m H; induction H as [|a b l m Hab _ IH]; constructor; auto. Qed.

Lemma map_pres_Forall2 : forall A B (f : A -> pres B) l bs,
  map_pres f l = POk bs -> Forall2 (fun a b => f a = POk b) l bs.
Proof.
  intros A B f l; induction l as [|a l IH]; simpl; intros bs H.
  - injection H as <-. constructor.
  - destruct (f a) as [b|err] eqn:E; [|discriminate].
    destruct (map_pres f l) as [bs'|err] eqn:E2; [|discriminate].
    injection H as <-. constructor; [exact E | apply IH; reflexivity].
Qed.

Section Proofs.
  Context {T V : Type}.
  Variable stod : T -> option V.
  Variable stoi : T -> option Z.
  Variable is_inf : T -> bool.
  Variable lower : T -> T.
  Variable inf : V.
  Variable empty : T.
  Variable ltb0 leb0 : V -> bool.
  Variable ltb : V -> V -> bool.

  Notation xml := (@xml T).
  Notation value := (@value T V).
  Notation record := (@record T V).
  Notation decode := (decode stod stoi is_inf lower inf empty ltb0 leb0 ltb).
  Notation convert := (convert stod stoi is_inf lower inf).
  Notation violated := (violated ltb0 leb0 ltb).
  Notation run_checks := (run_checks ltb0 leb0 ltb).

  (* ---- records *)
  Lemma get_app_notin : forall f (n r : record), ~ In f (map fst n) -> get f (n ++ r) = get f r.
  Proof.
    intros f n r; induction n as [|[g v] n IH]; simpl; intros H.
    - reflexivity.
    - destruct (String.eqb g f) eqn:E.
      + apply String.eqb_eq in E. exfalso; apply H; left; exact E.
      + apply IH. intro Hin; apply H; right; exact Hin.
  Qed.

  Lemma violated_app : forall c (n r : record),
    (forall f, In f (chk_fields c) -> ~ In f (map fst n)) ->
    violated (n ++ r) c = violated r c.
  Proof.
    intros c n r H. destruct c as [g|g|g|g h]; simpl in H |- *.
    - rewrite get_app_notin by (apply H; left; reflexivity). reflexivity.
    - rewrite get_app_notin by (apply H; left; reflexivity). reflexivity.
    - rewrite get_app_notin by (apply H; left; reflexivity). reflexivity.
    - rewrite (get_app_notin g) by (apply H; left; reflexivity).
      rewrite (get_app_notin h) by (apply H; right; left; reflexivity). reflexivity.
  Qed.

  Lemma run_checks_false : forall (r : record) cs,
    run_checks r cs = Some false <-> (forall c, In c cs -> violated r c = Some false).
  Proof.
    intros r cs; induction cs as [|a cs IH]; simpl.
    - split; [intros _ c [] | reflexivity].
    - destruct (violated r a) as [[|]|] eqn:E.
      + split; [discriminate|]. intros H. specialize (H a (or_introl eq_refl)). rewrite E in H. discriminate.
      + rewrite IH. split.
        * intros H c [<-|Hin]; [exact E | apply H; exact Hin].
        * intros H c Hin; apply H; right; exact Hin.
      + split; [discriminate|]. intros H. specialize (H a (or_introl eq_refl)). rewrite E in H. discriminate.
  Qed.

  (* ---- what one entry prescribes for one (field, value) *)
  Definition Pent (ch : list xml) (e : entry) (fv : string * value) : Prop :=
    fst fv = e_field e /\
    exists x, first_child (e_tag e) ch = Some x /\ convert (e_conv e) (x_text empty x) = Some (snd fv).

  Lemma Forall2_fields : forall ch t (l : record), Forall2 (Pent ch) t l -> map fst l = map e_field t.
  Proof.
    intros ch t l H; induction H as [|e fv t l HP _ IH]; simpl.
    - reflexivity.
    - destruct HP as [Hf _]. rewrite Hf, IH. reflexivity.
  Qed.

  Lemma fields_sub : forall ch t (n : record),
    Forall2 (Pent ch) t (rev n) -> forall g, In g (map fst n) -> In g (map e_field t).
  Proof.
    intros ch t n HF g Hg. apply Forall2_fields in HF. rewrite <- HF, map_rev.
    apply -> in_rev. exact Hg.
  Qed.

  (* ---- the main invariant: any accumulator r0, the table split as (rev seen) ++ rest *)
  Lemma decode_gen : forall ch rest seen (r0 r : record),
    NoDup (map e_field rest) ->
    (forall f, In f (map e_field seen) -> ~ In f (map e_field rest)) ->
    checks_wf seen rest = true ->
    (decode rest ch r0 = POk r <->
     exists n, r = n ++ r0 /\ Forall2 (Pent ch) rest (rev n) /\
               (forall e c, In e rest -> In c (e_checks e) -> violated r c = Some false)).
  Proof.
    intros ch rest; induction rest as [|e rest IH]; intros seen r0 r Hnd Hdisj Hwf.
    - simpl. split.
      + intros H; injection H as <-. exists []. split; [reflexivity|]. split; [constructor|].
        intros e c [].
      + intros (n & -> & HF & _). apply Forall2_nil_inv_l in HF.
        apply (f_equal (@rev _)) in HF. rewrite rev_involutive in HF. simpl in HF. subst n. reflexivity.
    - simpl in Hwf. apply andb_true_iff in Hwf. destruct Hwf as [Hc Hwf].
      rewrite forallb_forall in Hc.
      simpl in Hnd. apply NoDup_cons_iff in Hnd. destruct Hnd as [Hnotin Hnd'].
      assert (Hdisj' : forall f, In f (map e_field (e :: seen)) -> ~ In f (map e_field rest)).
      { simpl. intros f [<-|Hin]; [exact Hnotin|]. intro Hr. apply (Hdisj f Hin). simpl; right; exact Hr. }
      assert (Hfresh : forall c (n r1 : record), In c (e_checks e) ->
                (forall g, In g (map fst n) -> In g (map e_field rest)) ->
                violated (n ++ r1) c = violated r1 c).
      { intros c n r1 Hc' Hsub. apply violated_app. intros f Hf Hin. apply Hsub in Hin.
        pose proof (chk_typed_fields _ _ _ (Hc c Hc') Hf) as Hin2.
        exact (Hdisj' f Hin2 Hin). }
      split.
      + intros H. simpl in H.
        destruct (first_child (e_tag e) ch) as [x|] eqn:Hfc; [|discriminate].
        destruct (convert (e_conv e) (x_text empty x)) as [v|] eqn:Hcv; [|discriminate].
        destruct (run_checks ((e_field e, v) :: r0) (e_checks e)) as [[|]|] eqn:Hrc; try discriminate.
        apply (proj1 (IH (e :: seen) _ _ Hnd' Hdisj' Hwf)) in H.
        destruct H as (n & -> & HF & Hck).
        exists (n ++ [(e_field e, v)]). split; [rewrite <- app_assoc; reflexivity|]. split.
        * rewrite rev_unit. constructor; [|exact HF].
          split; [reflexivity|]. exists x. split; [exact Hfc | exact Hcv].
        * intros e' c [<-|Hin] Hc'.
          -- rewrite (Hfresh c n _ Hc' (fields_sub _ _ _ HF)).
             apply (proj1 (run_checks_false _ _) Hrc). exact Hc'.
          -- apply (Hck e' c Hin Hc').
      + intros (n & -> & HF & Hck).
        apply Forall2_cons_inv_l in HF. destruct HF as (fv & l & Hrev & HP & HF').
        apply (f_equal (@rev _)) in Hrev. rewrite rev_involutive in Hrev. simpl in Hrev. subst n.
        destruct fv as [g v]. destruct HP as (Hg & x & Hfc & Hcv). simpl in Hg, Hcv. subst g.
        assert (Hsub : forall g, In g (map fst (rev l)) -> In g (map e_field rest)).
        { apply (fields_sub ch). rewrite rev_involutive. exact HF'. }
        assert (Hrc : run_checks ((e_field e, v) :: r0) (e_checks e) = Some false).
        { apply run_checks_false. intros c Hc'. rewrite <- (Hfresh c (rev l) _ Hc' Hsub).
          specialize (Hck e c (or_introl eq_refl) Hc'). rewrite <- app_assoc in Hck. exact Hck. }
        simpl. rewrite Hfc, Hcv, Hrc.
        apply (proj2 (IH (e :: seen) _ _ Hnd' Hdisj' Hwf)).
        exists (rev l). split; [rewrite <- app_assoc; reflexivity|]. split.
        * rewrite rev_involutive. exact HF'.
        * intros e' c Hin Hc'. exact (Hck e' c (or_intror Hin) Hc').
  Qed.

  Lemma decode_iff_reads_sec : forall table ch (r : record),
    table_wf table = true ->
    (decode table ch [] = POk r <-> reads stod stoi is_inf lower inf empty ltb0 leb0 ltb table ch r).
  Proof.
    intros table ch r Hwf. unfold table_wf in Hwf.
    apply andb_true_iff in Hwf. destruct Hwf as [Hwf Hck].
    apply andb_true_iff in Hwf. destruct Hwf as [_ Hfields].
    apply str_nodup_NoDup in Hfields.
    assert (Hdisj : forall f, In f (map e_field (@nil entry)) -> ~ In f (map e_field table)).
    { intros f []. }
    rewrite (decode_gen ch table [] [] r Hfields Hdisj Hck).
    unfold reads. change (fun e fv => fst fv = e_field e /\
                         exists x, first_child (e_tag e) ch = Some x /\
                                   convert (e_conv e) (x_text empty x) = Some (snd fv)) with (Pent ch).
    split.
    - intros (n & -> & HF & Hc). rewrite app_nil_r. split; [exact HF|].
      rewrite app_nil_r in Hc. exact Hc.
    - intros [HF Hc]. exists r. rewrite app_nil_r. split; [reflexivity|]. split; assumption.
  Qed.

  (* ---- order of the children *)
  Lemma first_child_perm : forall tag (ch ch' : list xml),
    NoDup (map (@x_tag T) ch) -> Permutation ch ch' -> first_child tag ch' = first_child tag ch.
  Proof.
    intros tag ch ch' Hnd Hp. induction Hp as [|x l l' Hp IH|x y l|l l' l'' Hp1 IH1 Hp2 IH2].
    - reflexivity.
    - simpl. destruct (String.eqb (x_tag x) tag); [reflexivity|].
      apply IH. simpl in Hnd. apply NoDup_cons_iff in Hnd. destruct Hnd as [_ Hnd]. exact Hnd.
    - simpl. destruct (String.eqb (x_tag x) tag) eqn:Ex; destruct (String.eqb (x_tag y) tag) eqn:Ey; try reflexivity.
      exfalso. apply String.eqb_eq in Ex. apply String.eqb_eq in Ey.
      simpl in Hnd. apply NoDup_cons_iff in Hnd. destruct Hnd as [Hn _]. apply Hn. left. congruence.
    - rewrite IH2, IH1; [reflexivity | exact Hnd |].
      eapply Permutation_NoDup; [apply Permutation_map; exact Hp1 | exact Hnd].
  Qed.

  Lemma decode_perm_sec : forall table (ch ch' : list xml) (r0 : record),
    NoDup (map (@x_tag T) ch) -> Permutation ch ch' -> decode table ch' r0 = decode table ch r0.
  Proof.
    intros table ch ch' r0 Hnd Hp. revert r0. induction table as [|e t IH]; intros r0; simpl.
    - reflexivity.
    - rewrite (first_child_perm _ _ _ Hnd Hp).
      destruct (first_child (e_tag e) ch) as [x|]; [|reflexivity].
      destruct (convert (e_conv e) (x_text empty x)) as [v|]; [|reflexivity].
      destruct (run_checks ((e_field e, v) :: r0) (e_checks e)) as [[|]|]; try reflexivity.
      apply IH.
  Qed.

  (* ---- rejections *)
  Lemma decode_missing_sec : forall table (ch : list xml) (r0 : record) e,
    In e table -> first_child (e_tag e) ch = None -> exists err, decode table ch r0 = PErr err.
  Proof.
    intros table ch r0 e Hin Hfc. revert r0 Hin. induction table as [|a t IH]; intros r0 Hin.
    - destruct Hin.
    - destruct Hin as [->|Hin].
      + simpl. rewrite Hfc. eexists; reflexivity.
      + simpl.
        destruct (first_child (e_tag a) ch) as [x|]; [|eexists; reflexivity].
        destruct (convert (e_conv a) (x_text empty x)) as [v|]; [|eexists; reflexivity].
        destruct (run_checks ((e_field a, v) :: r0) (e_checks a)) as [[|]|]; try (eexists; reflexivity).
        apply IH; exact Hin.
  Qed.

  Lemma decode_unconvertible_sec : forall table (ch : list xml) (r0 : record) e x,
    In e table -> first_child (e_tag e) ch = Some x -> convert (e_conv e) (x_text empty x) = None ->
    exists err, decode table ch r0 = PErr err.
  Proof.
    intros table ch r0 e x Hin Hfc Hcv. revert r0 Hin. induction table as [|a t IH]; intros r0 Hin.
    - destruct Hin.
    - destruct Hin as [->|Hin].
      + simpl. rewrite Hfc, Hcv. eexists; reflexivity.
      + simpl.
        destruct (first_child (e_tag a) ch) as [y|]; [|eexists; reflexivity].
        destruct (convert (e_conv a) (x_text empty y)) as [v|]; [|eexists; reflexivity].
        destruct (run_checks ((e_field a, v) :: r0) (e_checks a)) as [[|]|]; try (eexists; reflexivity).
        apply IH; exact Hin.
  Qed.

  (* ---- cell types / face types *)
  Variable ctab ftab : list entry.
  Notation decode_cell_type := (decode_cell_type stod stoi is_inf lower inf empty ltb0 leb0 ltb ctab ftab).
  Notation decode_cell_types := (decode_cell_types stod stoi is_inf lower inf empty ltb0 leb0 ltb ctab ftab).

  Lemma decode_cell_type_ok : forall (x : xml) (rl : record * list record),
    decode_cell_type x = POk rl ->
    decode ctab (x_children x) [] = POk (fst rl) /\
    exists fts, first_child "face_types" (x_children x) = Some fts /\
      Forall2 (fun f fr => decode ftab (x_children f) [] = POk fr)
              (siblings "face_type" (x_children fts)) (snd rl).
  Proof.
    intros x rl H. unfold Params.decode_cell_type in H.
    destruct (decode ctab (x_children x) []) as [r|err] eqn:Hd; [|discriminate].
    destruct (first_child "face_types" (x_children x)) as [fts|] eqn:Hf; [|discriminate].
    destruct (siblings "face_type" (x_children fts)) as [|f0 fl] eqn:Hs; [discriminate|].
    destruct (map_pres (fun f => decode ftab (x_children f) []) (f0 :: fl)) as [frs|err] eqn:Hm; [|discriminate].
    injection H as <-. simpl. split; [reflexivity|].
    exists fts. split; [reflexivity|]. rewrite Hs.
    apply map_pres_Forall2 in Hm. exact Hm.
  Qed.

  Lemma cell_types_order_sec : forall (doc : list xml) l,
    decode_cell_types doc = POk l ->
    exists root, first_child "cell_types" doc = Some root /\
      Forall2 (fun x rl =>
                 decode ctab (x_children x) [] = POk (fst rl) /\
                 exists fts, first_child "face_types" (x_children x) = Some fts /\
                   Forall2 (fun f fr => decode ftab (x_children f) [] = POk fr)
                           (siblings "face_type" (x_children fts)) (snd rl))
              (siblings "cell_type" (x_children root)) l.
  Proof.
    intros doc l H. unfold Params.decode_cell_types in H.
    destruct (first_child "cell_types" doc) as [root|] eqn:Hr; [|discriminate].
    exists root. split; [reflexivity|].
    destruct (siblings "cell_type" (x_children root)) as [|c0 cl] eqn:Hs; [discriminate|].
    apply map_pres_Forall2 in H.
    eapply Forall2_weaken; [|exact H].
    intros a b Hab. apply decode_cell_type_ok. exact Hab.
  Qed.
End Proofs.

(* ---------------------------------------------------------------- the statements of Properties_C18.v *)
Lemma decode_iff_reads : forall (T V : Type) stod stoi is_inf lower (inf : V) (empty : T) ltb0 leb0 ltb table ch r,
  table_wf table = true ->
  (decode stod stoi is_inf lower inf empty ltb0 leb0 ltb table ch [] = POk r
   <-> reads stod stoi is_inf lower inf empty ltb0 leb0 ltb table ch r).
Proof. intros. apply decode_iff_reads_sec. assumption. Qed.

Lemma decode_perm : forall (T V : Type) stod stoi is_inf lower (inf : V) (empty : T) ltb0 leb0 ltb table ch ch' r0,
  str_nodup (map (@x_tag T) ch) = true -> Permutation ch ch' ->
  decode stod stoi is_inf lower inf empty ltb0 leb0 ltb table ch' r0 = decode stod stoi is_inf lower inf empty ltb0 leb0 ltb table ch r0.
Proof.
  intros T V stod stoi is_inf lower inf empty ltb0 leb0 ltb table ch ch' r0 Hnd Hp.
  apply decode_perm_sec; [apply str_nodup_NoDup; exact Hnd | exact Hp].
Qed.

Lemma decode_missing : forall (T V : Type) stod stoi is_inf lower (inf : V) (empty : T) ltb0 leb0 ltb table ch r0 e,
  In e table -> first_child (e_tag e) ch = None ->
  exists err, decode stod stoi is_inf lower inf empty ltb0 leb0 ltb table ch r0 = PErr err.
Proof. intros. eapply decode_missing_sec; eassumption. Qed.

Lemma decode_unconvertible : forall (T V : Type) stod stoi is_inf lower (inf : V) (empty : T) ltb0 leb0 ltb table ch r0 e x,
  In e table -> first_child (e_tag e) ch = Some x ->
  convert stod stoi is_inf lower inf (e_conv e) (x_text empty x) = None ->
  exists err, decode stod stoi is_inf lower inf empty ltb0 leb0 ltb table ch r0 = PErr err.
Proof. intros. eapply decode_unconvertible_sec; eassumption. Qed.

Lemma convert_inf : forall (T V : Type) stod stoi is_inf lower (inf : V) (t : T),
  is_inf (lower t) = true -> convert stod stoi is_inf lower inf CInfDouble t = Some (VD inf).
Proof. intros T V stod stoi is_inf lower inf t H. simpl. rewrite H. reflexivity. Qed.

Lemma cell_types_order :
  forall (T V : Type) stod stoi is_inf lower (inf : V) (empty : T) ltb0 leb0 ltb ctab ftab doc l,
  decode_cell_types stod stoi is_inf lower inf empty ltb0 leb0 ltb ctab ftab doc = POk l ->
  exists root, first_child "cell_types" doc = Some root /\
    Forall2 (fun x rl =>
               decode stod stoi is_inf lower inf empty ltb0 leb0 ltb ctab (x_children x) [] = POk (fst rl) /\
               exists fts, first_child "face_types" (x_children x) = Some fts /\
                 Forall2 (fun f fr => decode stod stoi is_inf lower inf empty ltb0 leb0 ltb ftab (x_children f) [] = POk fr)
                         (siblings "face_type" (x_children fts)) (snd rl))
          (siblings "cell_type" (x_children root)) l.
Proof. intros. apply cell_types_order_sec. assumption. Qed.
