(* Geometry.v — the geometric queries of cell.cpp over any Num: face normal/area, enclosed volume, area,
   centroid, bounding box, and the orientation repair of initialize_cell_properties (flood fill over
   shared edges + sign of the signed volume), in the operation order of the code. *)
From Coq Require Import NArith ZArith Bool List.
From SC Require Import Num Vec3 Mesh.
Import ListNotations.

Section Geometry.
  Context {T : Type} (Nm : Num T).
  Notation "x + y" := (nadd Nm x y).
  Notation "x - y" := (nsub Nm x y).
  Notation "x * y" := (nmul Nm x y).
  Notation "x / y" := (ndiv Nm x y).
  Notation vec := (vec3 T).

  Definition pos_of (nodes : list vec) (i : N) : vec := nth (N.to_nat i) nodes (vzero Nm).
  Definition tri_pos (nodes : list vec) (t : tri) : vec * vec * vec :=
    let '(a, b, c) := t in (pos_of nodes a, pos_of nodes b, pos_of nodes c).

  Definition half : T := ndiv Nm (none_ Nm) (nofZ Nm 2).

  (* update_face_normal_and_area: n = (p2-p1) x (p3-p1); area = 0.5*|n|; normal = n/|n| (0 if |n| = 0) *)
  Definition face_normal_raw (p : vec * vec * vec) : vec :=
    let '(p1, p2, p3) := p in vcross Nm (vsub Nm p2 p1) (vsub Nm p3 p1).
  Definition face_area (p : vec * vec * vec) : T := half * vnorm Nm (face_normal_raw p).
  Definition face_normal (p : vec * vec * vec) : vec :=
    let n := face_normal_raw p in let l := vnorm Nm n in
    if neqb Nm l (nzero Nm) then vzero Nm else vdivs Nm n l.

  (* compute_volume: vol += -x3*y2*z1 + x2*y3*z1 + x3*y1*z2 - x1*y3*z2 - x2*y1*z3 + x1*y2*z3 ; vol /= 6 ; abs *)
  Definition vol_term (p : vec * vec * vec) : T :=
    let '(p1, p2, p3) := p in
    let x1 := vx p1 in let y1 := vy p1 in let z1 := vz p1 in
    let x2 := vx p2 in let y2 := vy p2 in let z2 := vz p2 in
    let x3 := vx p3 in let y3 := vy p3 in let z3 := vz p3 in
    (((((nneg Nm x3) * y2 * z1 + x2 * y3 * z1) + x3 * y1 * z2) - x1 * y3 * z2) - x2 * y1 * z3) + x1 * y2 * z3.
  Definition six_signed_volume (tris : list (vec * vec * vec)) : T :=
    fold_left (fun v p => v + vol_term p) tris (nzero Nm).
  Definition compute_volume (tris : list (vec * vec * vec)) : T :=
    nabs Nm (six_signed_volume tris / nofZ Nm 6).

  (* compute_area: sum of the face areas in slot order *)
  Definition compute_area (tris : list (vec * vec * vec)) : T :=
    fold_left (fun s p => s + face_area p) tris (nzero Nm).

  (* compute_centroid: sum of ((p1+p2+p3)/3) * area, divided by the total area *)
  Definition face_centroid (p : vec * vec * vec) : vec :=
    let '(p1, p2, p3) := p in vdivs Nm (vadd Nm (vadd Nm p1 p2) p3) (nofZ Nm 3).
  Definition compute_centroid (tris : list (vec * vec * vec)) (total_area : T) : vec :=
    vdivs Nm (fold_left (fun c p => vadd Nm c (vscale Nm (face_centroid p) (face_area p))) tris (vzero Nm)) total_area.

  (* get_aabb over the live nodes: (min corner, max corner); None for no live node (the code returns +-inf) *)
  Definition aabb (pts : list vec) : option (vec * vec) :=
    match pts with
    | [] => None
    | p :: r =>
        Some (fold_left (fun (b : vec * vec) q =>
                let '(lo, hi) := b in
                (mkv (if nltb Nm (vx q) (vx lo) then vx q else vx lo)
                     (if nltb Nm (vy q) (vy lo) then vy q else vy lo)
                     (if nltb Nm (vz q) (vz lo) then vz q else vz lo),
                 mkv (if nltb Nm (vx hi) (vx q) then vx q else vx hi)
                     (if nltb Nm (vy hi) (vy q) then vy q else vy hi)
                     (if nltb Nm (vz hi) (vz q) then vz q else vz hi))) r (p, p))
    end.

  (* ---------------------------------------------------------------- orientation repair *)
  (* signed volume as written in check_face_normal_orientation *)
  Definition orient_term (p : vec * vec * vec) : T :=
    let '(n1, n2, n3) := p in
    (((((vx n1 * vy n2 * vz n3 - vx n1 * vy n3 * vz n2) - vx n2 * vy n1 * vz n3) + vx n2 * vy n3 * vz n1)
       + vx n3 * vy n1 * vz n2) - vx n3 * vy n2 * vz n1).
  Definition orient_signed (tris : list (vec * vec * vec)) : T :=
    fold_left (fun v p => v + orient_term p) tris (nzero Nm).
End Geometry.

(* ------------------------------------------------------------------ combinatorial part of the repair (no numbers) *)
Local Open Scope N_scope.

Definition has_uedge (t : tri) (a b : N) : bool :=
  let '(x, y, z) := t in
  let m u := (u =? a) || (u =? b) in
  negb (a =? b) && ((m x && m y) || (m y && m z) || (m z && m x)).

(* faces (by index) containing the undirected edge {a,b}, in increasing index order: [f1; f2] of the edge *)
Fixpoint faces_with_edge (faces : list tri) (idx : nat) (a b : N) : list nat :=
  match faces with
  | [] => []
  | t :: r => if has_uedge t a b then idx :: faces_with_edge r (S idx) a b else faces_with_edge r (S idx) a b
  end.

(* edge.f1() == id ? edge.f2() : edge.f1() ; None if the edge does not have two faces *)
Definition other_face (faces : list tri) (id : nat) (a b : N) : option nat :=
  match faces_with_edge faces 0 a b with
  | [f1; f2] => Some (if Nat.eqb f1 id then f2 else f1)
  | _ => None
  end.

(* check_face_winding_order(ref, f): returns f, with n1 and n3 swapped when the two common nodes appear in the
   same cyclic order in both faces *)
Definition common_local_ids (r f : tri) : list (nat * nat) :=
  let '(r1, r2, r3) := r in let '(c1, c2, c3) := f in
  (if r1 =? c1 then [(0, 0)%nat] else []) ++ (if r1 =? c2 then [(0, 1)%nat] else []) ++ (if r1 =? c3 then [(0, 2)%nat] else []) ++
  (if r2 =? c1 then [(1, 0)%nat] else []) ++ (if r2 =? c2 then [(1, 1)%nat] else []) ++ (if r2 =? c3 then [(1, 2)%nat] else []) ++
  (if r3 =? c1 then [(2, 0)%nat] else []) ++ (if r3 =? c2 then [(2, 1)%nat] else []) ++ (if r3 =? c3 then [(2, 2)%nat] else []).

Definition fix_winding (r f : tri) : option tri :=
  match common_local_ids r f with
  | (r0, c0) :: (r1, c1) :: _ =>
      let ro := Nat.eqb (Nat.modulo (r0 + 1) 3) r1 in
      let co := Nat.eqb (Nat.modulo (c0 + 1) 3) c1 in
      let '(a, b, c) := f in
      Some (if Bool.eqb ro co then (c, b, a) else f)
  | _ => None
  end.

Fixpoint set_nth_tri (l : list tri) (k : nat) (x : tri) : list tri :=
  match l, k with
  | [], _ => []
  | _ :: r, O => x :: r
  | y :: r, S k' => y :: set_nth_tri r k' x
  end.

Definition nbr3 (faces : list tri) (id : nat) : option (nat * nat * nat) :=
  match nth_error faces id with
  | Some (a, b, c) =>
      match other_face faces id a b, other_face faces id b c, other_face faces id c a with
      | Some f1, Some f2, Some f3 => Some (f1, f2, f3)
      | _, _, _ => None
      end
  | None => None
  end.

(* the while loop over the queue of (reference face, face to check); None = the code would hit an assert /
   missing edge (not a closed manifold) *)
Fixpoint orient_loop (fuel : nat) (faces : list tri) (checked : list nat) (queue : list (nat * nat)) : option (list tri) :=
  match fuel with
  | O => None
  | S k =>
      match queue with
      | [] => Some faces
      | (rid, cid) :: q =>
          if existsb (Nat.eqb cid) checked then orient_loop k faces checked q
          else
            match nth_error faces rid, nth_error faces cid with
            | Some rf, Some cf =>
                match fix_winding rf cf with
                | Some cf' =>
                    let faces' := set_nth_tri faces cid cf' in
                    let checked' := cid :: checked in
                    match nbr3 faces' cid with
                    | Some (f1, f2, f3) =>
                        let push f := if existsb (Nat.eqb f) checked' then [] else [(cid, f)] in
                        orient_loop k faces' checked' (q ++ push f1 ++ push f2 ++ push f3)
                    | None => None
                    end
                | None => None
                end
            | _, _ => None
            end
      end
  end.

Definition orient_consistently (faces : list tri) : option (list tri) :=
  match nbr3 faces 0 with
  | Some (f1, f2, f3) => orient_loop (4 * length faces + 4) faces [0%nat] [(0, f1); (0, f2); (0, f3)]%nat
  | None => None
  end.

Section Repair.
  Context {T : Type} (Nm : Num T).
  (* check_face_normal_orientation: consistent orientation, then flip everything (swap n2,n3) if the signed volume is negative *)
  Definition repair_orientation (nodes : list (vec3 T)) (faces : list tri) : option (list tri) :=
    match orient_consistently faces with
    | Some fs =>
        let sv := orient_signed Nm (map (tri_pos Nm nodes) fs) in
        Some (if nltb Nm sv (nzero Nm) then map (fun t : tri => let '(a, b, c) := t in (a, c, b)) fs else fs)
    | None => None
    end.
End Repair.
