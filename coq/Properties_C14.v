(* Properties_C14.v — property C14 (partial): results do not depend on where the tissue is placed.
   Only statements; every proof is `exact <lemma>`.  One equivariance theorem per phase model (over R: positions
   translate, everything else is equal), and the composition principle; the phases are NOT composed into one
   transcribed solver iteration (the loop of refine_mesh and the randomised division are not transcribed): see
   DESIGN.md.  Models: Integrator.v, Contact.v, MeshOps.v, Forces.v, Geometry.v, Kernel.v. *)
From Coq Require Import Reals Lra ZArith NArith Bool List.
From Flocq Require Import Core.Raux.
From SC Require Import Num Vec3 VecR Rot Kernel KernelProofs Mesh Geometry GeometrySpec GeometryProofs Forces ForcesSpec ForcesProofsA ForcesProofsB
                       Integrator Grid Contact MeshOps Translation TranslationProofs ContactProofsB.
Import ListNotations.
Local Open Scope R_scope.

(* ---- time integration: positions translate, momenta, forces, couplings and time are equal *)
Theorem integrator_translation_equivariant : forall (t : vR) contact over dt damping,
  equivariant (tr_istate t) (step NumR contact over dt damping).
Proof. exact integrator_equivariant. Qed.
Print Assumptions integrator_translation_equivariant.

Theorem integrator_n_steps_translation_equivariant : forall (t : vR) n contact over dt damping,
  equivariant (tr_istate t) (steps NumR n contact over dt damping).
Proof. exact integrator_steps_equivariant. Qed.
Print Assumptions integrator_n_steps_translation_equivariant.

(* ---- contact phase (default model): with the same rules applied to all pairs, and with the grid *)
Section ContactC14.
  Variables (eps dmax inf c45 c90 lmin cut_adh cut_rep : R).
  Hypothesis Hlmin : 0 < lmin. Hypothesis Hadh : 0 <= cut_adh. Hypothesis Hrep : 0 <= cut_rep.
  Notation all_pairsR := (all_pairs_phase NumR Zceil eps dmax inf c45 c90 lmin cut_adh cut_rep).
  Notation phaseR := (contact_phase NumR Zfloor Zceil eps dmax inf c45 c90 lmin cut_adh cut_rep).

  Theorem contact_all_pairs_translation_equivariant : forall t : vR, equivariant_opt (tr_cstate t) all_pairsR.
  Proof. exact (all_pairs_equivariant eps dmax inf c45 c90 lmin cut_adh cut_rep). Qed.

  (* the spatial grid is re-anchored every iteration and, by C06, does not influence the result: whenever both the
     run and the translated run index only existing voxels, the translated run gives the translated result *)
  Theorem contact_phase_translation_equivariant : forall (t : vR) st r s r' s',
    phaseR st = Some (r, s) -> phaseR (tr_cstate t st) = Some (r', s') -> r' = tr_cstate t r.
  Proof. exact (phase_equivariant eps dmax inf c45 c90 lmin cut_adh cut_rep Hlmin Hadh Hrep). Qed.
End ContactC14.
Print Assumptions contact_all_pairs_translation_equivariant.
Print Assumptions contact_phase_translation_equivariant.

(* ---- remeshing: the same trace of operations is admissible (same guards) and gives the translated mesh *)
Theorem remeshing_translation_equivariant : forall (t : vR) dynamic ops,
  equivariant_opt (tr_mstate t) (fun st => replay NumR dynamic st ops).
Proof. exact replay_equivariant. Qed.
Print Assumptions remeshing_translation_equivariant.

Theorem remeshing_decisions_translation_invariant : forall (t : vR) dynamic lmin2 lmax2 st ops,
  guards_ok NumR dynamic lmin2 lmax2 (tr_mstate t st) ops = guards_ok NumR dynamic lmin2 lmax2 st ops.
Proof. exact guards_invariant. Qed.
Print Assumptions remeshing_decisions_translation_invariant.

(* ---- the point-triangle kernel *)
Theorem kernel_translation_invariant : forall t p a b c : vR,
  kernel NumR (p +v t) (a +v t) (b +v t) (c +v t) = kernel NumR p a b c.
Proof. exact kernel_translate. Qed.
Print Assumptions kernel_translation_invariant.

(* ---- internal forces (C02) and the geometric queries that drive growth and pressure (C12): restated *)
Theorem internal_forces_translation_invariant :
  forall (pi eps dmin P ka iso V A kreg : R) (tensions bends : list R) (nodes : list vR) (tl : list (tri * nat)) (hinges : list hinge) (t : vR),
  ids_in_range nodes (map fst tl) ->
  List.Forall (fun h => (N.to_nat (h_n1 h) < length nodes)%nat /\ (N.to_nat (h_n2 h) < length nodes)%nat) hinges ->
  let nodes' := map (fun p => p +v t) nodes in
  let faces := map (fun x => refresh NumR nodes (fst x) (snd x)) tl in
  let faces' := map (fun x => refresh NumR nodes' (fst x) (snd x)) tl in
  let F0 := zeroF (length nodes) in
  apply_anglereg NumR LibmRF pi eps dmin nodes' kreg faces'
    (apply_bending NumR LibmRF pi nodes' bends faces' hinges
      (apply_tension NumR LibmRF nodes' tensions ka iso V A faces' (apply_pressure NumR P faces' F0))) =
  apply_anglereg NumR LibmRF pi eps dmin nodes kreg faces
    (apply_bending NumR LibmRF pi nodes bends faces hinges
      (apply_tension NumR LibmRF nodes tensions ka iso V A faces (apply_pressure NumR P faces F0))).
Proof. exact forces_translation_invariant. Qed.
Print Assumptions internal_forces_translation_invariant.

Theorem volume_translation_invariant : forall (nodes : list vR) (faces : list tri) (t : vR),
  ValidSurface faces -> ids_in_range nodes faces ->
  compute_volume NumR (map (tri_pos NumR (map (fun p => p +v t) nodes)) faces) =
  compute_volume NumR (map (tri_pos NumR nodes) faces).
Proof. exact volume_translate. Qed.
Print Assumptions volume_translation_invariant.

Theorem area_translation_invariant : forall (t : vR) (tris : list triR),
  compute_area NumR (map (tmap (fun p => p +v t)) tris) = compute_area NumR tris.
Proof. exact area_translate. Qed.
Print Assumptions area_translation_invariant.

(* ---- composition: phases that commute with the translation compose to an iteration that commutes with it, and so
   do any number of iterations *)
Theorem composition_equivariant : forall (S : Type) (sym : S -> S) (phases : list (S -> S)),
  Forall (equivariant sym) phases -> equivariant sym (fun s => fold_left (fun x f => f x) phases s).
Proof. exact compose_equivariant. Qed.
Print Assumptions composition_equivariant.

Theorem iterations_equivariant : forall (S : Type) (sym : S -> S) (iter : S -> S) (n : nat),
  equivariant sym iter -> equivariant sym (fun s => Nat.iter n iter s).
Proof. exact iterate_equivariant. Qed.
Print Assumptions iterations_equivariant.
