(* Properties_C01.v — property C01: cell surfaces stay closed, consistently oriented 2-manifolds under remeshing.
   Only statements; every proof is `exact <lemma of MeshOpsProofs.v>`.  Models: Mesh.v, MeshOps.v. *)
From Coq Require Import NArith ZArith Bool List Lia Reals.
From SC Require Import Num Vec3 VecR Mesh MeshProofs Geometry GeometrySpec MeshOps MeshOpsSpec MeshOpsProofs.
Import ListNotations.
Local Open Scope N_scope.

(* T1: the oracle run on every dump of the implementation decides the operational definition *)
Theorem valid_b_spec : forall s : list tri, valid_surface_b s = true <-> ValidSurface s.
Proof. exact valid_surface_b_spec. Qed.
Print Assumptions valid_b_spec.

(* T2: each operation preserves (the guard `apex s a b <> apex s b a` says that the two triangles on the edge have
   different opposite nodes: it excludes the two-triangle pillow and pinched configurations, which the operational
   definition admits because it has no vertex-manifoldness clause; without it the collapse theorem is false:
   see collapse_valid_false in MeshOpsProofs.v)
   each operation preserves "closed, consistently oriented, V-E+F=2, no repeated node" under its guard *)
Theorem split_preserves : forall (s : list ltri) (a b e : N),
  ValidSurface (tris s) -> In (a, b) (all_hedges (tris s)) -> ~ In e (all_nodes (tris s)) ->
  apex s a b <> apex s b a ->
  ValidSurface (tris (split s a b e)).
Proof. exact split_valid. Qed.
Print Assumptions split_preserves.

Theorem swap_preserves : forall (s s' : list ltri) (a b : N),
  ValidSurface (tris s) -> In (a, b) (all_hedges (tris s)) -> apex s a b <> apex s b a ->
  (forall c d, apex s a b = Some c -> apex s b a = Some d -> edge_exists s c d = false) ->
  swap s a b = Some s' -> ValidSurface (tris s').
Proof. exact swap_valid. Qed.
Print Assumptions swap_preserves.

Theorem collapse_preserves : forall (s : list ltri) (a b i : N),
  ValidSurface (tris s) -> In (a, b) (all_hedges (tris s)) -> ~ In i (all_nodes (tris s)) ->
  link_ok s a b = true -> apex s a b <> apex s b a ->
  ValidSurface (tris (collapse s a b i)).
Proof. exact collapse_valid. Qed.
Print Assumptions collapse_preserves.

Theorem compact_preserves : forall (sigma : N -> N) (s : list ltri),
  (forall x y, In x (all_nodes (tris s)) -> In y (all_nodes (tris s)) -> sigma x = sigma y -> x = y) ->
  ValidSurface (tris s) -> ValidSurface (tris (compact sigma s)).
Proof. exact compact_valid. Qed.
Print Assumptions compact_preserves.

(* T4 (trace form): any well-formed sequence of operations, for ANY node positions and momenta (they only select
   which operations fire), keeps the surface valid *)
Theorem replay_preserves : forall (dynamic : bool) (ops : list op) (st st' : mstateR),
  ValidSurface (tris (ms_faces st)) -> trace_wf dynamic st ops ->
  replay NumR dynamic st ops = Some st' -> ValidSurface (tris (ms_faces st')).
Proof. exact replay_valid. Qed.
Print Assumptions replay_preserves.

(* orientation: an edge split does not change the signed volume at all (the new node is the midpoint) *)
Theorem split_keeps_signed_volume : forall (st st' : mstateR) (a b e : N) (dynamic : bool),
  nodes_match st -> op_wf st (OpSplit a b e) -> apply_op NumR dynamic st (OpSplit a b e) = Some st' ->
  six_signed_volume NumR (map (positions (ms_nodes st')) (tris (ms_faces st'))) =
  six_signed_volume NumR (map (positions (ms_nodes st)) (tris (ms_faces st))).
Proof. exact split_volume. Qed.
Print Assumptions split_keeps_signed_volume.

(* non-vacuity: the octahedron is valid and one of its edges can be split *)
Example octa_split :
  let s := [((0,2,4),0%nat); ((2,1,4),0%nat); ((1,3,4),0%nat); ((3,0,4),0%nat);
            ((2,0,5),0%nat); ((1,2,5),0%nat); ((3,1,5),0%nat); ((0,3,5),0%nat)] in
  valid_surface_b (tris s) = true /\ valid_surface_b (tris (split s 0 2 6)) = true.
Proof. vm_compute. split; reflexivity. Qed.
