From Coq Require Import ZArith.
Theorem placeholder : True. Proof. exact I. Qed.
