(* MeshOpsProofs.v — proofs of the C01 facts about MeshOps.v stated in Properties_C01.v.
   Strategy: ValidSurface s only depends on the list of half-edges of s up to permutation (HValid); every
   remeshing operation is described by what it does to that list:
     split    : H = D ++ K ++ R  |->  E8 ++ K ++ R      (D = the two half-edges of the edge, E8 = the 8 new ones)
     swap     : H = D ++ K ++ R  |->  [(c,d);(d,c)] ++ K ++ R
     collapse : H = D ++ K ++ R  |->  map (rename a,b -> i) R
     compact  : H                |->  map (rename sigma) H                                                     *)
From Coq Require Import NArith ZArith Bool List Lia Reals Lra Permutation.
From SC Require Import Num Vec3 VecR Mesh MeshProofs Geometry GeometrySpec GeometryProofs MeshOps MeshOpsSpec.
Import ListNotations.
Local Open Scope N_scope.

(* ------------------------------------------------------------------ tactics *)
(* rewrite every N.eqb whose outcome is known from the context *)
Ltac eqb_simp :=
  repeat match goal with
         | |- context [?u =? ?u] => rewrite (N.eqb_refl u)
         | H : ?u <> ?v |- context [?u =? ?v] => rewrite (proj2 (N.eqb_neq u v) H)
         | H : ?u <> ?v |- context [?v =? ?u] => rewrite (proj2 (N.eqb_neq v u) (not_eq_sym H))
         end;
  cbn [negb andb orb].

(* membership in an explicit list (possibly with an opaque tail found among the hypotheses) *)
Ltac in_explicit := cbn [In app]; solve [repeat (first [left; reflexivity | right]); assumption].

(* Permutation of two explicit lists with the same opaque tail *)
Ltac find_split x r pre k :=
  lazymatch r with
  | x :: ?post => k pre post
  | ?y :: ?post => find_split x post (pre ++ [y]) k
  end.
Ltac perm_solve :=
  cbn [app];
  lazymatch goal with
  | |- Permutation ?l ?l => apply Permutation_refl
  | |- Permutation (?x :: ?l) ?r =>
      find_split x r (@nil hedge) ltac:(fun pre post =>
        let pre' := eval cbn [app] in pre in
        apply (@Permutation_cons_app _ l pre' post x));
      perm_solve
  end.

(* NoDup of an explicit list of half-edges, from the disequalities in the context *)
Ltac nodup_explicit :=
  repeat (apply NoDup_cons;
          [ cbn [In]; let HH := fresh "HH" in intros HH;
            repeat (destruct HH as [HH|HH]; [congruence|]); exact HH | ]);
  apply NoDup_nil.

(* ------------------------------------------------------------------ lists *)
Lemma memN_In (x : N) (l : list N) : memN x l = true <-> In x l.
Proof. unfold memN. apply existsb_eqb_In. exact N.eqb_eq. Qed.

Lemma memN_false (x : N) (l : list N) : memN x l = false <-> ~ In x l.
Proof. rewrite <- memN_In. destruct (memN x l); intuition congruence. Qed.

Lemma dedupN_In (x : N) (l : list N) : In x (dedupN l) <-> In x l.
Proof.
  induction l as [|y r IH]; cbn [dedupN]; [tauto|].
  destruct (memN y r) eqn:E.
  - rewrite IH. cbn [In]. split; [tauto|]. intros [->|H]; [apply memN_In; exact E | exact H].
  - cbn [In]. rewrite IH. tauto.
Qed.

Lemma dedupN_NoDup (l : list N) : NoDup (dedupN l).
Proof.
  induction l as [|y r IH]; cbn [dedupN]; [constructor|].
  destruct (memN y r) eqn:E; [exact IH|].
  constructor; [|exact IH]. rewrite dedupN_In. apply memN_false. exact E.
Qed.

Lemma dedupN_length_eq (l l' : list N) :
  (forall x, In x l <-> In x l') -> length (dedupN l) = length (dedupN l').
Proof.
  intros E. apply Permutation_length. apply NoDup_Permutation; try apply dedupN_NoDup.
  intros x. rewrite !dedupN_In. apply E.
Qed.

Lemma dedupN_cons_fresh (x : N) (l : list N) : ~ In x l -> length (dedupN (x :: l)) = S (length (dedupN l)).
Proof. intros H. cbn [dedupN]. apply memN_false in H. rewrite H. reflexivity. Qed.

Lemma NoDup_app_iff {A} (l l' : list A) :
  NoDup (l ++ l') <-> NoDup l /\ NoDup l' /\ (forall x, In x l -> ~ In x l').
Proof.
  induction l as [|a l IH]; cbn [app].
  - split.
    + intros H. repeat split; [constructor | exact H | intros x []].
    + intros (_ & H & _). exact H.
  - split.
    + intros H. inversion H as [|? ? Hn Hd]; subst. apply IH in Hd. destruct Hd as (H1 & H2 & H3).
      repeat split.
      * constructor; [|exact H1]. intro Hi. apply Hn. apply in_or_app. left; exact Hi.
      * exact H2.
      * intros x [->|Hx] Hx'.
        -- apply Hn. apply in_or_app. right; exact Hx'.
        -- exact (H3 x Hx Hx').
    + intros (H1 & H2 & H3). inversion H1 as [|? ? Hn Hd]; subst. constructor.
      * intro Hi. apply in_app_or in Hi. destruct Hi as [Hi|Hi]; [exact (Hn Hi) | exact (H3 a (or_introl eq_refl) Hi)].
      * apply IH. repeat split; [exact Hd | exact H2 |]. intros x Hx. apply H3. right; exact Hx.
Qed.

Lemma NoDup_map_inj_on {A B} (f : A -> B) (l : list A) :
  (forall x y, In x l -> In y l -> f x = f y -> x = y) -> NoDup l -> NoDup (map f l).
Proof.
  induction l as [|a l IH]; intros Hinj Hnd; cbn [map]; [constructor|].
  inversion Hnd as [|? ? Hn Hd]; subst. constructor.
  - intro Hi. apply in_map_iff in Hi. destruct Hi as (y & Ey & Hy).
    assert (y = a) by (apply Hinj; [right; exact Hy | left; reflexivity | exact Ey]). subst y. exact (Hn Hy).
  - apply IH; [|exact Hd]. intros x y Hx Hy. apply Hinj; right; assumption.
Qed.

Lemma filter_all_false {A} (p : A -> bool) (l : list A) : (forall x, In x l -> p x = false) -> filter p l = [].
Proof.
  induction l as [|a l IH]; intros H; cbn [filter]; [reflexivity|].
  rewrite (H a (or_introl eq_refl)). apply IH. intros x Hx. apply H. right; exact Hx.
Qed.

Lemma flat_map_singletons {A} (g : A -> list A) (l : list A) : (forall x, In x l -> g x = [x]) -> flat_map g l = l.
Proof.
  induction l as [|a l IH]; intros H; cbn [flat_map]; [reflexivity|].
  rewrite (H a (or_introl eq_refl)). cbn [app]. f_equal. apply IH. intros x Hx. apply H. right; exact Hx.
Qed.

(* a list split by two mutually exclusive tests *)
Lemma perm_split3 {A} (p q : A -> bool) (l : list A) :
  (forall x, In x l -> p x && q x = false) ->
  Permutation l (filter p l ++ filter q l ++ filter (fun x => negb (p x || q x)) l).
Proof.
  induction l as [|x l IH]; intros Hex; cbn [filter app]; [constructor|].
  assert (IH' := IH (fun y Hy => Hex y (or_intror Hy))).
  pose proof (Hex x (or_introl eq_refl)) as Hx.
  destruct (p x) eqn:Ep, (q x) eqn:Eq; cbn [orb negb andb] in *; try discriminate.
  - cbn [app]. apply perm_skip. exact IH'.
  - apply Permutation_cons_app. exact IH'.
  - rewrite app_assoc. apply Permutation_cons_app. rewrite <- app_assoc. exact IH'.
Qed.

(* ------------------------------------------------------------------ validity as a property of the half-edge list *)
Definition hirr (h : hedge) : Prop := fst h <> snd h.
Definition hclosed (H : list hedge) : Prop := forall h, In h H -> In (hswap h) H.
Definition hcount (H : list hedge) : Prop :=
  (Z.of_nat (length (dedupN (map fst H))) * 6 = Z.of_nat (length H) + 12)%Z.
Definition HValid (H : list hedge) : Prop := Forall hirr H /\ NoDup H /\ hclosed H /\ hcount H.

Lemma all_nodes_hedges (s : list tri) : all_nodes s = map fst (all_hedges s).
Proof.
  unfold all_nodes, all_hedges. induction s as [|[[x y] z] s IH]; cbn [flat_map]; [reflexivity|].
  rewrite map_app, IH. reflexivity.
Qed.

Lemma length_all_hedges (s : list tri) : length (all_hedges s) = (3 * length s)%nat.
Proof.
  unfold all_hedges. induction s as [|[[x y] z] s IH]; cbn [flat_map length]; [reflexivity|].
  rewrite app_length, IH. cbn [hedges length]. lia.
Qed.

Lemma distinct_hedges (s : list tri) : Forall tri_distinct s <-> Forall hirr (all_hedges s).
Proof.
  unfold all_hedges. induction s as [|[[x y] z] s IH]; cbn [flat_map].
  - split; constructor.
  - rewrite Forall_app, <- IH. cbn [hedges]. split.
    + intros HH. inversion HH as [|? ? Ht Hs]; subst. split; [|exact Hs].
      destruct Ht as (H1 & H2 & H3). repeat constructor; unfold hirr; cbn [fst snd]; congruence.
    + intros [HH Hs]. constructor; [|exact Hs].
      inversion HH as [|? ? A1 HH1]; subst. inversion HH1 as [|? ? A2 HH2]; subst.
      inversion HH2 as [|? ? A3 _]; subst.
      unfold hirr in *; cbn [fst snd] in *. repeat split; congruence.
Qed.

Lemma VS_HValid (s : list tri) : ValidSurface s <-> HValid (all_hedges s).
Proof.
  unfold HValid, hcount. split.
  - intros [H1 H2 H3 H4]. repeat split.
    + apply distinct_hedges; exact H1.
    + exact H2.
    + exact H3.
    + unfold euler_ok, n_vertices, n_hedges in H4. rewrite all_nodes_hedges in H4.
      rewrite length_all_hedges in *. lia.
  - intros (H1 & H2 & H3 & H4). constructor; [apply distinct_hedges; exact H1 | exact H2 | exact H3 |].
    unfold euler_ok, n_vertices, n_hedges. rewrite all_nodes_hedges. rewrite length_all_hedges in *. lia.
Qed.

Lemma HValid_perm (H H' : list hedge) : Permutation H H' -> HValid H -> HValid H'.
Proof.
  intros P (H1 & H2 & H3 & H4). repeat split.
  - apply Forall_forall. intros h Hh. rewrite Forall_forall in H1. apply H1.
    apply Permutation_in with H'; [apply Permutation_sym; exact P | exact Hh].
  - exact (Permutation_NoDup P H2).
  - intros h Hh. apply (Permutation_in _ P). apply H3. apply (Permutation_in _ (Permutation_sym P)). exact Hh.
  - unfold hcount in *. rewrite <- (Permutation_length P).
    rewrite (dedupN_length_eq (map fst H') (map fst H)); [exact H4|].
    intros x. split; apply Permutation_in; [apply Permutation_sym|]; apply Permutation_map; exact P.
Qed.

(* nodes of a valid half-edge list: both ends of every half-edge are first components *)
Lemma HValid_nodes (H : list hedge) (x y : N) : hclosed H -> In (x, y) H -> In x (map fst H) /\ In y (map fst H).
Proof.
  intros Hc Hin. split.
  - change x with (fst (x, y)). apply in_map. exact Hin.
  - change y with (fst (hswap (x, y))). apply in_map. apply Hc. exact Hin.
Qed.

(* replacing a reversal-closed part D by a reversal-closed part E disjoint from the rest *)
Lemma HV_replace (D E M : list hedge) :
  Forall hirr (D ++ M) -> NoDup (D ++ M) -> hclosed (D ++ M) ->
  hclosed D -> hclosed E -> NoDup E -> Forall hirr E -> (forall h, In h E -> ~ In h M) ->
  Forall hirr (E ++ M) /\ NoDup (E ++ M) /\ hclosed (E ++ M).
Proof.
  intros Hi Hn Hc HcD HcE HnE HiE Hdis.
  apply NoDup_app_iff in Hn. destruct Hn as (HnD & HnM & HDM).
  apply Forall_app in Hi. destruct Hi as [HiD HiM].
  repeat split.
  - apply Forall_app. split; assumption.
  - apply NoDup_app_iff. repeat split; assumption.
  - intros h Hh. apply in_app_or in Hh. apply in_or_app. destruct Hh as [Hh|Hh].
    + left. apply HcE. exact Hh.
    + right. assert (Hs : In (hswap h) (D ++ M)) by (apply Hc; apply in_or_app; right; exact Hh).
      apply in_app_or in Hs. destruct Hs as [Hs|Hs]; [|exact Hs].
      exfalso. apply HcD in Hs. rewrite hswap_invol in Hs. exact (HDM h Hs Hh).
Qed.

(* ------------------------------------------------------------------ the two triangles on an edge *)
Lemma has_dir_In (t : tri) (a b : N) : has_dir t a b = true <-> In (a, b) (hedges t).
Proof.
  destruct t as [[x y] z]. unfold has_dir. cbn [hedges In].
  rewrite !orb_true_iff, !andb_true_iff, !N.eqb_eq. split.
  - intros [[[-> ->]|[-> ->]]|[-> ->]]; auto.
  - intros [E|[E|[E|[]]]]; inversion E; subst; auto.
Qed.

Lemma uedge_dir (t : tri) (a b : N) : tri_distinct t -> has_uedge t a b = has_dir t a b || has_dir t b a.
Proof.
  destruct t as [[x y] z]. intros (H1 & H2 & H3). unfold has_uedge, has_dir.
  destruct (N.eqb_spec a b), (N.eqb_spec x a), (N.eqb_spec x b), (N.eqb_spec y a), (N.eqb_spec y b),
    (N.eqb_spec z a), (N.eqb_spec z b); cbn [negb andb orb]; try reflexivity; exfalso; congruence.
Qed.

Lemma dir_excl (t : tri) (a b : N) : tri_distinct t -> has_dir t a b && has_dir t b a = false.
Proof.
  destruct t as [[x y] z]. intros (H1 & H2 & H3). unfold has_dir.
  destruct (N.eqb_spec x a), (N.eqb_spec x b), (N.eqb_spec y a), (N.eqb_spec y b),
    (N.eqb_spec z a), (N.eqb_spec z b); cbn [negb andb orb]; try reflexivity; exfalso; congruence.
Qed.

Lemma third_comm (t : tri) (a b : N) : third t a b = third t b a.
Proof.
  destruct t as [[x y] z]. unfold third.
  rewrite (andb_comm (negb (x =? a))), (andb_comm (negb (y =? a))). reflexivity.
Qed.

Lemma hedges_dir (t : tri) (a b : N) : tri_distinct t -> has_dir t a b = true ->
  Permutation (hedges t) [(a, b); (b, third t a b); (third t a b, a)] /\
  a <> b /\ b <> third t a b /\ third t a b <> a.
Proof.
  destruct t as [[x y] z]. intros (H1 & H2 & H3) Hd. unfold has_dir in Hd.
  rewrite !orb_true_iff, !andb_true_iff, !N.eqb_eq in Hd.
  destruct Hd as [[[-> ->]|[-> ->]]|[-> ->]]; unfold third; eqb_simp; cbn [hedges].
  - split; [apply Permutation_refl|]. repeat split; congruence.
  - split; [perm_solve|]. repeat split; congruence.
  - split; [perm_solve|]. repeat split; congruence.
Qed.

Lemma in_all_hedges (s : list ltri) (h : hedge) :
  In h (all_hedges (tris s)) <-> exists f, In f s /\ In h (hedges (fst f)).
Proof.
  unfold all_hedges, tris. rewrite in_flat_map. split.
  - intros (t & Ht & Hh). apply in_map_iff in Ht. destruct Ht as (f & <- & Hf). exists f. split; assumption.
  - intros (f & Hf & Hh). exists (fst f). split; [apply in_map; exact Hf | exact Hh].
Qed.

Lemma tris_distinct (s : list ltri) (f : ltri) : Forall tri_distinct (tris s) -> In f s -> tri_distinct (fst f).
Proof. intros H Hf. rewrite Forall_forall in H. apply H. unfold tris. apply in_map. exact Hf. Qed.

Lemma filter_dir_single (s : list ltri) (a b : N) :
  NoDup (all_hedges (tris s)) -> In (a, b) (all_hedges (tris s)) ->
  exists f, filter (fun f : ltri => has_dir (fst f) a b) s = [f].
Proof.
  induction s as [|f s IH]; intros Hn Hin; [destruct Hin|].
  change (all_hedges (tris (f :: s))) with (hedges (fst f) ++ all_hedges (tris s)) in Hn, Hin.
  apply NoDup_app_iff in Hn. destruct Hn as (Hn1 & Hn2 & Hn3).
  cbn [filter]. destruct (has_dir (fst f) a b) eqn:E.
  - exists f. f_equal. apply filter_all_false. intros g Hg.
    destruct (has_dir (fst g) a b) eqn:Eg; [|reflexivity]. exfalso.
    apply has_dir_In in E. apply (Hn3 _ E). apply in_all_hedges. exists g. split; [exact Hg|].
    apply has_dir_In. exact Eg.
  - apply in_app_or in Hin. destruct Hin as [Hin|Hin].
    + apply has_dir_In in Hin. congruence.
    + apply IH; assumption.
Qed.

Definition Dl (a b : N) : list hedge := [(a, b); (b, a)].
Definition Kl (a b c d : N) : list hedge := [(b, c); (c, a); (a, d); (d, b)].
Definition rest_of (s : list ltri) (a b : N) : list ltri := filter (fun f : ltri => negb (has_uedge (fst f) a b)) s.

Lemma edge_nf (s : list ltri) (a b : N) :
  ValidSurface (tris s) -> In (a, b) (all_hedges (tris s)) ->
  exists f1 f2 c d,
    filter (fun f : ltri => has_dir (fst f) a b) s = [f1] /\
    filter (fun f : ltri => has_dir (fst f) b a) s = [f2] /\
    third (fst f1) a b = c /\ third (fst f2) a b = d /\ third (fst f2) b a = d /\
    has_dir (fst f1) a b = true /\ has_dir (fst f2) a b = false /\ has_dir (fst f2) b a = true /\
    Permutation s (f1 :: f2 :: rest_of s a b) /\
    Permutation (all_hedges (tris s)) (Dl a b ++ Kl a b c d ++ all_hedges (tris (rest_of s a b))) /\
    (forall f, In f (rest_of s a b) ->
               In f s /\ has_dir (fst f) a b = false /\ has_dir (fst f) b a = false) /\
    a <> b /\ b <> c /\ c <> a /\ a <> d /\ d <> b.
Proof.
  intros [Hdis Hnd Hcl _] Hab.
  assert (Hba : In (b, a) (all_hedges (tris s))) by (apply (Hcl (a, b)); exact Hab).
  destruct (filter_dir_single s a b Hnd Hab) as (f1 & Ef1).
  destruct (filter_dir_single s b a Hnd Hba) as (f2 & Ef2).
  assert (In1 : In f1 (filter (fun f : ltri => has_dir (fst f) a b) s)) by (rewrite Ef1; left; reflexivity).
  assert (In2 : In f2 (filter (fun f : ltri => has_dir (fst f) b a) s)) by (rewrite Ef2; left; reflexivity).
  apply filter_In in In1. destruct In1 as [In1 D1]. apply filter_In in In2. destruct In2 as [In2 D2].
  pose proof (tris_distinct s f1 Hdis In1) as T1. pose proof (tris_distinct s f2 Hdis In2) as T2.
  assert (D2' : has_dir (fst f2) a b = false).
  { pose proof (dir_excl (fst f2) a b T2) as X. rewrite D2 in X. rewrite andb_true_r in X. exact X. }
  destruct (hedges_dir (fst f1) a b T1 D1) as (P1 & N1 & N2 & N3).
  destruct (hedges_dir (fst f2) b a T2 D2) as (P2 & N4 & N5 & N6).
  assert (Hrest : rest_of s a b =
                  filter (fun f : ltri => negb (has_dir (fst f) a b || has_dir (fst f) b a)) s).
  { unfold rest_of. apply filter_ext_in. intros f Hf. rewrite (uedge_dir (fst f) a b); [reflexivity|].
    apply (tris_distinct s f Hdis Hf). }
  assert (PS : Permutation s (f1 :: f2 :: rest_of s a b)).
  { rewrite Hrest.
    pose proof (perm_split3 (fun f : ltri => has_dir (fst f) a b) (fun f : ltri => has_dir (fst f) b a) s) as P.
    cbv beta in P. rewrite Ef1, Ef2 in P. apply P.
    intros f Hf. apply dir_excl. apply (tris_distinct s f Hdis Hf). }
  exists f1, f2, (third (fst f1) a b), (third (fst f2) b a).
  repeat match goal with |- _ /\ _ => split end; try assumption; try reflexivity.
  - apply third_comm.
  - apply (Permutation_trans (Permutation_flat_map hedges (Permutation_map fst PS))).
    change (Permutation (hedges (fst f1) ++ hedges (fst f2) ++ all_hedges (tris (rest_of s a b)))
                        (Dl a b ++ Kl a b (third (fst f1) a b) (third (fst f2) b a) ++ all_hedges (tris (rest_of s a b)))).
    apply (Permutation_trans (Permutation_app P1 (Permutation_app_tail _ P2))).
    unfold Dl, Kl. perm_solve.
  - intros f Hf. rewrite Hrest in Hf. apply filter_In in Hf. destruct Hf as [Hf Hn].
    apply negb_true_iff, orb_false_iff in Hn. destruct Hn as [Hn1 Hn2]. repeat split; assumption.
Qed.

Lemma apex_eq (s : list ltri) (a b : N) (f : ltri) :
  filter (fun f : ltri => has_dir (fst f) a b) s = [f] -> apex s a b = Some (third (fst f) a b).
Proof. intros E. unfold apex. rewrite E. reflexivity. Qed.

(* ------------------------------------------------------------------ split *)
Lemma split_H (a b c d e : N) (R : list hedge) :
  HValid (Dl a b ++ Kl a b c d ++ R) ->
  a <> b -> b <> c -> c <> a -> a <> d -> d <> b -> c <> d ->
  ~ In e (map fst (Dl a b ++ Kl a b c d ++ R)) ->
  HValid ([(a,e);(e,a);(e,b);(b,e);(e,c);(c,e);(e,d);(d,e)] ++ Kl a b c d ++ R).
Proof.
  intros (Hi & Hn & Hc & Hcnt) Nab Nbc Nca Nad Ndb Ncd He.
  set (H := Dl a b ++ Kl a b c d ++ R) in *.
  assert (Hfresh : forall x y, In (x, y) H -> x <> e /\ y <> e).
  { intros x y Hxy. destruct (HValid_nodes H x y Hc Hxy) as [Hx Hy]. split; intro; subst; contradiction. }
  assert (Nae : a <> e) by (apply (Hfresh a b); unfold H, Dl; in_explicit).
  assert (Nbe : b <> e) by (apply (Hfresh b a); unfold H, Dl; in_explicit).
  assert (Nce : c <> e) by (apply (Hfresh c a); unfold H, Dl, Kl; in_explicit).
  assert (Nde : d <> e) by (apply (Hfresh d b); unfold H, Dl, Kl; in_explicit).
  destruct (HV_replace (Dl a b) [(a,e);(e,a);(e,b);(b,e);(e,c);(c,e);(e,d);(d,e)] (Kl a b c d ++ R))
    as (Ri & Rn & Rc).
  - exact Hi.
  - exact Hn.
  - exact Hc.
  - intros h Hh. unfold Dl in *. cbn [In] in Hh. destruct Hh as [<-|[<-|[]]]; cbn [hswap fst snd]; in_explicit.
  - intros h Hh. cbn [In] in Hh.
    repeat (destruct Hh as [<-|Hh]; [cbn [hswap fst snd]; in_explicit|]). destruct Hh.
  - nodup_explicit.
  - repeat constructor; unfold hirr; cbn [fst snd]; congruence.
  - intros h Hh Hm. assert (HH : In h H) by (unfold H; apply in_or_app; right; exact Hm).
    cbn [In] in Hh. repeat (destruct Hh as [<-|Hh]; [destruct (Hfresh _ _ HH); congruence|]). destruct Hh.
  - repeat split; try assumption.
    unfold hcount in *.
    rewrite (dedupN_length_eq _ (e :: map fst H)).
    2:{ intros x. unfold H, Dl, Kl. cbn [app map fst In]. tauto. }
    rewrite (dedupN_cons_fresh e (map fst H) He).
    remember (length (dedupN (map fst H))) as V eqn:EV. clear EV.
    unfold H, Dl, Kl in *. rewrite !app_length in Hcnt |- *. cbn [length] in *. lia.
Qed.

Lemma split_valid : forall (s : list ltri) (a b e : N),
  ValidSurface (tris s) -> In (a, b) (all_hedges (tris s)) -> ~ In e (all_nodes (tris s)) ->
  apex s a b <> apex s b a ->
  ValidSurface (tris (split s a b e)).
Proof.
  intros s a b e HV Hab He Hap.
  destruct (edge_nf s a b HV Hab)
    as (f1 & f2 & c & d & Ef1 & Ef2 & Ec & Ed & Ed' & D1 & D2' & D2 & PS & PH & Hrest & Nab & Nbc & Nca & Nad & Ndb).
  assert (Ncd : c <> d).
  { intro E. apply Hap. rewrite (apex_eq s a b f1 Ef1), (apex_eq s b a f2 Ef2). rewrite Ec, Ed'. congruence. }
  set (R := all_hedges (tris (rest_of s a b))) in *.
  apply VS_HValid in HV. pose proof (HValid_perm _ _ PH HV) as HV'.
  apply VS_HValid.
  assert (He' : ~ In e (map fst (Dl a b ++ Kl a b c d ++ R))).
  { intro Hin. apply He. rewrite all_nodes_hedges. revert Hin. apply Permutation_in.
    apply Permutation_map. apply Permutation_sym. exact PH. }
  pose proof (split_H a b c d e R HV' Nab Nbc Nca Nad Ndb Ncd He') as HS.
  assert (PSplit : Permutation (split s a b e)
     (((a, e, c), snd f1) :: ((e, b, c), snd f1) :: ((b, e, d), snd f2) :: ((e, a, d), snd f2) :: rest_of s a b)).
  { unfold split. apply (Permutation_trans (Permutation_flat_map (split_tri a b e) PS)).
    cbn [flat_map].
    destruct f1 as [t1 ty1], f2 as [t2 ty2]. cbn [fst snd] in *.
    unfold split_tri at 1 2. rewrite D1, D2', D2. cbv beta iota zeta. rewrite Ec, Ed. cbn [app].
    rewrite flat_map_singletons; [apply Permutation_refl|].
    intros [t ty] Hf. destruct (Hrest _ Hf) as (_ & X1 & X2). cbn [fst] in *.
    unfold split_tri. rewrite X1, X2. reflexivity. }
  eapply HValid_perm; [|exact HS].
  apply Permutation_sym.
  apply (Permutation_trans (Permutation_flat_map hedges (Permutation_map fst PSplit))).
  change (Permutation ([(a,e);(e,c);(c,a);(e,b);(b,c);(c,e);(b,e);(e,d);(d,b);(e,a);(a,d);(d,e)] ++ R)
                      ([(a,e);(e,a);(e,b);(b,e);(e,c);(c,e);(e,d);(d,e)] ++ Kl a b c d ++ R)).
  clearbody R. unfold Kl. perm_solve.
Qed.

(* ------------------------------------------------------------------ swap *)
Lemma swap_H (a b c d : N) (R : list hedge) :
  HValid (Dl a b ++ Kl a b c d ++ R) ->
  a <> b -> b <> c -> c <> a -> a <> d -> d <> b -> c <> d ->
  ~ In (c, d) (Dl a b ++ Kl a b c d ++ R) -> ~ In (d, c) (Dl a b ++ Kl a b c d ++ R) ->
  HValid ([(c,d);(d,c)] ++ Kl a b c d ++ R).
Proof.
  intros (Hi & Hn & Hc & Hcnt) Nab Nbc Nca Nad Ndb Ncd Hcd Hdc.
  set (H := Dl a b ++ Kl a b c d ++ R) in *.
  destruct (HV_replace (Dl a b) [(c,d);(d,c)] (Kl a b c d ++ R)) as (Ri & Rn & Rc).
  - exact Hi.
  - exact Hn.
  - exact Hc.
  - intros h Hh. unfold Dl in *. cbn [In] in Hh. destruct Hh as [<-|[<-|[]]]; cbn [hswap fst snd]; in_explicit.
  - intros h Hh. cbn [In] in Hh. destruct Hh as [<-|[<-|[]]]; cbn [hswap fst snd]; in_explicit.
  - nodup_explicit.
  - repeat constructor; unfold hirr; cbn [fst snd]; congruence.
  - intros h Hh Hm. assert (HH : In h H) by (unfold H; apply in_or_app; right; exact Hm).
    cbn [In] in Hh. destruct Hh as [<-|[<-|[]]]; contradiction.
  - repeat split; try assumption.
    unfold hcount in *.
    rewrite (dedupN_length_eq _ (map fst H)).
    2:{ intros x. unfold H, Dl, Kl. cbn [app map fst In]. tauto. }
    remember (length (dedupN (map fst H))) as V eqn:EV. clear EV.
    unfold H, Dl, Kl in *. rewrite !app_length in Hcnt |- *. cbn [length] in *. lia.
Qed.

Lemma no_edge_no_hedge (s : list ltri) (c d : N) :
  Forall tri_distinct (tris s) -> edge_exists s c d = false ->
  ~ In (c, d) (all_hedges (tris s)) /\ ~ In (d, c) (all_hedges (tris s)).
Proof.
  intros Hdis Hee.
  assert (X : forall f, In f s -> has_uedge (fst f) c d = true -> False).
  { intros f Hf Hu. assert (edge_exists s c d = true); [|congruence].
    unfold edge_exists. apply existsb_exists. exists f. split; assumption. }
  split; intro Hin; apply in_all_hedges in Hin; destruct Hin as (f & Hf & Hh); apply has_dir_In in Hh;
    apply (X f Hf); rewrite (uedge_dir _ _ _ (tris_distinct s f Hdis Hf)), Hh; [reflexivity | apply orb_true_r].
Qed.

Lemma swap_valid : forall (s s' : list ltri) (a b : N),
  ValidSurface (tris s) -> In (a, b) (all_hedges (tris s)) -> apex s a b <> apex s b a ->
  (forall c d, apex s a b = Some c -> apex s b a = Some d -> edge_exists s c d = false) ->
  swap s a b = Some s' -> ValidSurface (tris s').
Proof.
  intros s s' a b HV Hab Hap Hee Hsw.
  destruct (edge_nf s a b HV Hab)
    as (f1 & f2 & c & d & Ef1 & Ef2 & Ec & Ed & Ed' & D1 & D2' & D2 & PS & PH & Hrest & Nab & Nbc & Nca & Nad & Ndb).
  assert (A1 : apex s a b = Some c) by (rewrite (apex_eq s a b f1 Ef1), Ec; reflexivity).
  assert (A2 : apex s b a = Some d) by (rewrite (apex_eq s b a f2 Ef2), Ed'; reflexivity).
  assert (Ncd : c <> d) by (intro E; apply Hap; rewrite A1, A2, E; reflexivity).
  destruct (no_edge_no_hedge s c d (vs_distinct _ HV) (Hee c d A1 A2)) as [Hcd Hdc].
  unfold swap in Hsw. rewrite Ef1, Ef2, Ec, Ed in Hsw. injection Hsw as <-.
  fold (rest_of s a b).
  set (R := all_hedges (tris (rest_of s a b))) in *.
  apply VS_HValid in HV. pose proof (HValid_perm _ _ PH HV) as HV'.
  apply VS_HValid.
  assert (Hcd' : ~ In (c, d) (Dl a b ++ Kl a b c d ++ R)).
  { intro Hin. apply Hcd. revert Hin. apply Permutation_in. apply Permutation_sym. exact PH. }
  assert (Hdc' : ~ In (d, c) (Dl a b ++ Kl a b c d ++ R)).
  { intro Hin. apply Hdc. revert Hin. apply Permutation_in. apply Permutation_sym. exact PH. }
  pose proof (swap_H a b c d R HV' Nab Nbc Nca Nad Ndb Ncd Hcd' Hdc') as HS.
  eapply HValid_perm; [|exact HS].
  unfold tris, all_hedges. rewrite map_app, flat_map_app.
  change (Permutation ([(c,d);(d,c)] ++ Kl a b c d ++ R) (R ++ [(a,d);(d,c);(c,a);(d,b);(b,c);(c,d)])).
  apply (Permutation_trans (l' := [(a,d);(d,c);(c,a);(d,b);(b,c);(c,d)] ++ R)); [|apply Permutation_app_comm].
  clearbody R. unfold Kl. perm_solve.
Qed.

(* ------------------------------------------------------------------ renaming of nodes (compact, collapse) *)
Definition tmapN (sg : N -> N) (t : tri) : tri := let '(x, y, z) := t in (sg x, sg y, sg z).
Definition hmap (sg : N -> N) (h : hedge) : hedge := (sg (fst h), sg (snd h)).

Lemma all_hedges_tmapN (sg : N -> N) (l : list tri) :
  all_hedges (map (tmapN sg) l) = map (hmap sg) (all_hedges l).
Proof.
  unfold all_hedges. induction l as [|[[x y] z] l IH]; cbn [map flat_map]; [reflexivity|].
  rewrite map_app, IH. reflexivity.
Qed.

Lemma hmap_hswap (sg : N -> N) (h : hedge) : hmap sg (hswap h) = hswap (hmap sg h).
Proof. destruct h as [x y]. reflexivity. Qed.

Lemma map_fst_hmap (sg : N -> N) (H : list hedge) : map fst (map (hmap sg) H) = map sg (map fst H).
Proof. rewrite !map_map. apply map_ext. intros [x y]. reflexivity. Qed.

Lemma dedupN_map_inj_length (sg : N -> N) (l : list N) :
  (forall x y, In x l -> In y l -> sg x = sg y -> x = y) ->
  length (dedupN (map sg l)) = length (dedupN l).
Proof.
  intros Hinj. rewrite <- (map_length sg (dedupN l)).
  apply Permutation_length. apply NoDup_Permutation.
  - apply dedupN_NoDup.
  - apply NoDup_map_inj_on; [|apply dedupN_NoDup].
    intros x y Hx Hy. apply Hinj; apply dedupN_In; assumption.
  - intros v. rewrite dedupN_In, !in_map_iff. split; intros (x & E & Hx); exists x; split; try exact E;
      apply dedupN_In; exact Hx.
Qed.

Lemma compact_H (sg : N -> N) (H : list hedge) :
  (forall x y, In x (map fst H) -> In y (map fst H) -> sg x = sg y -> x = y) ->
  HValid H -> HValid (map (hmap sg) H).
Proof.
  intros Hinj (Hi & Hn & Hc & Hcnt).
  assert (Hnodes : forall x y, In (x, y) H -> In x (map fst H) /\ In y (map fst H))
    by (intros x y; apply HValid_nodes; exact Hc).
  repeat split.
  - apply Forall_forall. intros h Hh. apply in_map_iff in Hh. destruct Hh as ([x y] & <- & Hxy).
    rewrite Forall_forall in Hi. specialize (Hi _ Hxy). unfold hirr, hmap in *. cbn [fst snd] in *.
    destruct (Hnodes x y Hxy) as [Hx Hy]. intro E. apply Hi. apply Hinj; assumption.
  - apply NoDup_map_inj_on; [|exact Hn].
    intros [x y] [x' y'] Hh Hh' E. unfold hmap in E. cbn [fst snd] in E. injection E as E1 E2.
    destruct (Hnodes x y Hh) as [Hx Hy]. destruct (Hnodes x' y' Hh') as [Hx' Hy'].
    f_equal; apply Hinj; assumption.
  - intros h Hh. apply in_map_iff in Hh. destruct Hh as (h0 & <- & Hh0).
    rewrite <- hmap_hswap. apply in_map. apply Hc. exact Hh0.
  - unfold hcount in *. rewrite map_fst_hmap, map_length, (dedupN_map_inj_length sg _ Hinj). exact Hcnt.
Qed.

Lemma tris_compact (sg : N -> N) (s : list ltri) : tris (compact sg s) = map (tmapN sg) (tris s).
Proof.
  unfold tris, compact. rewrite !map_map. apply map_ext. intros [[[x y] z] ty]. reflexivity.
Qed.

Lemma compact_valid : forall (sigma : N -> N) (s : list ltri),
  (forall x y, In x (all_nodes (tris s)) -> In y (all_nodes (tris s)) -> sigma x = sigma y -> x = y) ->
  ValidSurface (tris s) -> ValidSurface (tris (compact sigma s)).
Proof.
  intros sigma s Hinj HV. apply VS_HValid. rewrite tris_compact, all_hedges_tmapN.
  apply compact_H; [|apply VS_HValid; exact HV].
  rewrite <- all_nodes_hedges. exact Hinj.
Qed.

(* ------------------------------------------------------------------ split keeps the signed volume *)
Definition posR (m : nmapR) (k : N) : vR :=
  match nget m k with Some v => ns_pos v | None => mkv 0%R 0%R 0%R end.

Lemma positions_eq (m : nmapR) (x y z : N) : positions m (x, y, z) = (posR m x, posR m y, posR m z).
Proof. reflexivity. Qed.

Lemma nget_filter_neq (m : nmapR) (k k' : N) :
  k' <> k -> nget (filter (fun kv : N * nstateR => negb (fst kv =? k)) m) k' = nget m k'.
Proof.
  intros Hne. induction m as [|[k0 v] m IH]; cbn [filter nget fst]; [reflexivity|].
  destruct (N.eqb_spec k0 k) as [->|Hk]; cbn [negb].
  - rewrite IH. destruct (N.eqb_spec k' k); [contradiction | reflexivity].
  - cbn [nget]. rewrite IH. reflexivity.
Qed.

Lemma nget_nset (m : nmapR) (k : N) (v : nstateR) (k' : N) :
  nget (nset m k v) k' = if k' =? k then Some v else nget m k'.
Proof.
  unfold nset. cbn [nget]. destruct (N.eqb_spec k' k); [reflexivity|]. apply nget_filter_neq; assumption.
Qed.

Lemma posR_nset (m : nmapR) (k : N) (v : nstateR) (k' : N) :
  posR (nset m k v) k' = if k' =? k then ns_pos v else posR m k'.
Proof. unfold posR. rewrite nget_nset. destruct (k' =? k); reflexivity. Qed.

Lemma posR_nset_same (m : nmapR) (k : N) (v : nstateR) (k' : N) :
  posR m k = ns_pos v -> posR (nset m k v) k' = posR m k'.
Proof.
  intros Hp. rewrite posR_nset. destruct (N.eqb_spec k' k) as [->|]; [symmetry; exact Hp | reflexivity].
Qed.

Lemma split_tri_vol (m m' : nmapR) (a b e : N) (f : ltri) :
  (forall k, k <> e -> posR m' k = posR m k) ->
  posR m' e = midpoint NumR (posR m a) (posR m b) ->
  ~ In e (tri_nodes (fst f)) ->
  rsum (map det3v (map (positions m') (map fst (split_tri a b e f)))) = det3v (positions m (fst f)).
Proof.
  intros Hpos He Hfr. destruct f as [[[x y] z] ty]. cbn [fst tri_nodes In] in *.
  assert (Nx : x <> e) by tauto. assert (Ny : y <> e) by tauto. assert (Nz : z <> e) by tauto. clear Hfr.
  unfold split_tri.
  destruct (has_dir (x, y, z) a b) eqn:D1; [|destruct (has_dir (x, y, z) b a) eqn:D2].
  - unfold has_dir in D1. rewrite !orb_true_iff, !andb_true_iff, !N.eqb_eq in D1.
    cbv zeta. unfold third.
    destruct D1 as [[[-> ->]|[-> ->]]|[-> ->]].
    + rewrite !N.eqb_refl, ?andb_false_r. cbn [negb andb map fst].
      rewrite !positions_eq, !He, !Hpos by assumption.
      destruct (posR m a) as [x1 y1 z1], (posR m b) as [x2 y2 z2], (posR m z) as [x3 y3 z3].
      unfold rsum, det3v, midpoint, chalf. cbn [fold_right]. vunfold. cbn [vx vy vz nofZ NumR]. field.
    + rewrite !N.eqb_refl, ?andb_false_r. cbn [negb andb].
      destruct (N.eqb_spec x a) as [->|Nxa]; [|destruct (N.eqb_spec x b) as [->|Nxb]]; cbn [negb andb map fst];
      rewrite !positions_eq, !He, !Hpos by assumption;
      destruct (posR m a) as [x1 y1 z1], (posR m b) as [x2 y2 z2]; try destruct (posR m x) as [x3 y3 z3];
      unfold rsum, det3v, midpoint, chalf; cbn [fold_right]; vunfold; cbn [vx vy vz nofZ NumR]; field.
    + rewrite !N.eqb_refl, ?andb_false_r. cbn [negb andb].
      destruct (N.eqb_spec y a) as [->|Nya]; [|destruct (N.eqb_spec y b) as [->|Nyb]]; cbn [negb andb map fst];
      rewrite !positions_eq, !He, !Hpos by assumption;
      destruct (posR m a) as [x1 y1 z1], (posR m b) as [x2 y2 z2]; try destruct (posR m y) as [x3 y3 z3];
      unfold rsum, det3v, midpoint, chalf; cbn [fold_right]; vunfold; cbn [vx vy vz nofZ NumR]; field.
  - unfold has_dir in D2. rewrite !orb_true_iff, !andb_true_iff, !N.eqb_eq in D2.
    cbv zeta. unfold third. clear D1.
    destruct D2 as [[[-> ->]|[-> ->]]|[-> ->]].
    + rewrite !N.eqb_refl, ?andb_false_r. cbn [negb andb map fst].
      rewrite !positions_eq, !He, !Hpos by assumption.
      destruct (posR m a) as [x1 y1 z1], (posR m b) as [x2 y2 z2], (posR m z) as [x3 y3 z3].
      unfold rsum, det3v, midpoint, chalf. cbn [fold_right]. vunfold. cbn [vx vy vz nofZ NumR]. field.
    + rewrite !N.eqb_refl, ?andb_false_r. cbn [negb andb].
      destruct (N.eqb_spec x a) as [->|Nxa]; [|destruct (N.eqb_spec x b) as [->|Nxb]]; cbn [negb andb map fst];
      rewrite !positions_eq, !He, !Hpos by assumption;
      destruct (posR m a) as [x1 y1 z1], (posR m b) as [x2 y2 z2]; try destruct (posR m x) as [x3 y3 z3];
      unfold rsum, det3v, midpoint, chalf; cbn [fold_right]; vunfold; cbn [vx vy vz nofZ NumR]; field.
    + rewrite !N.eqb_refl, ?andb_false_r. cbn [negb andb].
      destruct (N.eqb_spec y a) as [->|Nya]; [|destruct (N.eqb_spec y b) as [->|Nyb]]; cbn [negb andb map fst];
      rewrite !positions_eq, !He, !Hpos by assumption;
      destruct (posR m a) as [x1 y1 z1], (posR m b) as [x2 y2 z2]; try destruct (posR m y) as [x3 y3 z3];
      unfold rsum, det3v, midpoint, chalf; cbn [fold_right]; vunfold; cbn [vx vy vz nofZ NumR]; field.
  - cbn [map fst]. rewrite !positions_eq, !Hpos by assumption. unfold rsum. cbn [fold_right]. ring.
Qed.

Lemma split_sum_vol (m m' : nmapR) (a b e : N) (s : list ltri) :
  (forall k, k <> e -> posR m' k = posR m k) ->
  posR m' e = midpoint NumR (posR m a) (posR m b) ->
  ~ In e (all_nodes (tris s)) ->
  rsum (map det3v (map (positions m') (tris (split s a b e)))) = rsum (map det3v (map (positions m) (tris s))).
Proof.
  intros Hpos He. induction s as [|f s IH]; intros Hfr; [reflexivity|].
  unfold split, tris in *. cbn [flat_map map]. rewrite !map_app, rsum_app.
  change (all_nodes (map fst (f :: s))) with (tri_nodes (fst f) ++ all_nodes (map fst s)) in Hfr.
  unfold rsum at 3. cbn [fold_right]. fold (rsum (map det3v (map (positions m) (map fst s)))).
  f_equal.
  - apply (split_tri_vol m m' a b e f Hpos He). intro X; apply Hfr; apply in_or_app; left; exact X.
  - apply IH. intro X; apply Hfr; apply in_or_app; right; exact X.
Qed.

Lemma split_volume : forall (st st' : mstateR) (a b e : N) (dynamic : bool),
  nodes_match st -> op_wf st (OpSplit a b e) -> apply_op NumR dynamic st (OpSplit a b e) = Some st' ->
  six_signed_volume NumR (map (positions (ms_nodes st')) (tris (ms_faces st'))) =
  six_signed_volume NumR (map (positions (ms_nodes st)) (tris (ms_faces st))).
Proof.
  intros st st' a b e dynamic _ Hwf Hap.
  cbn [op_wf] in Hwf. destruct Hwf as (Hab & Hfr & _).
  cbn [apply_op] in Hap.
  destruct (nget (ms_nodes st) a) as [na|] eqn:Ga; [|discriminate].
  destruct (nget (ms_nodes st) b) as [nb|] eqn:Gb; [|discriminate].
  destruct (negb (edge_exists (ms_faces st) a b)); [discriminate|].
  injection Hap as <-. cbn [ms_faces ms_nodes].
  rewrite !six_signed_volume_sum.
  assert (Pa : posR (ms_nodes st) a = ns_pos na) by (unfold posR; rewrite Ga; reflexivity).
  assert (Pb : posR (ms_nodes st) b = ns_pos nb) by (unfold posR; rewrite Gb; reflexivity).
  apply split_sum_vol; [| |exact Hfr].
  - intros k Hk. destruct dynamic; cbv beta iota zeta.
    + rewrite posR_nset. destruct (N.eqb_spec k e); [contradiction|].
      rewrite posR_nset_same.
      * apply posR_nset_same. exact Pa.
      * cbn [ns_pos]. rewrite posR_nset_same; [exact Pb | exact Pa].
    + rewrite posR_nset. destruct (N.eqb_spec k e); [contradiction|]. reflexivity.
  - rewrite Pa, Pb. destruct dynamic; cbv beta iota zeta; rewrite posR_nset, N.eqb_refl; reflexivity.
Qed.

(* ------------------------------------------------------------------ collapse *)
Lemma hedge_neighbour (s : list ltri) (a y : N) : In (a, y) (all_hedges (tris s)) -> In y (neighbours s a).
Proof.
  intros Hin. apply in_all_hedges in Hin. destruct Hin as (f & Hf & Hh).
  unfold neighbours. apply dedupN_In. apply in_flat_map. exists f. split; [exact Hf|].
  destruct f as [[[x0 y0] z0] ty]. cbn [fst hedges In] in *.
  destruct Hh as [E|[E|[E|[]]]]; injection E as <- <-.
  - rewrite N.eqb_refl. in_explicit.
  - destruct (x0 =? y0); [in_explicit|]. rewrite N.eqb_refl. in_explicit.
  - destruct (N.eqb_spec x0 z0) as [->|]; [in_explicit|].
    destruct (y0 =? z0); [in_explicit|]. rewrite N.eqb_refl. in_explicit.
Qed.

Lemma common_in (s : list ltri) (a b y : N) :
  In (a, y) (all_hedges (tris s)) -> In (b, y) (all_hedges (tris s)) -> In y (common_neighbours s a b).
Proof.
  intros Ha Hb. unfold common_neighbours. apply filter_In. split.
  - apply hedge_neighbour; exact Ha.
  - apply memN_In. apply hedge_neighbour; exact Hb.
Qed.

Lemma link_two (s : list ltri) (a b c d : N) :
  link_ok s a b = true -> c <> d ->
  In c (common_neighbours s a b) -> In d (common_neighbours s a b) ->
  forall y, In y (common_neighbours s a b) -> y = c \/ y = d.
Proof.
  unfold link_ok. intros Hl Ncd Hc Hd y Hy. apply Nat.eqb_eq in Hl.
  assert (Hnd : NoDup (common_neighbours s a b))
    by (unfold common_neighbours, neighbours; apply NoDup_filter; apply dedupN_NoDup).
  destruct (common_neighbours s a b) as [|u [|v [|w l]]]; cbn [length] in Hl; try discriminate.
  cbn [In] in *. intuition congruence.
Qed.

Lemma ren_a (a b i : N) : ren a b i a = i.
Proof. unfold ren. rewrite N.eqb_refl. reflexivity. Qed.
Lemma ren_b (a b i : N) : ren a b i b = i.
Proof. unfold ren. rewrite N.eqb_refl, orb_true_r. reflexivity. Qed.
Lemma ren_out (a b i x : N) : x <> a -> x <> b -> ren a b i x = x.
Proof. intros H1 H2. unfold ren. eqb_simp. reflexivity. Qed.
Lemma ren_cases (a b i x : N) :
  ((x = a \/ x = b) /\ ren a b i x = i) \/ (x <> a /\ x <> b /\ ren a b i x = x).
Proof.
  destruct (N.eq_dec x a) as [->|N1]; [left; split; [left; reflexivity | apply ren_a]|].
  destruct (N.eq_dec x b) as [->|N2]; [left; split; [right; reflexivity | apply ren_b]|].
  right. repeat split; try assumption. apply ren_out; assumption.
Qed.
Lemma ren_eq (a b i x x' : N) : ren a b i x = ren a b i x' -> x <> i -> x' <> i ->
  x = x' \/ ((x = a \/ x = b) /\ (x' = a \/ x' = b)).
Proof.
  intros E F F'.
  destruct (ren_cases a b i x) as [[A E1]|(N1 & N2 & E1)], (ren_cases a b i x') as [[A' E2]|(N1' & N2' & E2)];
    rewrite E1, E2 in E.
  - right. split; assumption.
  - exfalso. apply F'. symmetry. exact E.
  - exfalso. apply F. exact E.
  - left. exact E.
Qed.

Lemma dedupN_ren_length (a b i : N) (l : list N) :
  a <> b -> In a l -> In b l -> ~ In i l ->
  S (length (dedupN (map (ren a b i) l))) = length (dedupN l).
Proof.
  intros Nab Ha Hb Hi.
  set (l0 := filter (fun x => negb ((x =? a) || (x =? b))) l).
  assert (Hl0 : forall x, In x l0 <-> In x l /\ x <> a /\ x <> b).
  { intros x. unfold l0. rewrite filter_In, negb_true_iff, orb_false_iff, !N.eqb_neq. tauto. }
  rewrite (dedupN_length_eq (map (ren a b i) l) (i :: l0)).
  2:{ intros x. rewrite in_map_iff. cbn [In]. rewrite Hl0. split.
      - intros (u & <- & Hu). destruct (ren_cases a b i u) as [[_ E]|(N1 & N2 & E)]; rewrite E; [left; reflexivity|].
        right. auto.
      - intros [<-|(Hx & N1 & N2)]; [exists a; split; [apply ren_a | exact Ha]|].
        exists x. split; [apply ren_out; assumption | exact Hx]. }
  rewrite (dedupN_length_eq l (a :: b :: l0)).
  2:{ intros x. cbn [In]. rewrite Hl0. split.
      - intros Hx. destruct (N.eq_dec x a) as [->|N1]; [left; reflexivity|].
        destruct (N.eq_dec x b) as [->|N2]; [right; left; reflexivity|]. right; right; auto.
      - intros [<-|[<-|(Hx & _)]]; assumption. }
  rewrite (dedupN_cons_fresh i l0) by (rewrite Hl0; tauto).
  rewrite (dedupN_cons_fresh a (b :: l0)) by (cbn [In]; rewrite Hl0; intuition congruence).
  rewrite (dedupN_cons_fresh b l0) by (rewrite Hl0; intuition congruence).
  reflexivity.
Qed.

Lemma collapse_H (a b c d i : N) (R : list hedge) :
  HValid (Dl a b ++ Kl a b c d ++ R) ->
  a <> b -> b <> c -> c <> a -> a <> d -> d <> b -> c <> d ->
  ~ In i (map fst (Dl a b ++ Kl a b c d ++ R)) ->
  (forall y, In (a, y) (Dl a b ++ Kl a b c d ++ R) -> In (b, y) (Dl a b ++ Kl a b c d ++ R) -> y = c \/ y = d) ->
  HValid (map (hmap (ren a b i)) R).
Proof.
  intros (Hi & Hn & Hc & Hcnt) Nab Nbc Nca Nad Ndb Ncd Hfr Hlink.
  set (H := Dl a b ++ Kl a b c d ++ R) in *.
  assert (HR : forall h, In h R -> In h H)
    by (intros h Hh; unfold H; apply in_or_app; right; apply in_or_app; right; exact Hh).
  assert (Hfresh : forall x y, In (x, y) H -> x <> i /\ y <> i).
  { intros x y Hxy. destruct (HValid_nodes H x y Hc Hxy) as [Hx Hy]. split; intro; subst; contradiction. }
  assert (Hirr : forall x y, In (x, y) H -> x <> y).
  { intros x y Hxy. rewrite Forall_forall in Hi. exact (Hi _ Hxy). }
  pose proof Hn as Hn'. unfold H in Hn'. apply NoDup_app_iff in Hn'. destruct Hn' as (_ & HnKR & HDKR).
  apply NoDup_app_iff in HnKR. destruct HnKR as (_ & HnR & HKR).
  assert (HDR : forall h, In h (Dl a b) -> ~ In h R).
  { intros h Hh Hr. apply (HDKR h Hh). apply in_or_app. right; exact Hr. }
  assert (toR : forall h, In h H -> ~ In h (Dl a b) -> ~ In h (Kl a b c d) -> In h R).
  { unfold H. intros h Hh N1 N2. apply in_app_or in Hh. destruct Hh as [Hh|Hh]; [contradiction|].
    apply in_app_or in Hh. destruct Hh as [Hh|Hh]; [contradiction | exact Hh]. }
  assert (Rcb : In (c, b) R).
  { apply toR; [apply (Hc (b, c)); unfold H, Dl, Kl; in_explicit | |]; unfold Dl, Kl; cbn [In]; intuition congruence. }
  assert (Rac : In (a, c) R).
  { apply toR; [apply (Hc (c, a)); unfold H, Dl, Kl; in_explicit | |]; unfold Dl, Kl; cbn [In]; intuition congruence. }
  assert (Rda : In (d, a) R).
  { apply toR; [apply (Hc (a, d)); unfold H, Dl, Kl; in_explicit | |]; unfold Dl, Kl; cbn [In]; intuition congruence. }
  assert (Rbd : In (b, d) R).
  { apply toR; [apply (Hc (d, b)); unfold H, Dl, Kl; in_explicit | |]; unfold Dl, Kl; cbn [In]; intuition congruence. }
  assert (Hnotboth : forall x y, In (x, y) R -> (x = a \/ x = b) -> (y = a \/ y = b) -> False).
  { intros x y Hxy Hx Hy. pose proof (Hirr x y (HR _ Hxy)) as Ne.
    apply (HDR (x, y)); [|exact Hxy]. unfold Dl. cbn [In].
    destruct Hx as [-> | ->], Hy as [-> | ->]; try congruence; auto. }
  assert (Hlink2 : forall x, In (x, a) H -> In (x, b) H -> x = c \/ x = d).
  { intros x H1 H2. apply Hlink; [apply (Hc (x, a)) | apply (Hc (x, b))]; assumption. }
  assert (Hinj : forall h h', In h R -> In h' R -> hmap (ren a b i) h = hmap (ren a b i) h' -> h = h').
  { intros [x y] [x' y'] Hh Hh' E. unfold hmap in E. cbn [fst snd] in E. injection E as E1 E2.
    destruct (Hfresh _ _ (HR _ Hh)) as [Fx Fy]. destruct (Hfresh _ _ (HR _ Hh')) as [Fx' Fy'].
    pose proof (ren_eq a b i x x' E1 Fx Fx') as Cx. pose proof (ren_eq a b i y y' E2 Fy Fy') as Cy.
    destruct Cx as [<-|[Ax Ax']], Cy as [<-|[Ay Ay']].
    - reflexivity.
    - destruct (N.eq_dec y y') as [<-|Ny]; [reflexivity|]. exfalso.
      assert (In (x, a) R /\ In (x, b) R) as [Ha Hb].
      { destruct Ay as [-> | ->], Ay' as [-> | ->]; try congruence; split; assumption. }
      destruct (Hlink2 x (HR _ Ha) (HR _ Hb)) as [-> | ->].
      + apply (HKR (c, a)); [unfold Kl; in_explicit | exact Ha].
      + apply (HKR (d, b)); [unfold Kl; in_explicit | exact Hb].
    - destruct (N.eq_dec x x') as [<-|Nx]; [reflexivity|]. exfalso.
      assert (In (a, y) R /\ In (b, y) R) as [Ha Hb].
      { destruct Ax as [-> | ->], Ax' as [-> | ->]; try congruence; split; assumption. }
      destruct (Hlink y (HR _ Ha) (HR _ Hb)) as [-> | ->].
      + apply (HKR (b, c)); [unfold Kl; in_explicit | exact Hb].
      + apply (HKR (a, d)); [unfold Kl; in_explicit | exact Ha].
    - exfalso. exact (Hnotboth x y Hh Ax Ay). }
  repeat split.
  - (* no repeated node *)
    apply Forall_forall. intros h Hh. apply in_map_iff in Hh. destruct Hh as ([x y] & <- & Hxy).
    destruct (Hfresh _ _ (HR _ Hxy)) as [Fx Fy]. pose proof (Hirr _ _ (HR _ Hxy)) as Ne.
    unfold hirr, hmap. cbn [fst snd].
    destruct (ren_cases a b i x) as [[Ax E1]|(N1 & N2 & E1)], (ren_cases a b i y) as [[Ay E2]|(N1' & N2' & E2)];
      rewrite E1, E2.
    + exfalso. exact (Hnotboth x y Hxy Ax Ay).
    + intro E. apply Fy. symmetry. exact E.
    + exact Fx.
    + exact Ne.
  - apply NoDup_map_inj_on; assumption.
  - (* closed under reversal *)
    intros h Hh. apply in_map_iff in Hh. destruct Hh as ([x y] & <- & Hxy).
    rewrite <- hmap_hswap.
    assert (Hs : In (hswap (x, y)) H) by (apply Hc; apply HR; exact Hxy).
    unfold H in Hs. apply in_app_or in Hs. destruct Hs as [Hs|Hs]; [|apply in_app_or in Hs; destruct Hs as [Hs|Hs]].
    + exfalso. unfold Dl, hswap in Hs. cbn [In fst snd] in Hs.
      destruct Hs as [E|[E|[]]]; injection E as <- <-.
      * apply (HDR (b, a)); [unfold Dl; in_explicit | exact Hxy].
      * apply (HDR (a, b)); [unfold Dl; in_explicit | exact Hxy].
    + unfold Kl, hswap in Hs. cbn [In fst snd] in Hs.
      destruct Hs as [E|[E|[E|[E|[]]]]]; injection E as <- <-.
      * replace (hmap (ren a b i) (hswap (c, b))) with (hmap (ren a b i) (a, c)); [apply in_map; exact Rac|].
        unfold hmap, hswap. cbn [fst snd]. rewrite ren_a, ren_b. reflexivity.
      * replace (hmap (ren a b i) (hswap (a, c))) with (hmap (ren a b i) (c, b)); [apply in_map; exact Rcb|].
        unfold hmap, hswap. cbn [fst snd]. rewrite ren_a, ren_b. reflexivity.
      * replace (hmap (ren a b i) (hswap (d, a))) with (hmap (ren a b i) (b, d)); [apply in_map; exact Rbd|].
        unfold hmap, hswap. cbn [fst snd]. rewrite ren_a, ren_b. reflexivity.
      * replace (hmap (ren a b i) (hswap (b, d))) with (hmap (ren a b i) (d, a)); [apply in_map; exact Rda|].
        unfold hmap, hswap. cbn [fst snd]. rewrite ren_a, ren_b. reflexivity.
    + apply in_map. exact Hs.
  - (* count *)
    assert (Hset : forall u, In u (map fst R) <-> In u (map fst H)).
    { intros u. split.
      - intros Hu. apply in_map_iff in Hu. destruct Hu as (h & <- & Hh). apply in_map. apply HR. exact Hh.
      - unfold H, Dl, Kl. cbn [app map fst In].
        intros [<-|[<-|[<-|[<-|[<-|[<-|Hu]]]]]]; try exact Hu.
        + exact (in_map fst R (a, c) Rac).
        + exact (in_map fst R (b, d) Rbd).
        + exact (in_map fst R (b, d) Rbd).
        + exact (in_map fst R (c, b) Rcb).
        + exact (in_map fst R (a, c) Rac).
        + exact (in_map fst R (d, a) Rda). }
    unfold hcount in *. rewrite map_fst_hmap, map_length.
    rewrite (dedupN_length_eq (map (ren a b i) (map fst R)) (map (ren a b i) (map fst H))).
    2:{ intros v. rewrite !in_map_iff. split; intros (u & E & Hu); exists u; (split; [exact E|]); apply Hset; exact Hu. }
    assert (Ha : In a (map fst H)) by (apply Hset; exact (in_map fst R (a, c) Rac)).
    assert (Hb : In b (map fst H)) by (apply Hset; exact (in_map fst R (b, d) Rbd)).
    pose proof (dedupN_ren_length a b i (map fst H) Nab Ha Hb Hfr) as HL.
    remember (length (dedupN (map fst H))) as V eqn:EV. clear EV.
    remember (length (dedupN (map (ren a b i) (map fst H)))) as V' eqn:EV'. clear EV'.
    unfold H, Dl, Kl in Hcnt. rewrite !app_length in Hcnt. cbn [length] in Hcnt. lia.
Qed.

Lemma tris_collapse (s : list ltri) (a b i : N) :
  tris (collapse s a b i) = map (tmapN (ren a b i)) (tris (rest_of s a b)).
Proof.
  unfold tris, collapse, rest_of. rewrite !map_map. apply map_ext. intros [[[x y] z] ty]. reflexivity.
Qed.

Lemma collapse_valid : forall (s : list ltri) (a b i : N),
  ValidSurface (tris s) -> In (a, b) (all_hedges (tris s)) -> ~ In i (all_nodes (tris s)) ->
  link_ok s a b = true -> apex s a b <> apex s b a ->
  ValidSurface (tris (collapse s a b i)).
Proof.
  intros s a b i HV Hab Hfr Hlk Hap.
  destruct (edge_nf s a b HV Hab)
    as (f1 & f2 & c & d & Ef1 & Ef2 & Ec & Ed & Ed' & D1 & D2' & D2 & PS & PH & Hrest & Nab & Nbc & Nca & Nad & Ndb).
  assert (Ncd : c <> d).
  { intro E. apply Hap. rewrite (apex_eq s a b f1 Ef1), (apex_eq s b a f2 Ef2). rewrite Ec, Ed'. congruence. }
  set (R := all_hedges (tris (rest_of s a b))) in *.
  pose proof (vs_closed _ HV) as Hcl.
  assert (toS : forall h, In h (Dl a b ++ Kl a b c d ++ R) -> In h (all_hedges (tris s))).
  { intros h. apply Permutation_in. apply Permutation_sym. exact PH. }
  assert (Sbc : In (b, c) (all_hedges (tris s))) by (apply toS; unfold Dl, Kl; in_explicit).
  assert (Sca : In (c, a) (all_hedges (tris s))) by (apply toS; unfold Dl, Kl; in_explicit).
  assert (Sad : In (a, d) (all_hedges (tris s))) by (apply toS; unfold Dl, Kl; in_explicit).
  assert (Sdb : In (d, b) (all_hedges (tris s))) by (apply toS; unfold Dl, Kl; in_explicit).
  assert (Sac : In (a, c) (all_hedges (tris s))) by (apply (Hcl (c, a)); exact Sca).
  assert (Sbd : In (b, d) (all_hedges (tris s))) by (apply (Hcl (d, b)); exact Sdb).
  pose proof (link_two s a b c d Hlk Ncd (common_in s a b c Sac Sbc) (common_in s a b d Sad Sbd)) as Hlink.
  apply VS_HValid in HV. pose proof (HValid_perm _ _ PH HV) as HV'.
  apply VS_HValid. rewrite tris_collapse, all_hedges_tmapN. fold R.
  apply (collapse_H a b c d i R HV' Nab Nbc Nca Nad Ndb Ncd).
  - intro Hin. apply Hfr. rewrite all_nodes_hedges. revert Hin. apply Permutation_in.
    apply Permutation_map. apply Permutation_sym. exact PH.
  - intros y Hay Hby. apply Hlink. apply common_in; apply toS; assumption.
Qed.

(* the statement without the guard `apex s a b <> apex s b a` (but with 4 < V) is false: a sphere with a
   two-triangle pillow glued on at two pinch vertices 1 and 4 whose only common neighbours are 0 and 10 *)
Definition cex_surface : list ltri :=
  map (fun t : tri => (t, 0%nat))
    [(0,1,2);(0,2,3);(0,3,4);(0,4,5);(0,5,6);(0,6,1);
     (2,1,7);(1,6,7);(2,7,8);(3,2,8);(4,3,8);(4,8,9);(5,4,9);(6,5,9);(6,9,7);(7,9,8);
     (1,4,10);(4,1,10)].

Lemma collapse_valid_false :
  ~ (forall (s : list ltri) (a b i : N),
       ValidSurface (tris s) -> In (a, b) (all_hedges (tris s)) -> ~ In i (all_nodes (tris s)) ->
       link_ok s a b = true -> (4 < n_vertices (tris s))%nat ->
       ValidSurface (tris (collapse s a b i))).
Proof.
  intros Hall. specialize (Hall cex_surface 1 4 11).
  assert (HV : ValidSurface (tris cex_surface)) by (apply valid_surface_b_spec; vm_compute; reflexivity).
  assert (Hin : In (1, 4) (all_hedges (tris cex_surface))).
  { apply mem_hedge_In. vm_compute. reflexivity. }
  assert (Hfr : ~ In 11 (all_nodes (tris cex_surface))).
  { intro X. apply memN_In in X. vm_compute in X. discriminate. }
  assert (Hlk : link_ok cex_surface 1 4 = true) by (vm_compute; reflexivity).
  assert (Hv : (4 < n_vertices (tris cex_surface))%nat) by (vm_compute; lia).
  specialize (Hall HV Hin Hfr Hlk Hv). apply valid_surface_b_spec in Hall. vm_compute in Hall. discriminate.
Qed.

(* ------------------------------------------------------------------ replay of a well-formed trace *)
Lemma apply_op_valid (dynamic : bool) (st st' : mstateR) (o : op) :
  ValidSurface (tris (ms_faces st)) -> op_wf st o -> apply_op NumR dynamic st o = Some st' ->
  ValidSurface (tris (ms_faces st')).
Proof.
  intros HV Hwf Hap. destruct o as [a b e|a b i|a b]; cbn [op_wf apply_op] in Hwf, Hap.
  - destruct Hwf as (Hab & Hfr & Hapx & _).
    destruct (nget (ms_nodes st) a) as [na|]; [|discriminate].
    destruct (nget (ms_nodes st) b) as [nb|]; [|discriminate].
    destruct (negb (edge_exists (ms_faces st) a b)); [discriminate|].
    injection Hap as <-. cbn [ms_faces]. apply split_valid; assumption.
  - destruct Hwf as (Hab & Hfr & Hlk & Hapx & _).
    destruct (nget (ms_nodes st) a) as [na|]; [|discriminate].
    destruct (nget (ms_nodes st) b) as [nb|]; [|discriminate].
    destruct (negb (edge_exists (ms_faces st) a b)); [discriminate|].
    injection Hap as <-. cbn [ms_faces]. apply collapse_valid; assumption.
  - destruct Hwf as (Hab & Hapx & Hee).
    destruct (swap (ms_faces st) a b) as [fs|] eqn:Esw; [|discriminate].
    injection Hap as <-. cbn [ms_faces]. apply (swap_valid (ms_faces st) fs a b); assumption.
Qed.

Lemma replay_valid : forall (dynamic : bool) (ops : list op) (st st' : mstateR),
  ValidSurface (tris (ms_faces st)) -> trace_wf dynamic st ops ->
  replay NumR dynamic st ops = Some st' -> ValidSurface (tris (ms_faces st')).
Proof.
  intros dynamic ops. induction ops as [|o r IH]; intros st st' HV Hwf Hre; cbn [replay trace_wf] in Hwf, Hre.
  - injection Hre as <-. exact HV.
  - destruct Hwf as [Hop Hrest]. destruct (apply_op NumR dynamic st o) as [st1|] eqn:Eap; [|discriminate].
    apply (IH st1 st'); [|exact Hrest|exact Hre]. apply (apply_op_valid dynamic st st1 o); assumption.
Qed.

(* non-vacuity of the collapse theorem: an edge of the octahedron *)
Example octa_collapse :
  let s := [((0,2,4),0%nat); ((2,1,4),0%nat); ((1,3,4),0%nat); ((3,0,4),0%nat);
            ((2,0,5),0%nat); ((1,2,5),0%nat); ((3,1,5),0%nat); ((0,3,5),0%nat)] in
  link_ok s 0 2 = true /\ apex s 0 2 <> apex s 2 0 /\ valid_surface_b (tris (collapse s 0 2 6)) = true.
Proof. vm_compute. repeat split; try reflexivity. discriminate. Qed.
