(* GridProofs.v — proofs of the C20 statements (Properties_C20.v) about the grid model of Grid.v,
   instantiated at R with Flocq's Zfloor / Zceil.  No axiom besides those of the standard Reals. *)
From Coq Require Import Reals ZArith Bool List Lia Lra Permutation.
From Flocq Require Import Core.Raux.
From SC Require Import Num Grid.
Import ListNotations.

(* ================================================================ 1. integer facts: in_range, flat, nvox *)
Section IntFacts.
  Context {T : Type}.
  Local Open Scope Z_scope.

  Lemma in_range_spec (g : dims (T:=T)) nx ny nz x y z :
    d_nb g = (nx, ny, nz) ->
    (in_range g (x, y, z) = true <-> (0 <= x < nx /\ 0 <= y < ny /\ 0 <= z < nz)).
  Proof.
    intros E. unfold in_range. rewrite E.
    rewrite !andb_true_iff, !Z.leb_le, !Z.ltb_lt. lia.
  Qed.

  Lemma flat_spec (g : dims (T:=T)) nx ny nz x y z :
    d_nb g = (nx, ny, nz) -> flat g (x, y, z) = z * nx * ny + y * nx + x.
  Proof. intros E. unfold flat. rewrite E. reflexivity. Qed.

  Lemma nvox_spec (g : dims (T:=T)) nx ny nz :
    d_nb g = (nx, ny, nz) -> nvox g = nx * ny * nz.
  Proof. intros E. unfold nvox. rewrite E. reflexivity. Qed.

  (* one digit of a mixed-radix number *)
  Lemma radix_inj n a b x y :
    0 <= x < n -> 0 <= y < n -> a * n + x = b * n + y -> a = b /\ x = y.
  Proof.
    intros Hx Hy E.
    assert (Hab : a = b).
    { destruct (Z.lt_trichotomy a b) as [Hlt | [Heq | Hgt]]; [exfalso | exact Heq | exfalso].
      - assert (H1 : (a + 1) * n <= b * n) by (apply Z.mul_le_mono_nonneg_r; lia). lia.
      - assert (H1 : (b + 1) * n <= a * n) by (apply Z.mul_le_mono_nonneg_r; lia). lia. }
    subst b. split; [reflexivity | lia].
  Qed.

  Lemma flat_inj_gen (g : dims (T:=T)) (i j : Z * Z * Z) :
    in_range g i = true -> in_range g j = true -> flat g i = flat g j -> i = j.
  Proof.
    destruct i as [[x y] z]. destruct j as [[x' y'] z'].
    destruct (d_nb g) as [[nx ny] nz] eqn:E.
    rewrite (in_range_spec g nx ny nz x y z E), (in_range_spec g nx ny nz x' y' z' E).
    rewrite (flat_spec g nx ny nz x y z E), (flat_spec g nx ny nz x' y' z' E).
    intros (Hx & Hy & Hz) (Hx' & Hy' & Hz') Hf.
    assert (H1 : (z * ny + y) * nx + x = (z' * ny + y') * nx + x') by lia.
    destruct (radix_inj nx _ _ x x' Hx Hx' H1) as [H2 H3].
    destruct (radix_inj ny _ _ y y' Hy Hy' H2) as [H4 H5].
    subst. reflexivity.
  Qed.

  Lemma flat_bounds_gen (g : dims (T:=T)) (i : Z * Z * Z) :
    in_range g i = true -> 0 <= flat g i < nvox g.
  Proof.
    destruct i as [[x y] z].
    destruct (d_nb g) as [[nx ny] nz] eqn:E.
    rewrite (in_range_spec g nx ny nz x y z E), (flat_spec g nx ny nz x y z E), (nvox_spec g nx ny nz E).
    intros (Hx & Hy & Hz).
    assert (H0 : 0 <= z * ny + y) by nia.
    assert (H1 : z * ny + y <= nz * ny - 1).
    { assert (H : (z + 1) * ny <= nz * ny) by (apply Z.mul_le_mono_nonneg_r; lia). lia. }
    assert (H2 : 0 <= (z * ny + y) * nx) by (apply Z.mul_nonneg_nonneg; lia).
    assert (H3 : (z * ny + y) * nx <= (nz * ny - 1) * nx) by (apply Z.mul_le_mono_nonneg_r; lia).
    lia.
  Qed.
End IntFacts.

(* ================================================================ 2. lists: upd, nth, repeat, zrange, products *)
Section ListFacts.
  Lemma upd_length {B} (l : list B) n f : length (upd l n f) = length l.
  Proof.
    revert n. induction l as [| a r IH]; intros n; [reflexivity |].
    destruct n as [| k]; cbn [upd length]; [reflexivity | rewrite IH; reflexivity].
  Qed.

  Lemma nth_upd_same {B} (l : list B) n f d :
    (n < length l)%nat -> nth n (upd l n f) d = f (nth n l d).
  Proof.
    revert n. induction l as [| a r IH]; intros n Hn; cbn [length] in Hn; [lia |].
    destruct n as [| k]; cbn [upd nth]; [reflexivity | apply IH; lia].
  Qed.

  Lemma nth_upd_other {B} (l : list B) n m f d :
    n <> m -> nth m (upd l n f) d = nth m l d.
  Proof.
    revert n m. induction l as [| a r IH]; intros n m Hnm; [reflexivity |].
    destruct n as [| k]; destruct m as [| j]; cbn [upd nth]; try reflexivity; [lia | apply IH; lia].
  Qed.

  Lemma nth_repeat_default {B} (d : B) n k : nth k (repeat d n) d = d.
  Proof.
    revert k. induction n as [| n IH]; intros k; destruct k as [| k]; cbn [repeat nth]; auto.
  Qed.

  Lemma in_zrange a b k : In k (zrange a b) <-> (a <= k < b)%Z.
  Proof.
    unfold zrange. rewrite in_map_iff. split.
    - intros (n & Hn & Hin). apply in_seq in Hin. lia.
    - intros H. exists (Z.to_nat (k - a)). split; [lia | apply in_seq; lia].
  Qed.

  Lemma NoDup_zrange a b : NoDup (zrange a b).
  Proof.
    unfold zrange. apply FinFun.Injective_map_NoDup; [| apply seq_NoDup].
    intros x y H. lia.
  Qed.

  Lemma NoDup_app_disj {B} (l1 l2 : list B) :
    NoDup l1 -> NoDup l2 -> (forall x, In x l1 -> ~ In x l2) -> NoDup (l1 ++ l2).
  Proof.
    induction l1 as [| a r IH]; intros H1 H2 Hd; cbn [app]; [exact H2 |].
    inversion H1 as [| a' r' Hna Hr]; subst.
    constructor.
    - rewrite in_app_iff. intros [Hin | Hin]; [contradiction |].
      apply (Hd a); [left; reflexivity | exact Hin].
    - apply IH; [exact Hr | exact H2 |]. intros x Hx. apply Hd. right. exact Hx.
  Qed.

  Lemma NoDup_flat_map {B C} (f : B -> list C) (l : list B) :
    NoDup l -> (forall a, In a l -> NoDup (f a)) ->
    (forall a a' c, In a l -> In a' l -> In c (f a) -> In c (f a') -> a = a') ->
    NoDup (flat_map f l).
  Proof.
    induction l as [| a r IH]; intros Hl Hf Hinj; cbn [flat_map]; [constructor |].
    inversion Hl as [| a' r' Hna Hr]; subst.
    apply NoDup_app_disj.
    - apply Hf. left. reflexivity.
    - apply IH; [exact Hr | |].
      + intros b Hb. apply Hf. right. exact Hb.
      + intros b b' c Hb Hb'. apply Hinj; right; assumption.
    - intros c Hc Hc'. apply in_flat_map in Hc'. destruct Hc' as (b & Hb & Hcb).
      assert (E : a = b).
      { apply (Hinj a b c); [left; reflexivity | right; exact Hb | exact Hc | exact Hcb]. }
      subst b. contradiction.
  Qed.

  (* the triple product used by block and all_voxels *)
  Definition prod3 (lx ly lz : list Z) : list (Z * Z * Z) :=
    flat_map (fun x => flat_map (fun y => map (fun z => (x, y, z)) lz) ly) lx.

  Lemma in_prod3 lx ly lz x y z :
    In (x, y, z) (prod3 lx ly lz) <-> In x lx /\ In y ly /\ In z lz.
  Proof.
    unfold prod3. rewrite in_flat_map. split.
    - intros (x' & Hx & H). rewrite in_flat_map in H. destruct H as (y' & Hy & H).
      rewrite in_map_iff in H. destruct H as (z' & E & Hz). inversion E; subst. auto.
    - intros (Hx & Hy & Hz). exists x. split; [exact Hx |].
      apply in_flat_map. exists y. split; [exact Hy |].
      apply in_map_iff. exists z. split; [reflexivity | exact Hz].
  Qed.

  Lemma NoDup_prod3 lx ly lz : NoDup lx -> NoDup ly -> NoDup lz -> NoDup (prod3 lx ly lz).
  Proof.
    intros Hx Hy Hz. unfold prod3. apply NoDup_flat_map; [exact Hx | |].
    - intros x _. apply NoDup_flat_map; [exact Hy | |].
      + intros y _. apply FinFun.Injective_map_NoDup; [| exact Hz].
        intros z z' E. inversion E. reflexivity.
      + intros y y' c _ _ H1 H2. apply in_map_iff in H1. apply in_map_iff in H2.
        destruct H1 as (z & E1 & _). destruct H2 as (z' & E2 & _). subst c.
        inversion E2. reflexivity.
    - intros x x' c _ _ H1 H2. apply in_flat_map in H1. apply in_flat_map in H2.
      destruct H1 as (y & _ & H1). destruct H2 as (y' & _ & H2).
      apply in_map_iff in H1. apply in_map_iff in H2.
      destruct H1 as (z & E1 & _). destruct H2 as (z' & E2 & _). subst c.
      inversion E2. reflexivity.
  Qed.

  Lemma flat_map_ext_in' {B C} (f f' : B -> list C) (l : list B) :
    (forall a, In a l -> f a = f' a) -> flat_map f l = flat_map f' l.
  Proof.
    induction l as [| a r IH]; intros H; cbn [flat_map]; [reflexivity |].
    rewrite (H a (or_introl eq_refl)). rewrite IH; [reflexivity |].
    intros b Hb. apply H. right. exact Hb.
  Qed.

  Lemma flat_map_nil {B C} (f : B -> list C) (l : list B) :
    (forall a, In a l -> f a = []) -> flat_map f l = [].
  Proof.
    induction l as [| a r IH]; intros H; cbn [flat_map]; [reflexivity |].
    rewrite (H a (or_introl eq_refl)). cbn [app]. apply IH.
    intros b Hb. apply H. right. exact Hb.
  Qed.

  (* changing the value at exactly one key of a duplicate-free list of keys adds one element *)
  Lemma flat_map_place {B C} (c c' : B -> list C) (i : B) (o : C) (l : list B) :
    c' i = o :: c i -> (forall v, In v l -> v <> i -> c' v = c v) ->
    NoDup l -> In i l -> Permutation (flat_map c' l) (o :: flat_map c l).
  Proof.
    intros Hi. induction l as [| a r IH]; intros Ho Hl Hin; [destruct Hin |].
    inversion Hl as [| a' r' Hna Hr]; subst. cbn [flat_map].
    destruct Hin as [E | Hin].
    - subst a. rewrite Hi.
      rewrite (flat_map_ext_in' c' c r).
      + cbn [app]. apply Permutation_refl.
      + intros b Hb. apply Ho; [right; exact Hb |]. intros E. subst b. contradiction.
    - assert (Hai : a <> i) by (intros E; subst a; contradiction).
      rewrite (Ho a (or_introl eq_refl) Hai).
      apply Permutation_trans with (c a ++ o :: flat_map c r).
      + apply Permutation_app_head. apply IH; [| exact Hr | exact Hin].
        intros v Hv. apply Ho. right. exact Hv.
      + apply Permutation_sym. apply (Permutation_middle (c a) (flat_map c r) o).
  Qed.
End ListFacts.

(* ================================================================ 3. the front-inserting fold *)
Section Fold.
  Context {A V : Type}.

  Lemma fold_fi_perm (c : V -> list A) (l : list V) (acc : list A) :
    Permutation (fold_left (fun acc v => front_insert acc (c v)) l acc) (flat_map c l ++ acc).
  Proof.
    revert acc. induction l as [| a r IH]; intros acc; cbn [fold_left flat_map app].
    - apply Permutation_refl.
    - eapply Permutation_trans; [apply IH |]. unfold front_insert.
      rewrite <- app_assoc.
      apply Permutation_trans with (flat_map c r ++ c a ++ acc).
      + apply Permutation_app_head. apply Permutation_app_tail.
        apply Permutation_sym. apply Permutation_rev.
      + rewrite !app_assoc. apply Permutation_app_tail. apply Permutation_app_comm.
  Qed.

  Lemma fold_fi_in (c : V -> list A) (l : list V) (acc : list A) (o : A) :
    In o (fold_left (fun acc v => front_insert acc (c v)) l acc) <->
    In o acc \/ exists v, In v l /\ In o (c v).
  Proof.
    split.
    - intros H. apply (Permutation_in _ (fold_fi_perm c l acc)) in H.
      apply in_app_iff in H. destruct H as [H | H]; [right | left; exact H].
      apply in_flat_map in H. exact H.
    - intros H. apply (Permutation_in _ (Permutation_sym (fold_fi_perm c l acc))).
      apply in_app_iff. destruct H as [H | H]; [right; exact H | left].
      apply in_flat_map. exact H.
  Qed.
End Fold.

(* ================================================================ 4. stores: place / content *)
Section StoreFacts.
  Context {T : Type} (N : Num T) (floorZ : T -> Z) {A : Type}.

  Lemma flat_lt_length (g : dims (T:=T)) (i : Z * Z * Z) (n : nat) :
    n = Z.to_nat (nvox g) -> in_range g i = true -> (Z.to_nat (flat g i) < n)%nat.
  Proof. intros Hn Hr. pose proof (flat_bounds_gen g i Hr) as Hb. lia. Qed.

  Lemma place_retrieve_gen (g : dims (T:=T)) (st st' : store (A:=A)) (p : T * T * T) (o : A) :
    length st = Z.to_nat (nvox g) ->
    place N floorZ g st p o = Some st' ->
    In o (content st' (flat g (idx3 N floorZ g p))) /\
    length st' = length st /\
    (forall v, (0 <= v)%Z -> v <> flat g (idx3 N floorZ g p) -> content st' v = content st v).
  Proof.
    intros Hlen Hpl. unfold place in Hpl.
    destruct (in_range g (idx3 N floorZ g p)) eqn:Hr; [| discriminate].
    inversion Hpl as [Hst]. clear Hpl.
    pose proof (flat_bounds_gen g _ Hr) as Hb.
    pose proof (flat_lt_length g _ _ Hlen Hr) as Hlt.
    unfold place_id, content. split; [| split].
    - rewrite nth_upd_same by exact Hlt. left. reflexivity.
    - apply upd_length.
    - intros v Hv Hne. apply nth_upd_other. lia.
  Qed.

  Lemma place3_retrieve_gen (g : dims (T:=T)) (st st' : store3 (A:=A)) (p : T * T * T) (o : A) :
    length st = Z.to_nat (nvox g) ->
    place3 N floorZ g st p o = Some st' ->
    content3 st' (flat g (idx3 N floorZ g p)) = Some o.
  Proof.
    intros Hlen Hpl. unfold place3 in Hpl.
    destruct (in_range g (idx3 N floorZ g p)) eqn:Hr; [| discriminate].
    inversion Hpl as [Hst]. clear Hpl.
    pose proof (flat_lt_length g _ _ Hlen Hr) as Hlt.
    unfold content3. rewrite nth_upd_same by exact Hlt. reflexivity.
  Qed.

  (* all_voxels enumerates exactly the in-range triples, once each *)
  Lemma all_voxels_prod3 (g : dims (T:=T)) nx ny nz :
    d_nb g = (nx, ny, nz) -> all_voxels g = prod3 (zrange 0 nx) (zrange 0 ny) (zrange 0 nz).
  Proof. intros E. unfold all_voxels. rewrite E. reflexivity. Qed.

  Lemma in_all_voxels (g : dims (T:=T)) (i : Z * Z * Z) :
    In i (all_voxels g) <-> in_range g i = true.
  Proof.
    destruct i as [[x y] z]. destruct (d_nb g) as [[nx ny] nz] eqn:E.
    rewrite (all_voxels_prod3 g nx ny nz E), in_prod3, !in_zrange.
    rewrite (in_range_spec g nx ny nz x y z E). reflexivity.
  Qed.

  Lemma NoDup_all_voxels (g : dims (T:=T)) : NoDup (all_voxels g).
  Proof.
    destruct (d_nb g) as [[nx ny] nz] eqn:E.
    rewrite (all_voxels_prod3 g nx ny nz E). apply NoDup_prod3; apply NoDup_zrange.
  Qed.

  Lemma grid_content_flat_map (g : dims (T:=T)) (st : store (A:=A)) :
    Permutation (grid_content g st) (flat_map (fun v => content st (flat g v)) (all_voxels g)).
  Proof.
    unfold grid_content.
    eapply Permutation_trans;
      [apply (fold_fi_perm (fun v => content st (flat g v)) (all_voxels g) []) |].
    rewrite app_nil_r. apply Permutation_refl.
  Qed.

  Lemma grid_content_empty (g : dims (T:=T)) : grid_content g (empty_store (A:=A) g) = [].
  Proof.
    apply Permutation_nil. apply Permutation_sym.
    eapply Permutation_trans; [apply grid_content_flat_map |].
    rewrite flat_map_nil; [apply Permutation_refl |].
    intros v _. unfold content, empty_store. apply nth_repeat_default.
  Qed.

  Lemma grid_content_place (g : dims (T:=T)) (st : store (A:=A)) (i : Z * Z * Z) (o : A) :
    length st = Z.to_nat (nvox g) -> in_range g i = true ->
    Permutation (grid_content g (place_id st (flat g i) o)) (o :: grid_content g st).
  Proof.
    intros Hlen Hr.
    pose proof (flat_bounds_gen g i Hr) as Hb.
    pose proof (flat_lt_length g i _ Hlen Hr) as Hlt.
    eapply Permutation_trans; [apply grid_content_flat_map |].
    eapply Permutation_trans;
      [| apply perm_skip; apply Permutation_sym; apply grid_content_flat_map].
    apply (flat_map_place (fun v => content st (flat g v))
                          (fun v => content (place_id st (flat g i) o) (flat g v)) i o).
    - unfold content, place_id. rewrite nth_upd_same by exact Hlt. reflexivity.
    - intros v Hv Hne. apply in_all_voxels in Hv.
      pose proof (flat_bounds_gen g v Hv) as Hbv.
      unfold content, place_id. apply nth_upd_other.
      intros E. apply Hne. apply (flat_inj_gen g v i Hv Hr). lia.
    - apply NoDup_all_voxels.
    - apply in_all_voxels. exact Hr.
  Qed.
End StoreFacts.

(* ================================================================ 5. real facts: floor of nearby points *)
Section RealFacts.
  Local Open Scope R_scope.

  Lemma Zfloor_nonneg (a : R) : 0 <= a -> (0 <= Zfloor a)%Z.
  Proof.
    intros Ha. pose proof (Zfloor_ub a) as Hu.
    assert (H : IZR (-1) < IZR (Zfloor a)) by (change (IZR (-1)) with (-1); lra).
    apply lt_IZR in H. lia.
  Qed.

  Lemma Zceil_pos (a : R) : 0 < a -> (1 <= Zceil a)%Z.
  Proof.
    intros Ha. pose proof (Zceil_ub a) as Hu.
    assert (H : IZR 0 < IZR (Zceil a)) by (change (IZR 0) with 0; lra).
    apply lt_IZR in H. lia.
  Qed.

  Lemma floor_close (a b : R) : -1 <= a - b <= 1 -> (Z.abs (Zfloor a - Zfloor b) <= 1)%Z.
  Proof.
    intros [Hl Hu].
    pose proof (Zfloor_lb a) as Ha1. pose proof (Zfloor_ub a) as Ha2.
    pose proof (Zfloor_lb b) as Hb1. pose proof (Zfloor_ub b) as Hb2.
    assert (H1 : IZR (Zfloor a) < IZR (Zfloor b + 2)) by (rewrite plus_IZR; lra).
    assert (H2 : IZR (Zfloor b) < IZR (Zfloor a + 2)) by (rewrite plus_IZR; lra).
    apply lt_IZR in H1. apply lt_IZR in H2. lia.
  Qed.

  Lemma div_diff_close (s l x y : R) :
    0 < s -> Rabs (x - y) <= s -> -1 <= (x - l) / s - (y - l) / s <= 1.
  Proof.
    intros Hs Hd.
    assert (Hxy : - s <= x - y <= s).
    { unfold Rabs in Hd. destruct (Rcase_abs (x - y)) as [Hn | Hp]; lra. }
    assert (Hr : 0 < / s) by (apply Rinv_0_lt_compat; exact Hs).
    assert (Hrs : s * / s = 1) by (field; lra).
    assert (E : (x - l) / s - (y - l) / s = (x - y) * / s) by (unfold Rdiv; ring).
    rewrite E.
    pose proof (Rmult_le_compat_r (/ s) (x - y) s (Rlt_le _ _ Hr) (proj2 Hxy)) as H1.
    pose proof (Rmult_le_compat_r (/ s) (- s) (x - y) (Rlt_le _ _ Hr) (proj1 Hxy)) as H2.
    split; lra.
  Qed.

  (* one coordinate of index_in_range *)
  Lemma idx1_range (eps s lx hx x : R) :
    0 <= eps -> 0 < s -> lx < hx -> lx <= x <= hx ->
    let nb := count1 NumR Zceil eps lx hx s in
    (0 <= idx1 NumR Zfloor (lx - eps)%R s nb x < nb)%Z.
  Proof.
    intros He Hs Hbox Hx nb.
    assert (Hnb : (1 <= nb)%Z).
    { unfold nb, count1. cbn [NumR nadd nsub ndiv]. apply Zceil_pos.
      apply Rdiv_lt_0_compat; lra. }
    assert (Hraw : (0 <= raw_idx1 NumR Zfloor (lx - eps)%R s x)%Z).
    { unfold raw_idx1. cbn [NumR nadd nsub ndiv]. apply Zfloor_nonneg.
      apply Rle_mult_inv_pos; lra. }
    unfold idx1. lia.
  Qed.

  (* one coordinate of the neighbourhood block *)
  Lemma idx1_block (eps s lx hx x y : R) :
    0 <= eps -> 0 < s -> lx < hx -> lx <= x <= hx -> lx <= y <= hx -> Rabs (x - y) <= s ->
    let nb := count1 NumR Zceil eps lx hx s in
    let i := idx1 NumR Zfloor (lx - eps)%R s nb x in
    let j := idx1 NumR Zfloor (lx - eps)%R s nb y in
    (nb_lo i <= j < nb_hi nb i)%Z.
  Proof.
    intros He Hs Hbox Hx Hy Hd nb i j.
    pose proof (idx1_range eps s lx hx x He Hs Hbox Hx) as Hi.
    pose proof (idx1_range eps s lx hx y He Hs Hbox Hy) as Hj.
    cbv zeta in Hi, Hj. fold nb in Hi, Hj. fold i in Hi. fold j in Hj.
    assert (Hc : (Z.abs (raw_idx1 NumR Zfloor (lx - eps)%R s x - raw_idx1 NumR Zfloor (lx - eps)%R s y) <= 1)%Z).
    { unfold raw_idx1. cbn [NumR nadd nsub ndiv]. apply floor_close.
      apply div_diff_close; assumption. }
    assert (Hij : (Z.abs (i - j) <= 1)%Z) by (unfold i, j, idx1; lia).
    clearbody i j nb. unfold nb_lo, nb_hi.
    destruct (Z.eqb_spec i 0) as [E0 | E0]; destruct (Z.eqb_spec i (nb - 1)) as [E1 | E1]; lia.
  Qed.
End RealFacts.

(* ================================================================ 6. the statements of Properties_C20.v *)
Section Statements.
  Local Open Scope R_scope.

  Notation dimsR := (update_dimensions NumR Zceil).
  Notation idx3R := (idx3 NumR Zfloor).

  Definition gp_in_box (lo hi p : R * R * R) : Prop :=
    let '(lx, ly, lz) := lo in let '(hx, hy, hz) := hi in let '(x, y, z) := p in
    lx <= x <= hx /\ ly <= y <= hy /\ lz <= z <= hz.
  Definition gp_box_ok (lo hi : R * R * R) : Prop :=
    let '(lx, ly, lz) := lo in let '(hx, hy, hz) := hi in lx < hx /\ ly < hy /\ lz < hz.

  (* 1 *)
  Lemma index_in_range_R : forall (eps s : R) (lo hi p : R * R * R),
    0 <= eps -> 0 < s -> gp_box_ok lo hi -> gp_in_box lo hi p ->
    in_range (dimsR eps s lo hi) (idx3R (dimsR eps s lo hi) p) = true.
  Proof.
    intros eps s [[lx ly] lz] [[hx hy] hz] [[x y] z] He Hs (Bx & By & Bz) (Hx & Hy & Hz).
    unfold update_dimensions, idx3. cbn [d_lo d_nb d_s].
    eapply in_range_spec; [reflexivity |].
    pose proof (idx1_range eps s lx hx x He Hs Bx Hx) as H1.
    pose proof (idx1_range eps s ly hy y He Hs By Hy) as H2.
    pose proof (idx1_range eps s lz hz z He Hs Bz Hz) as H3.
    cbv zeta in H1, H2, H3.
    split; [exact H1 | split; [exact H2 | exact H3]].
  Qed.

  (* 2 *)
  Lemma flat_inj : forall (g : dims (T:=R)) (i j : Z * Z * Z),
    in_range g i = true -> in_range g j = true -> flat g i = flat g j -> i = j.
  Proof. exact flat_inj_gen. Qed.

  Lemma flat_bounds : forall (g : dims (T:=R)) (i : Z * Z * Z),
    in_range g i = true -> (0 <= flat g i < nvox g)%Z.
  Proof. exact flat_bounds_gen. Qed.

  (* 3 *)
  Lemma place_retrieve : forall (A : Type) (g : dims (T:=R)) (st st' : store (A:=A)) (p : R * R * R) (o : A),
    length st = Z.to_nat (nvox g) ->
    place NumR Zfloor g st p o = Some st' ->
    In o (content st' (flat g (idx3R g p))) /\
    length st' = length st /\
    (forall v, (0 <= v)%Z -> v <> flat g (idx3R g p) -> content st' v = content st v).
  Proof. intros A. exact (place_retrieve_gen NumR Zfloor). Qed.

  Lemma place3_retrieve : forall (A : Type) (g : dims (T:=R)) (st st' : store3 (A:=A)) (p : R * R * R) (o : A),
    length st = Z.to_nat (nvox g) ->
    place3 NumR Zfloor g st p o = Some st' ->
    content3 st' (flat g (idx3R g p)) = Some o.
  Proof. intros A. exact (place3_retrieve_gen NumR Zfloor). Qed.

  (* 4 — same fixpoint as Properties_C20.place_all (convertible by unfolding) *)
  Fixpoint gp_place_all {A} (g : dims (T:=R)) (st : store (A:=A)) (l : list ((R * R * R) * A)) : option (store (A:=A)) :=
    match l with
    | [] => Some st
    | (p, o) :: r => match place NumR Zfloor g st p o with Some st' => gp_place_all g st' r | None => None end
    end.

  Lemma place_all_perm (A : Type) (g : dims (T:=R)) (l : list ((R * R * R) * A)) :
    forall st st' : store (A:=A),
    length st = Z.to_nat (nvox g) ->
    gp_place_all g st l = Some st' ->
    Permutation (grid_content g st') (rev (map snd l) ++ grid_content g st).
  Proof.
    induction l as [| [p o] r IH]; intros st st' Hlen Hpl; cbn [gp_place_all] in Hpl.
    - inversion Hpl. subst st'. cbn [map rev app]. apply Permutation_refl.
    - destruct (place NumR Zfloor g st p o) as [st1 |] eqn:Hp; [| discriminate].
      destruct (place_retrieve_gen NumR Zfloor g st st1 p o Hlen Hp) as (_ & Hlen1 & _).
      assert (Hl1 : length st1 = Z.to_nat (nvox g)) by (rewrite Hlen1; exact Hlen).
      eapply Permutation_trans; [apply (IH st1 st' Hl1 Hpl) |].
      unfold place in Hp.
      destruct (in_range g (idx3 NumR Zfloor g p)) eqn:Hr; [| discriminate].
      inversion Hp as [Hst1]. clear Hp.
      cbn [map snd rev]. rewrite <- app_assoc. cbn [app].
      apply Permutation_app_head.
      apply (grid_content_place g st _ o Hlen Hr).
  Qed.

  Lemma content_perm : forall (A : Type) (g : dims (T:=R)) (l : list ((R * R * R) * A)) (st : store (A:=A)),
    (let '(nx, ny, nz) := d_nb g in 0 <= nx /\ 0 <= ny /\ 0 <= nz)%Z ->
    gp_place_all g (empty_store g) l = Some st ->
    Permutation (grid_content g st) (map snd l).
  Proof.
    intros A g l st _ Hpl.
    assert (Hlen : length (empty_store (A:=A) g) = Z.to_nat (nvox g)).
    { unfold empty_store. apply repeat_length. }
    eapply Permutation_trans; [apply (place_all_perm A g l _ st Hlen Hpl) |].
    rewrite grid_content_empty, app_nil_r.
    apply Permutation_sym. apply Permutation_rev.
  Qed.

  (* 5 *)
  Lemma block_prod3 {T} (g : dims (T:=T)) nx ny nz ix iy iz :
    d_nb g = (nx, ny, nz) ->
    block g (ix, iy, iz) =
    prod3 (zrange (nb_lo ix) (nb_hi nx ix)) (zrange (nb_lo iy) (nb_hi ny iy)) (zrange (nb_lo iz) (nb_hi nz iz)).
  Proof. intros E. unfold block. rewrite E. reflexivity. Qed.

  Lemma nbh_complete : forall (A : Type) (eps s : R) (lo hi p q : R * R * R) (st : store (A:=A)) (o : A),
    0 <= eps -> 0 < s -> gp_box_ok lo hi -> gp_in_box lo hi p -> gp_in_box lo hi q ->
    (let '(px, py, pz) := p in let '(qx, qy, qz) := q in
     Rabs (px - qx) <= s /\ Rabs (py - qy) <= s /\ Rabs (pz - qz) <= s) ->
    let g := dimsR eps s lo hi in
    In o (content st (flat g (idx3R g q))) ->
    In o (neighborhood NumR Zfloor g st p).
  Proof.
    intros A eps s [[lx ly] lz] [[hx hy] hz] [[px py] pz] [[qx qy] qz] st o
           He Hs (Bx & By & Bz) (Px & Py & Pz) (Qx & Qy & Qz) (Dx & Dy & Dz) g Ho.
    unfold neighborhood, neighborhood_idx.
    apply (fold_fi_in (fun v => content st (flat g v))). right.
    exists (idx3 NumR Zfloor g (qx, qy, qz)). split; [| exact Ho].
    unfold g, update_dimensions, idx3. cbn [d_lo d_nb d_s].
    erewrite block_prod3 by reflexivity.
    apply in_prod3. rewrite !in_zrange.
    pose proof (idx1_block eps s lx hx px qx He Hs Bx Px Qx Dx) as H1.
    pose proof (idx1_block eps s ly hy py qy He Hs By Py Qy Dy) as H2.
    pose proof (idx1_block eps s lz hz pz qz He Hs Bz Pz Qz Dz) as H3.
    cbv zeta in H1, H2, H3.
    split; [exact H1 | split; [exact H2 | exact H3]].
  Qed.

  Lemma nbh_sound : forall (A : Type) (g : dims (T:=R)) (st : store (A:=A)) (p : R * R * R) (o : A),
    In o (neighborhood NumR Zfloor g st p) ->
    exists v, In v (block g (idx3R g p)) /\ In o (content st (flat g v)).
  Proof.
    intros A g st p o H. unfold neighborhood, neighborhood_idx in H.
    apply (fold_fi_in (fun v => content st (flat g v))) in H.
    destruct H as [[] | H]. exact H.
  Qed.
End Statements.
