(* PopulationSpec.v — the invariant and the event histories of the C08 statements *)
From Coq Require Import NArith Arith Bool List Lia.
From SC Require Import Population.
Import ListNotations.
Local Open Scope N_scope.

(* the invariant: list index = position, persistent ids unique and below the id counter *)
Definition PopInv (p : pop) : Prop :=
  (forall k c, nth_error (p_cells p) k = Some c -> p_local c = k) /\
  NoDup (ids p) /\
  (forall i, In i (ids p) -> i < p_counter p).

Definition event_ok (p : pop) (e : pevent) : Prop :=
  match e with
  | EvDivide ms => NoDup ms /\ (forall m, In m ms -> (m < length (p_cells p))%nat)
  | EvRemove _ => True
  end.

Fixpoint run (es : list pevent) (p : pop) : pop := match es with [] => p | e :: r => run r (pstep p e) end.
Fixpoint events_ok (es : list pevent) (p : pop) : Prop :=
  match es with [] => True | e :: r => event_ok p e /\ events_ok r (pstep p e) end.

