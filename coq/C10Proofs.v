(* C10Proofs.v — proofs of the C10 statements (Properties_C10.v):
   1. the reference-lifetime discipline of Lifetime.v is sound (safe_prog_sound);
   2. the contact phase of Contact.v, at R with Flocq's Zfloor / Zceil, never takes an out-of-range branch on a
      well-formed tissue (contact_phase_total).
   No axiom besides those of the standard Reals (the first theorem is closed). *)
From Coq Require Import Reals Lra Lia ZArith Bool List Arith.
From Flocq Require Import Core.Raux.
From SC Require Import Num Vec3 VecR Grid GridProofs Contact ContactProofsA ContactProofsB Lifetime.
Import ListNotations.

(* ================================================================ 1. reference lifetimes *)
Section LifetimeProofs.
  (* every reference taken since the last push was recorded with the current generation *)
  Definition linv (live : list nat) (s : lstate) : Prop :=
    forall r g, In r live -> In (r, g) (l_refs s) -> g = l_gen s.

  Lemma safe_from_sound : forall prog live s,
    safe_from live prog = true -> linv live s -> l_stale s = false -> l_stale (lrun prog s) = false.
  Proof.
    induction prog as [| a prog IH]; intros live s Hsafe Hinv Hst.
    - exact Hst.
    - unfold lrun. cbn [fold_left]. fold (lrun prog (lstep s a)).
      destruct a as [r | | r | ]; cbn [safe_from] in Hsafe.
      + (* Borrow *)
        apply (IH (r :: live)); [exact Hsafe | | exact Hst].
        intros r' g Hr' Hin. cbn [lstep l_refs l_gen] in Hin |- *. destruct Hin as [E | Hin].
        * injection E as _ E. symmetry. exact E.
        * apply filter_In in Hin. destruct Hin as [Hin Hne]. cbn [fst] in Hne.
          apply negb_true_iff in Hne. apply Nat.eqb_neq in Hne.
          destruct Hr' as [E | Hr']; [exfalso; apply Hne; symmetry; exact E |].
          exact (Hinv r' g Hr' Hin).
      + (* Push *)
        apply (IH []); [exact Hsafe | intros r g [] |].
        cbn [lstep]. destruct (Nat.ltb (l_size s) (l_cap s)); exact Hst.
      + (* Use *)
        apply andb_true_iff in Hsafe. destruct Hsafe as [Hlive Hsafe].
        apply (IH live); [exact Hsafe | exact Hinv |].
        cbn [lstep l_stale]. rewrite Hst. cbn [orb].
        destruct (existsb (fun p => Nat.eqb (fst p) r && negb (Nat.eqb (snd p) (l_gen s))) (l_refs s)) eqn:E;
          [| reflexivity].
        exfalso. apply existsb_exists in E. destruct E as [[r' g] [Hin Hp]]. cbn [fst snd] in Hp.
        apply andb_true_iff in Hp. destruct Hp as [H1 H2]. apply Nat.eqb_eq in H1. subst r'.
        apply negb_true_iff in H2. apply Nat.eqb_neq in H2. apply H2.
        apply existsb_exists in Hlive. destruct Hlive as [x [Hx Ex]]. apply Nat.eqb_eq in Ex. subst x.
        exact (Hinv r g Hx Hin).
      + (* IndexUse *)
        apply (IH live); assumption.
  Qed.

  Theorem safe_prog_sound : forall prog s,
    safe_prog prog = true -> l_stale s = false -> l_refs s = [] -> l_stale (lrun prog s) = false.
  Proof.
    intros prog s Hsafe Hst _. apply (safe_from_sound prog [] s Hsafe); [| exact Hst].
    intros r g [].
  Qed.
End LifetimeProofs.

(* ================================================================ 2. generic lemmas on option folds and lists *)
Local Open Scope R_scope.

Section Generic.
  Lemma fold_opt_total {S A} (f : option S -> A -> option S) (P : S -> Prop) (Q : A -> Prop) :
    (forall s a, P s -> Q a -> exists s', f (Some s) a = Some s' /\ P s') ->
    forall l s, P s -> (forall a, In a l -> Q a) -> exists r, fold_left f l (Some s) = Some r /\ P r.
  Proof.
    intros Hstep l. induction l as [| a l' IH]; intros s Hs HQ; cbn [fold_left].
    - exists s. split; [reflexivity | exact Hs].
    - destruct (Hstep s a Hs (HQ a (or_introl eq_refl))) as [s1 [E1 P1]]. rewrite E1.
      apply IH; [exact P1 |]. intros b Hb. apply HQ. right. exact Hb.
  Qed.

  Lemma all_some_total {A B} (h : A -> option B) (l : list A) :
    (forall x, In x l -> exists y, h x = Some y) -> exists r, all_some (map h l) = Some r.
  Proof.
    induction l as [| x l' IH]; intros H; cbn [map all_some].
    - exists []. reflexivity.
    - destruct (H x (or_introl eq_refl)) as [y Ey]. rewrite Ey.
      destruct IH as [r Er]; [intros z Hz; apply H; right; exact Hz |].
      rewrite Er. cbn [option_map]. exists (y :: r). reflexivity.
  Qed.

  Lemma all_some_in {A B} (h : A -> option B) (l : list A) r x :
    all_some (map h l) = Some r -> In x l -> exists y, h x = Some y /\ In y r.
  Proof.
    revert r. induction l as [| a l' IH]; intros r H Hin; [destruct Hin |].
    cbn [map all_some] in H. destruct (h a) as [ya |] eqn:Ea; [| discriminate H].
    destruct (all_some (map h l')) as [r' |] eqn:Er; cbn [option_map] in H; [| discriminate H].
    injection H as H. subst r. destruct Hin as [E | Hin].
    - subst a. exists ya. split; [exact Ea | left; reflexivity].
    - destruct (IH r' eq_refl Hin) as [y [Ey Hy]]. exists y. split; [exact Ey | right; exact Hy].
  Qed.

  Lemma In_combine_seq_conv {A} (s : list A) : forall k i c,
    nth_error s i = Some c -> In ((k + i)%nat, c) (combine (seq k (length s)) s).
  Proof.
    induction s as [| x r IH]; intros k i c H; [destruct i; discriminate H |].
    cbn [length seq combine]. destruct i as [| i']; cbn [nth_error] in H.
    - injection H as H. subst x. left. rewrite Nat.add_0_r. reflexivity.
    - right. replace (k + S i')%nat with (S k + i')%nat by lia. apply IH. exact H.
  Qed.

  Lemma nth_error_lt_some {A} (l : list A) k : (k < length l)%nat -> exists x, nth_error l k = Some x.
  Proof.
    intros H. destruct (nth_error l k) as [x |] eqn:E; [exists x; reflexivity |].
    apply nth_error_None in E. lia.
  Qed.

  Lemma nth_error_some_lt {A} (l : list A) k x : nth_error l k = Some x -> (k < length l)%nat.
  Proof. intros H. apply nth_error_Some. rewrite H. discriminate. Qed.
End Generic.

(* ================================================================ 3. what the narrow phase never changes *)
Notation stateR := (@state R).
Notation ccellR := (@ccell R).
Notation cnodeR := (@cnode R).
Notation cfaceR := (@cface R).
Notation boxR := (@box R).

Section Skeleton.
  (* per node: used flag and position; per cell: its local id and the skeleton of its nodes *)
  Definition nsk (n : cnodeR) : bool * vR := (cn_used n, cn_pos n).
  Definition csk (c : ccellR) : nat * list (bool * vR) := (cc_local c, map nsk (cc_nodes c)).
  Definition sk (s : stateR) : list (nat * list (bool * vR)) := map csk s.

  Lemma sk_upd_node (s : stateR) ci ni f : (forall n, nsk (f n) = nsk n) -> sk (upd_node s ci ni f) = sk s.
  Proof.
    intros Hf. unfold sk, upd_node. apply map_updn_id. intros c. unfold csk. cbn [cc_local cc_nodes].
    f_equal. apply map_updn_id. exact Hf.
  Qed.

  Lemma sk_length (s s1 : stateR) : sk s = sk s1 -> length s = length s1.
  Proof. intros E. apply (f_equal (@length _)) in E. unfold sk in E. rewrite !map_length in E. exact E. Qed.

  Lemma sk_cell (s s1 : stateR) i c : sk s = sk s1 -> nth_error s i = Some c ->
    exists c1, nth_error s1 i = Some c1 /\ cc_local c1 = cc_local c /\ map nsk (cc_nodes c1) = map nsk (cc_nodes c).
  Proof.
    intros E Hc. destruct (map_eq_nth csk s s1 i c E Hc) as [c1 [Hc1 Ec]]. exists c1.
    split; [exact Hc1 |]. unfold csk in Ec. injection Ec as E1 E2. split; assumption.
  Qed.

  Lemma nsk_len (l l1 : list cnodeR) : map nsk l1 = map nsk l -> length l1 = length l.
  Proof. intros E. apply (f_equal (@length _)) in E. rewrite !map_length in E. exact E. Qed.

  Lemma nsk_node (l l1 : list cnodeR) k n : map nsk l1 = map nsk l -> nth_error l k = Some n ->
    exists n1, nth_error l1 k = Some n1 /\ cn_used n1 = cn_used n /\ cn_pos n1 = cn_pos n.
  Proof.
    intros E Hn. destruct (map_eq_nth nsk l l1 k n (eq_sym E) Hn) as [n1 [Hn1 En]]. exists n1.
    split; [exact Hn1 |]. unfold nsk in En. injection En as E1 E2. split; assumption.
  Qed.

  (* the lengths of the node lists *)
  Definition lens (s : stateR) : list nat := map (fun c => length (cc_nodes c)) s.

  Lemma lens_upd_node (s : stateR) ci ni f : lens (upd_node s ci ni f) = lens s.
  Proof.
    unfold lens, upd_node. apply map_updn_id. intros c. cbn [cc_nodes]. apply ContactProofsB.updn_length.
  Qed.

  Lemma lens_length (s s0 : stateR) : lens s = lens s0 -> length s = length s0.
  Proof. intros E. apply (f_equal (@length _)) in E. unfold lens in E. rewrite !map_length in E. exact E. Qed.

  Lemma lens_cell (s s0 : stateR) i c0 : lens s = lens s0 -> nth_error s0 i = Some c0 ->
    exists c, nth_error s i = Some c /\ length (cc_nodes c) = length (cc_nodes c0).
  Proof.
    intros E Hc. destruct (map_eq_nth (fun c => length (cc_nodes c)) s0 s i c0 (eq_sym E) Hc) as [c [Hc1 Ec]].
    exists c. split; assumption.
  Qed.

  (* nodes of an updated state *)
  Lemma upd_node_nth (s : stateR) ci ni f ci' c' ni' n' :
    nth_error (upd_node s ci ni f) ci' = Some c' -> nth_error (cc_nodes c') ni' = Some n' ->
    exists c n, nth_error s ci' = Some c /\ nth_error (cc_nodes c) ni' = Some n /\ (n' = n \/ n' = f n).
  Proof.
    unfold upd_node. intros Hc Hn. destruct (Nat.eq_dec ci ci') as [E | E].
    - subst ci'. rewrite updn_nth_same in Hc.
      destruct (nth_error s ci) as [c |] eqn:Ec; cbn [option_map] in Hc; [| discriminate Hc].
      injection Hc as Hc. subst c'. cbn [cc_nodes] in Hn. exists c.
      destruct (Nat.eq_dec ni ni') as [E2 | E2].
      + subst ni'. rewrite updn_nth_same in Hn.
        destruct (nth_error (cc_nodes c) ni) as [n |] eqn:En; cbn [option_map] in Hn; [| discriminate Hn].
        injection Hn as Hn. exists n. split; [reflexivity |]. split; [reflexivity |]. right. symmetry. exact Hn.
      + rewrite updn_nth_other in Hn by exact E2. exists n'. split; [reflexivity |]. split; [exact Hn |].
        left. reflexivity.
    - rewrite updn_nth_other in Hc by exact E. exists c', n'. split; [exact Hc |]. split; [exact Hn |].
      left. reflexivity.
  Qed.

  (* every coupling of a used node names an existing node *)
  Definition cpl_ok (s : stateR) : Prop :=
    forall ci c ni n c2i n2i, nth_error s ci = Some c -> nth_error (cc_nodes c) ni = Some n ->
      cn_used n = true -> cn_cpl n = Some (c2i, n2i) -> valid s c2i n2i.

  Lemma cpl_ok_upd (s : stateR) ci ni f : cpl_ok s ->
    (forall n a b, cn_used (f n) = true -> cn_cpl (f n) = Some (a, b) ->
       (cn_used n = true /\ cn_cpl n = Some (a, b)) \/ valid s a b) ->
    cpl_ok (upd_node s ci ni f).
  Proof.
    intros Hok Hf ci' c' ni' n' a b Hc Hn Hu Hcp. apply valid_upd.
    destruct (upd_node_nth s ci ni f ci' c' ni' n' Hc Hn) as [c [n [Ec [En [E | E]]]]]; subst n'.
    - exact (Hok ci' c ni' n a b Ec En Hu Hcp).
    - destruct (Hf n a b Hu Hcp) as [[Hu0 Hcp0] | Hv]; [| exact Hv].
      exact (Hok ci' c ni' n a b Ec En Hu0 Hcp0).
  Qed.

  Lemma cpl_ok_upd_keep (s : stateR) ci ni f : cpl_ok s ->
    (forall n, cn_used (f n) = cn_used n) -> (forall n, cn_cpl (f n) = cn_cpl n) -> cpl_ok (upd_node s ci ni f).
  Proof.
    intros Hok Hu Hc. apply cpl_ok_upd; [exact Hok |]. intros n a b H1 H2. left.
    rewrite Hu in H1. rewrite Hc in H2. split; assumption.
  Qed.

  Lemma cpl_ok_upd_set (s : stateR) ci ni a b d : cpl_ok s -> valid s a b ->
    cpl_ok (upd_node s ci ni (fun n => set_cpl n (Some (a, b)) d)).
  Proof.
    intros Hok Hv. apply cpl_ok_upd; [exact Hok |]. intros n a' b' _ H2. cbn [set_cpl cn_cpl] in H2.
    injection H2 as E1 E2. subst a' b'. right. exact Hv.
  Qed.

  Lemma cpl_choice_idx dmax c45 (n1 a b c : cnodeR) ia ib ic mc i d :
    cpl_choice NumR dmax c45 n1 a b c ia ib ic mc = (i, d) -> i = ia \/ i = ib \/ i = ic.
  Proof.
    unfold cpl_choice. cbv zeta.
    destruct (nltb NumR _ _ && nltb NumR _ _); [| destruct (nltb NumR _ _ && nltb NumR _ _)];
      intros H; injection H as H _; auto.
  Qed.

  (* the faces of a state are among the global faces *)
  Lemma gfaces_in_conv (s : stateR) ci c f : nth_error s ci = Some c -> In f (cc_faces c) -> In (ci, f) (gfaces s).
  Proof.
    intros Hc Hf. unfold gfaces. apply in_concat. exists (map (fun f0 => (ci, f0)) (cc_faces c)). split.
    - apply in_map_iff. exists (ci, c). split; [reflexivity |].
      exact (In_combine_seq_conv s 0%nat ci c Hc).
    - apply in_map. exact Hf.
  Qed.
End Skeleton.

(* ================================================================ 4. the grid encloses the boxes *)
Section Enclose.
  (* r encloses b *)
  Definition encl (r b : boxR) : Prop :=
    vx (b_lo r) <= vx (b_lo b) /\ vy (b_lo r) <= vy (b_lo b) /\ vz (b_lo r) <= vz (b_lo b) /\
    vx (b_hi b) <= vx (b_hi r) /\ vy (b_hi b) <= vy (b_hi r) /\ vz (b_hi b) <= vz (b_hi r).

  Definition gstep (g b : boxR) : boxR :=
    mkbox (mkv (upd_min NumR (vx (b_lo g)) (vx (b_lo b))) (upd_min NumR (vy (b_lo g)) (vy (b_lo b))) (upd_min NumR (vz (b_lo g)) (vz (b_lo b))))
          (mkv (upd_max NumR (vx (b_hi g)) (vx (b_hi b))) (upd_max NumR (vy (b_hi g)) (vy (b_hi b))) (upd_max NumR (vz (b_hi g)) (vz (b_hi b)))).

  Lemma upd_min_le (g x : R) : upd_min NumR g x <= g /\ upd_min NumR g x <= x.
  Proof. unfold upd_min. cbn [nltb NumR]. destruct (Rltb_spec x g) as [H | H]; lra. Qed.

  Lemma upd_max_ge (g x : R) : g <= upd_max NumR g x /\ x <= upd_max NumR g x.
  Proof. unfold upd_max. cbn [nltb NumR]. destruct (Rltb_spec g x) as [H | H]; lra. Qed.

  Lemma encl_trans (a b c : boxR) : encl a b -> encl b c -> encl a c.
  Proof. unfold encl. intros H1 H2. lra. Qed.

  Lemma gstep_encl (g b : boxR) : encl (gstep g b) g /\ encl (gstep g b) b.
  Proof.
    unfold encl, gstep. cbn [b_lo b_hi vx vy vz].
    pose proof (upd_min_le (vx (b_lo g)) (vx (b_lo b))) as X1. pose proof (upd_min_le (vy (b_lo g)) (vy (b_lo b))) as Y1.
    pose proof (upd_min_le (vz (b_lo g)) (vz (b_lo b))) as Z1.
    pose proof (upd_max_ge (vx (b_hi g)) (vx (b_hi b))) as X2. pose proof (upd_max_ge (vy (b_hi g)) (vy (b_hi b))) as Y2.
    pose proof (upd_max_ge (vz (b_hi g)) (vz (b_hi b))) as Z2.
    lra.
  Qed.

  Lemma gfold_encl (bs : list boxR) : forall acc,
    encl (fold_left gstep bs acc) acc /\ forall b, In b bs -> encl (fold_left gstep bs acc) b.
  Proof.
    induction bs as [| b0 bs' IH]; intros acc; cbn [fold_left].
    - split; [unfold encl; lra | intros b []].
    - destruct (IH (gstep acc b0)) as [H1 H2]. destruct (gstep_encl acc b0) as [G1 G2]. split.
      + exact (encl_trans _ _ _ H1 G1).
      + intros b [E | Hin]; [subst b; exact (encl_trans _ _ _ H1 G2) | exact (H2 b Hin)].
  Qed.

  (* one axis of the voxel index of a point *)
  Lemma axis_lo (glo pd eps s x : R) : 0 < s -> 0 <= pd -> 0 <= eps -> glo <= x ->
    (0 <= raw_idx1 NumR Zfloor (glo - pd - eps)%R s x)%Z.
  Proof.
    intros Hs Hp He Hx. unfold raw_idx1. cbn [nsub ndiv NumR]. apply Zfloor_nonneg.
    apply Rle_mult_inv_pos; lra.
  Qed.

  Lemma axis_hi (glo ghi pd eps s x : R) : 0 < s -> 0 < pd -> x <= ghi - pd ->
    (raw_idx1 NumR Zfloor (glo - pd - eps)%R s x < count1 NumR Zceil eps (glo - pd)%R ghi s)%Z.
  Proof.
    intros Hs Hp Hx. unfold raw_idx1, count1. cbn [nadd nsub ndiv NumR].
    set (a := (x - (glo - pd - eps)) / s). set (b := (ghi + eps - (glo - pd)) / s).
    assert (Hab : a < b).
    { unfold a, b, Rdiv. apply Rmult_lt_compat_r; [apply Rinv_0_lt_compat; exact Hs | lra]. }
    pose proof (Zfloor_lb a) as H1. pose proof (Zceil_ub b) as H2. apply lt_IZR. lra.
  Qed.
End Enclose.

Section GridRange.
  Variables (eps inf lmin cut_adh cut_rep : R).
  Hypothesis Heps : 0 <= eps.
  Hypothesis Hlmin : 0 < lmin.
  Hypothesis Hadh : 0 < cut_adh.
  Hypothesis Hrep : 0 < cut_rep.
  Variable boxes : list boxR.

  Notation padR := (pad NumR cut_adh cut_rep).
  Notation sR := (vsize NumR lmin cut_adh cut_rep).
  Definition gacc0 : boxR := mkbox (mkv inf inf inf) (mkv (- inf) (- inf) (- inf)).
  Definition gfold : boxR := fold_left gstep boxes gacc0.
  Definition the_grid : dims (T:=R) := grid_of NumR Zceil eps lmin cut_adh cut_rep (global_box NumR inf cut_adh cut_rep boxes).

  Lemma the_grid_eq : the_grid =
    mkdims (vx (b_lo gfold) - padR - eps, vy (b_lo gfold) - padR - eps, vz (b_lo gfold) - padR - eps)
           (count1 NumR Zceil eps (vx (b_lo gfold) - padR) (vx (b_hi gfold)) sR,
            count1 NumR Zceil eps (vy (b_lo gfold) - padR) (vy (b_hi gfold)) sR,
            count1 NumR Zceil eps (vz (b_lo gfold) - padR) (vz (b_hi gfold)) sR) sR.
  Proof. reflexivity. Qed.

  Lemma pad_pos : 0 < padR.
  Proof using Hadh Hrep. pose proof (nmax_ge cut_rep cut_adh) as H. unfold pad. lra. Qed.

  Lemma vsize_pos : 0 < sR.
  Proof using Hlmin Hadh Hrep. unfold vsize. cbn [nadd nmul nofZ NumR]. pose proof pad_pos as Hp. lra. Qed.

  (* the voxels of a registered box are voxels of the grid *)
  Lemma box_voxels_in_range b : In b boxes ->
    forall v, In v (box_voxels NumR Zfloor the_grid b) -> in_range the_grid v = true.
  Proof using Heps Hlmin Hadh Hrep.
    intros Hb [[x y] z] Hv.
    destruct (proj2 (gfold_encl boxes gacc0) b Hb) as (Lx & Ly & Lz & _). fold gfold in Lx, Ly, Lz.
    pose proof pad_pos as Hp. pose proof vsize_pos as Hs.
    pose proof (axis_lo (vx (b_lo gfold)) padR eps sR (vx (b_lo b)) Hs (Rlt_le _ _ Hp) Heps Lx) as Ax.
    pose proof (axis_lo (vy (b_lo gfold)) padR eps sR (vy (b_lo b)) Hs (Rlt_le _ _ Hp) Heps Ly) as Ay.
    pose proof (axis_lo (vz (b_lo gfold)) padR eps sR (vz (b_lo b)) Hs (Rlt_le _ _ Hp) Heps Lz) as Az.
    rewrite the_grid_eq in Hv |- *.
    unfold box_voxels, raw3 in Hv. cbn [d_nb d_lo d_s] in Hv.
    apply (proj1 (in_prod3 (zrange _ _) (zrange _ _) (zrange _ _) x y z)) in Hv.
    rewrite !in_zrange in Hv.
    eapply in_range_spec; [reflexivity |]. lia.
  Qed.

  (* the voxel of a vertex of a registered face is a voxel of the grid *)
  Lemma vertex_in_range (p1 p2 p3 pos : vR) : In (face_box NumR cut_adh cut_rep p1 p2 p3) boxes ->
    pos = p1 \/ pos = p2 \/ pos = p3 -> in_range the_grid (raw3 NumR Zfloor the_grid pos) = true.
  Proof using Heps Hlmin Hadh Hrep.
    intros Hb Hpos.
    destruct (proj2 (gfold_encl boxes gacc0) _ Hb) as (Lx & Ly & Lz & Ux & Uy & Uz).
    fold gfold in Lx, Ly, Lz, Ux, Uy, Uz. cbn [face_box b_lo b_hi vx vy vz nsub nadd NumR] in Lx, Ly, Lz, Ux, Uy, Uz.
    pose proof pad_pos as Hp. pose proof vsize_pos as Hs.
    destruct (min3_le (vx p1) (vx p2) (vx p3)) as (mx1 & mx2 & mx3).
    destruct (min3_le (vy p1) (vy p2) (vy p3)) as (my1 & my2 & my3).
    destruct (min3_le (vz p1) (vz p2) (vz p3)) as (mz1 & mz2 & mz3).
    destruct (max3_ge (vx p1) (vx p2) (vx p3)) as (Mx1 & Mx2 & Mx3).
    destruct (max3_ge (vy p1) (vy p2) (vy p3)) as (My1 & My2 & My3).
    destruct (max3_ge (vz p1) (vz p2) (vz p3)) as (Mz1 & Mz2 & Mz3).
    assert (Bx : vx (b_lo gfold) <= vx pos /\ vx pos <= vx (b_hi gfold) - padR) by (destruct Hpos as [E | [E | E]]; subst pos; lra).
    assert (By : vy (b_lo gfold) <= vy pos /\ vy pos <= vy (b_hi gfold) - padR) by (destruct Hpos as [E | [E | E]]; subst pos; lra).
    assert (Bz : vz (b_lo gfold) <= vz pos /\ vz pos <= vz (b_hi gfold) - padR) by (destruct Hpos as [E | [E | E]]; subst pos; lra).
    pose proof (axis_lo (vx (b_lo gfold)) padR eps sR (vx pos) Hs (Rlt_le _ _ Hp) Heps (proj1 Bx)) as Ax.
    pose proof (axis_lo (vy (b_lo gfold)) padR eps sR (vy pos) Hs (Rlt_le _ _ Hp) Heps (proj1 By)) as Ay.
    pose proof (axis_lo (vz (b_lo gfold)) padR eps sR (vz pos) Hs (Rlt_le _ _ Hp) Heps (proj1 Bz)) as Az.
    pose proof (axis_hi (vx (b_lo gfold)) (vx (b_hi gfold)) padR eps sR (vx pos) Hs Hp (proj2 Bx)) as Cx.
    pose proof (axis_hi (vy (b_lo gfold)) (vy (b_hi gfold)) padR eps sR (vy pos) Hs Hp (proj2 By)) as Cy.
    pose proof (axis_hi (vz (b_lo gfold)) (vz (b_hi gfold)) padR eps sR (vz pos) Hs Hp (proj2 Bz)) as Cz.
    rewrite the_grid_eq. unfold raw3. cbn [d_nb d_lo d_s].
    eapply in_range_spec; [reflexivity |]. lia.
  Qed.

  (* registration never leaves the grid *)
  Lemma register_total : exists sto, register NumR Zfloor the_grid boxes = Some sto.
  Proof using Heps Hlmin Hadh Hrep.
    change (register NumR Zfloor the_grid boxes)
      with (fold_left (rstep the_grid) (combine (seq 0 (length boxes)) boxes) (Some (repeat [] (Z.to_nat (nvox the_grid))))).
    destruct (fold_opt_total (rstep the_grid) (fun _ => True) (fun ib => In (snd ib) boxes)) with
      (l := combine (seq 0 (length boxes)) boxes) (s := repeat (@nil nat) (Z.to_nat (nvox the_grid))) as [r [Er _]].
    - intros s [i b] _ Hb. cbn [snd] in Hb. unfold rstep. cbn [fst snd]. rewrite place_face_pstep.
      destruct (fold_opt_total (pstep the_grid i) (fun _ => True) (fun v => in_range the_grid v = true)) with
        (l := box_voxels NumR Zfloor the_grid b) (s := s) as [r [Er _]].
      + intros s0 v _ Hv. unfold pstep. rewrite Hv. eexists. split; [reflexivity | exact I].
      + exact I.
      + intros v Hv. exact (box_voxels_in_range b Hb v Hv).
      + exists r. split; [exact Er | exact I].
    - exact I.
    - intros [i b] Hin. cbn [snd]. exact (in_combine_r _ _ _ _ Hin).
    - exists r. exact Er.
  Qed.
End GridRange.

(* ================================================================ 5. well-formed tissues *)
Definition wf_tissue_ (st : Contact.state (T:=R)) : Prop :=
  st <> [] /\
  (forall i c, nth_error st i = Some c -> cc_local c = i /\ cc_faces c <> [] /\
     (forall f, In f (cc_faces c) -> (cf_n1 f < length (cc_nodes c) /\ cf_n2 f < length (cc_nodes c) /\ cf_n3 f < length (cc_nodes c))%nat) /\
     (forall k n, nth_error (cc_nodes c) k = Some n -> cn_used n = true ->
        exists f, In f (cc_faces c) /\ (cf_n1 f = k \/ cf_n2 f = k \/ cf_n3 f = k))).

(* what the phase needs of the prepared state *)
Definition wfs (st : stateR) : Prop :=
  forall i c, nth_error st i = Some c -> cc_local c = i /\
     (forall f, In f (cc_faces c) -> (cf_n1 f < length (cc_nodes c) /\ cf_n2 f < length (cc_nodes c) /\ cf_n3 f < length (cc_nodes c))%nat) /\
     (forall k n, nth_error (cc_nodes c) k = Some n -> cn_used n = true ->
        exists f, In f (cc_faces c) /\ (cf_n1 f = k \/ cf_n2 f = k \/ cf_n3 f = k)).

Section Reset.
  Variable dmax : R.

  Lemma reset_node_used (n : cnodeR) : cn_used (reset_node dmax n) = cn_used n.
  Proof. unfold reset_node. destruct (cn_used n) eqn:E; exact E. Qed.

  Lemma wf_reset (st : stateR) : wf_tissue_ st -> wfs (reset_state dmax st).
  Proof.
    intros [_ Hwf] i c' Hc'. unfold reset_state in Hc'. apply nth_error_map_inv in Hc'.
    destruct Hc' as [c [Hc E]]. subst c'. cbn [cc_local cc_nodes cc_faces].
    destruct (Hwf i c Hc) as (L & _ & F & U). split; [exact L |]. split.
    - intros f Hf. rewrite map_length. exact (F f Hf).
    - intros k n' Hn' Hu. apply nth_error_map_inv in Hn'. destruct Hn' as [n [Hn E]]. subst n'.
      rewrite reset_node_used in Hu. exact (U k n Hn Hu).
  Qed.

  Lemma reset_cpl_ok (st : stateR) : cpl_ok (reset_state dmax st).
  Proof.
    intros ci c' ni n' c2i n2i Hc Hn Hu Hcp. exfalso.
    unfold reset_state in Hc. apply nth_error_map_inv in Hc. destruct Hc as [c [Hc E]]. subst c'.
    cbn [cc_nodes] in Hn. apply nth_error_map_inv in Hn. destruct Hn as [n [Hn E]]. subst n'.
    rewrite reset_node_used in Hu. unfold reset_node in Hcp. rewrite Hu in Hcp.
    cbn [set_cpl cn_cpl] in Hcp. discriminate Hcp.
  Qed.
End Reset.

(* ================================================================ 6. the stages of the phase *)
Section PhaseTotal.
  Variables (eps dmax inf c45 c90 lmin cut_adh cut_rep : R).
  Hypothesis Heps : 0 <= eps.
  Hypothesis Hlmin : 0 < lmin.
  Hypothesis Hadh : 0 < cut_adh.
  Hypothesis Hrep : 0 < cut_rep.

  Variable st1 : stateR.
  Hypothesis Hwfs : wfs st1.

  Notation gfs := (gfaces st1).
  Notation tryR := (try_face NumR dmax c45 c90 cut_adh cut_rep).
  Notation resolveR := (resolve_contact NumR dmax c45 cut_adh cut_rep).

  (* ---- prepare *)
  Lemma boxes_total : exists boxes, all_some (map (face_box_of NumR cut_adh cut_rep st1) gfs) = Some boxes.
  Proof using Hwfs.
    apply all_some_total. intros [ci f] Hin.
    destruct (gfaces_in st1 ci f Hin) as [cA [HA Hf]].
    destruct (Hwfs ci cA HA) as (_ & Hfaces & _). destruct (Hfaces f Hf) as (F1 & F2 & F3).
    destruct (nth_error_lt_some _ _ F1) as [a1 E1]. destruct (nth_error_lt_some _ _ F2) as [a2 E2].
    destruct (nth_error_lt_some _ _ F3) as [a3 E3].
    unfold face_box_of, node_pos. rewrite HA, E1, E2, E3. cbn [option_map]. eexists. reflexivity.
  Qed.

  Variable boxes : list boxR.
  Hypothesis Hboxes : all_some (map (face_box_of NumR cut_adh cut_rep st1) gfs) = Some boxes.
  Notation grd := (the_grid eps inf lmin cut_adh cut_rep boxes).
  Variable sto : list (list nat).
  Hypothesis Hreg : register NumR Zfloor grd boxes = Some sto.
  Notation candsR := (candidates NumR Zfloor grd sto).

  Lemma boxes_len : length boxes = length gfs.
  Proof using Hboxes. rewrite (all_some_length _ _ Hboxes), map_length. reflexivity. Qed.

  (* ---- the voxel of a node that belongs to a face *)
  Lemma cands_total ci cA f ni nA : nth_error st1 ci = Some cA -> In f (cc_faces cA) ->
    cf_n1 f = ni \/ cf_n2 f = ni \/ cf_n3 f = ni -> nth_error (cc_nodes cA) ni = Some nA ->
    exists l, candsR (cn_pos nA) = Some l.
  Proof using Heps Hlmin Hadh Hrep Hboxes.
    intros HA Hf Hv HnA.
    pose proof (gfaces_in_conv st1 ci cA f HA Hf) as Hin.
    destruct (all_some_in _ _ _ _ Hboxes Hin) as [b [Eb Hb]].
    unfold face_box_of, node_pos in Eb. rewrite HA in Eb.
    destruct (nth_error (cc_nodes cA) (cf_n1 f)) as [a1 |] eqn:E1; cbn [option_map] in Eb; [| discriminate Eb].
    destruct (nth_error (cc_nodes cA) (cf_n2 f)) as [a2 |] eqn:E2; cbn [option_map] in Eb; [| discriminate Eb].
    destruct (nth_error (cc_nodes cA) (cf_n3 f)) as [a3 |] eqn:E3; cbn [option_map] in Eb; [| discriminate Eb].
    injection Eb as Eb. subst b.
    assert (Hpos : cn_pos nA = cn_pos a1 \/ cn_pos nA = cn_pos a2 \/ cn_pos nA = cn_pos a3).
    { destruct Hv as [E | [E | E]].
      - rewrite E in E1. left. congruence.
      - rewrite E in E2. right. left. congruence.
      - rewrite E in E3. right. right. congruence. }
    unfold candidates. cbv zeta.
    rewrite (vertex_in_range eps inf lmin cut_adh cut_rep Heps Hlmin Hadh Hrep boxes _ _ _ _ Hb Hpos).
    eexists. reflexivity.
  Qed.

  (* ---- the invariant of the node loop *)
  Definition NInv (s : stateR) : Prop := sk s = sk st1 /\ cpl_ok s.

  Lemma NInv_cell s i cA : NInv s -> nth_error st1 i = Some cA ->
    exists c, nth_error s i = Some c /\ cc_local c = i /\ map nsk (cc_nodes c) = map nsk (cc_nodes cA).
  Proof using Hwfs.
    intros [Hsk _] HA. destruct (sk_cell st1 s i cA (eq_sym Hsk) HA) as [c [Hc [E1 E2]]].
    exists c. split; [exact Hc |]. split; [| exact E2]. rewrite E1. exact (proj1 (Hwfs i cA HA)).
  Qed.

  Lemma NInv_local s i c : NInv s -> nth_error s i = Some c -> cc_local c = i.
  Proof using Hwfs.
    intros [Hsk _] Hc. destruct (sk_cell s st1 i c Hsk Hc) as [cA [HA [E1 _]]].
    rewrite <- E1. exact (proj1 (Hwfs i cA HA)).
  Qed.

  Lemma NInv_valid s i k cA : NInv s -> nth_error st1 i = Some cA -> (k < length (cc_nodes cA))%nat -> valid s i k.
  Proof using Hwfs.
    intros HI HA Hk. destruct (NInv_cell s i cA HI HA) as [c [Hc [_ E]]].
    destruct (nth_error_lt_some (cc_nodes c) k) as [n Hn]; [rewrite (nsk_len _ _ E); exact Hk |].
    exists c, n. split; assumption.
  Qed.

  Lemma NInv_upd_keep s ci ni f : NInv s -> (forall n, nsk (f n) = nsk n) -> (forall n, cn_cpl (f n) = cn_cpl n) ->
    NInv (upd_node s ci ni f).
  Proof.
    intros [H1 H2] Hn Hc. split; [rewrite sk_upd_node by exact Hn; exact H1 |].
    apply cpl_ok_upd_keep; [exact H2 | | exact Hc].
    intros n. pose proof (Hn n) as E. unfold nsk in E. injection E as E _. exact E.
  Qed.

  Lemma apply_forces_NInv s c1i n1i c2i f r : NInv s ->
    exists s', apply_forces s c1i n1i c2i f r = Some s' /\ NInv s'.
  Proof.
    intros HI. unfold apply_forces. destruct r as [[[[fn fa] fb] fc] |].
    - cbv zeta. eexists. split; [reflexivity |].
      apply NInv_upd_keep; [| intros n; reflexivity | intros n; reflexivity].
      apply NInv_upd_keep; [| intros n; reflexivity | intros n; reflexivity].
      apply NInv_upd_keep; [| intros n; reflexivity | intros n; reflexivity].
      apply NInv_upd_keep; [exact HI | intros n; reflexivity | intros n; reflexivity].
    - exists s. split; [reflexivity | exact HI].
  Qed.

  Lemma resolve_total s c1i n1i c2i f : NInv s ->
    valid s c1i n1i -> valid s c2i (cf_n1 f) -> valid s c2i (cf_n2 f) -> valid s c2i (cf_n3 f) ->
    exists s', resolveR s c1i n1i (c2i, f) = Some s' /\ NInv s'.
  Proof using Hwfs.
    intros HI [c1 [n1 [Ec1 En1]]] [c2 [a [Ec2 Ea]]] [c2b [b [Ec2b Eb]]] [c2c [c [Ec2c Ec]]].
    assert (E2b : c2b = c2) by congruence. subst c2b. assert (E2c : c2c = c2) by congruence. subst c2c.
    pose proof (NInv_local s c1i c1 HI Ec1) as L1. pose proof (NInv_local s c2i c2 HI Ec2) as L2.
    pose proof (apply_forces_NInv s c1i n1i c2i f
      (interaction NumR cut_adh cut_rep (cn_pos n1) (cn_pos a) (cn_pos b) (cn_pos c) (cf_normal f) (cf_area f) (cf_rep f) (cc_type c1) (cc_type c2)) HI) as FB.
    unfold resolve_contact. rewrite Ec1, Ec2, En1, Ea, Eb, Ec. cbv zeta.
    destruct (Nat.eqb (cc_type c1) 0 && Nat.eqb (cc_type c2) 0); [| exact FB].
    destruct (cpl_choice NumR dmax c45 n1 a b c (cf_n1 f) (cf_n2 f) (cf_n3 f) (cc_maxcurv c1)) as [n2i d] eqn:Ech.
    destruct (nltb NumR d (cut2_adh NumR cut_adh) && nltb NumR d (cn_sqd n1)); [| exact FB].
    eexists. split; [reflexivity |]. rewrite L1, L2.
    assert (V2 : valid s c2i n2i).
    { destruct (cpl_choice_idx _ _ _ _ _ _ _ _ _ _ _ _ Ech) as [E | [E | E]]; subst n2i;
        [exists c2, a | exists c2, b | exists c2, c]; split; assumption. }
    destruct HI as [H1 H2]. split.
    - rewrite !sk_upd_node by (intros n; reflexivity). exact H1.
    - apply cpl_ok_upd_set; [apply cpl_ok_upd_set; [exact H2 | exact V2] |].
      apply valid_upd. exists c1, n1. split; assumption.
  Qed.

  Lemma try_total s ci ni cA fid : NInv s -> nth_error st1 ci = Some cA -> (ni < length (cc_nodes cA))%nat ->
    (fid < length boxes)%nat -> exists s', tryR boxes gfs ci ni (Some s) fid = Some s' /\ NInv s'.
  Proof using Hwfs Hboxes.
    intros HI HA Hni Hfid.
    pose proof (NInv_valid s ci ni cA HI HA Hni) as V0.
    destruct V0 as [c1 [n1 [Ec1 En1]]].
    destruct (nth_error_lt_some boxes fid Hfid) as [bx Ebx].
    destruct (nth_error_lt_some gfs fid) as [[c2i f] Egf]; [rewrite <- boxes_len; exact Hfid |].
    destruct (gfaces_in st1 c2i f (nth_error_In _ _ Egf)) as [cB [HB Hf]].
    destruct (Hwfs c2i cB HB) as (_ & Hfaces & _). destruct (Hfaces f Hf) as (F1 & F2 & F3).
    pose proof (NInv_valid s c2i _ cB HI HB F1) as V1.
    pose proof (NInv_valid s c2i _ cB HI HB F2) as V2.
    pose proof (NInv_valid s c2i _ cB HI HB F3) as V3.
    pose proof V1 as V1'. destruct V1' as [c2 [a [Ec2 _]]].
    unfold try_face. rewrite Ec1, Egf, Ebx. cbn [fst snd]. rewrite Ec2, En1.
    destruct (negb (Nat.eqb (cc_id c1) (cc_id c2))); [| exists s; split; [reflexivity | exact HI]].
    destruct (in_box NumR bx (cn_pos n1) && nltb NumR (vdot NumR (cn_normal n1) (cf_normal f)) c90);
      [| exists s; split; [reflexivity | exact HI]].
    apply resolve_total; try assumption. exists c1, n1. split; assumption.
  Qed.

  Lemma inner_total ci cA s ni : nth_error st1 ci = Some cA -> NInv s -> (ni < length (cc_nodes cA))%nat ->
    exists s', innerF dmax c45 c90 cut_adh cut_rep candsR boxes gfs ci (Some s) ni = Some s' /\ NInv s'.
  Proof using Heps Hlmin Hadh Hrep Hwfs Hboxes Hreg.
    intros HA HI Hni.
    destruct (NInv_cell s ci cA HI HA) as [c [Ec [_ Esk]]].
    destruct (nth_error_lt_some (cc_nodes c) ni) as [n En]; [rewrite (nsk_len _ _ Esk); exact Hni |].
    unfold innerF. rewrite Ec, En.
    destruct (node_active NumR c n) eqn:Eact; [| exists s; split; [reflexivity | exact HI]].
    unfold node_active in Eact. apply andb_true_iff in Eact. destruct Eact as [Hused _].
    destruct (nsk_node (cc_nodes c) (cc_nodes cA) ni n (eq_sym Esk) En) as [nA [HnA [Eused Epos]]].
    destruct (Hwfs ci cA HA) as (_ & _ & Hbelongs).
    destruct (Hbelongs ni nA HnA (eq_trans Eused Hused)) as [f [Hf Hv]].
    destruct (cands_total ci cA f ni nA HA Hf Hv HnA) as [l El]. rewrite Epos in El. rewrite El.
    apply (fold_opt_total (tryR boxes gfs ci ni) NInv (fun fid => (fid < length boxes)%nat)).
    - intros s0 fid H0 Hfid. exact (try_total s0 ci ni cA fid H0 HA Hni Hfid).
    - exact HI.
    - intros fid Hfid. exact (desc_lt _ _ _ (once_core grd boxes sto _ l Hreg El) Hfid).
  Qed.

  Lemma outer_total s ci : NInv s -> (ci < length st1)%nat ->
    exists s', outerF dmax c45 c90 cut_adh cut_rep candsR boxes gfs (Some s) ci = Some s' /\ NInv s'.
  Proof using Heps Hlmin Hadh Hrep Hwfs Hboxes Hreg.
    intros HI Hci. destruct (nth_error_lt_some st1 ci Hci) as [cA HA].
    destruct (NInv_cell s ci cA HI HA) as [c0 [Ec0 [_ Esk]]].
    unfold outerF. rewrite Ec0.
    apply (fold_opt_total (innerF dmax c45 c90 cut_adh cut_rep candsR boxes gfs ci) NInv
                          (fun ni => (ni < length (cc_nodes cA))%nat)).
    - intros s0 ni H0 Hni. exact (inner_total ci cA s0 ni HA H0 Hni).
    - exact HI.
    - intros ni Hni. apply in_seq in Hni. rewrite (nsk_len _ _ Esk) in Hni. lia.
  Qed.

  Hypothesis Hcpl1 : cpl_ok st1.

  Lemma node_loop_total :
    exists st2, node_loop NumR dmax c45 c90 cut_adh cut_rep candsR boxes gfs st1 = Some st2 /\ NInv st2.
  Proof using Heps Hlmin Hadh Hrep Hwfs Hboxes Hreg Hcpl1.
    rewrite node_loop_eq.
    apply (fold_opt_total (outerF dmax c45 c90 cut_adh cut_rep candsR boxes gfs) NInv (fun ci => (ci < length st1)%nat)).
    - intros s ci HI Hci. exact (outer_total s ci HI Hci).
    - split; [reflexivity | exact Hcpl1].
    - intros ci Hci. apply in_seq in Hci. lia.
  Qed.
End PhaseTotal.

(* ================================================================ 7. the second loop: coupled pairs *)
Section Centre.
  Variable s0 : stateR.
  Definition CInv (s : stateR) : Prop := lens s = lens s0 /\ cpl_ok s.

  Lemma centre_total : cpl_ok s0 -> exists r, centre_pairs NumR s0 = Some r.
  Proof.
    intros H0. unfold centre_pairs.
    match goal with |- exists r, fold_left ?ff ?ll (Some ?ss) = Some r =>
      destruct (fold_opt_total ff CInv (fun ci => (ci < length s0)%nat)) with (l := ll) (s := ss) as [r [Er _]]
    end.
    - intros s ci HS Hci. cbv beta.
      destruct (nth_error_lt_some s0 ci Hci) as [cA HA].
      destruct (lens_cell s s0 ci cA (proj1 HS) HA) as [c0 [Ec0 El0]]. rewrite Ec0.
      match goal with |- exists s', fold_left ?ff ?ll (Some ?ss) = Some s' /\ _ =>
        apply (fold_opt_total ff CInv (fun ni => (ni < length (cc_nodes cA))%nat))
      end.
      + intros s2 ni H2 Hni. cbv beta.
        destruct (lens_cell s2 s0 ci cA (proj1 H2) HA) as [c [Ec Elc]]. rewrite Ec.
        destruct (nth_error_lt_some (cc_nodes c) ni) as [n En]; [lia |]. rewrite En.
        destruct (cn_used n) eqn:Eu; [| exists s2; split; [reflexivity | exact H2]].
        destruct (cn_cpl n) as [[c2i n2i] |] eqn:Ecp; [| exists s2; split; [reflexivity | exact H2]].
        destruct (Nat.ltb c2i ci); [| exists s2; split; [reflexivity | exact H2]].
        destruct (proj2 H2 ci c ni n c2i n2i Ec En Eu Ecp) as [c2 [n2 [Ec2 En2]]].
        rewrite Ec2, En2. cbv zeta. eexists. split; [reflexivity |].
        destruct H2 as [L C]. split; [rewrite !lens_upd_node; exact L |].
        apply cpl_ok_upd_keep; [| intros x; reflexivity | intros x; reflexivity].
        apply cpl_ok_upd_keep; [exact C | intros x; reflexivity | intros x; reflexivity].
      + exact HS.
      + intros ni Hni. apply in_seq in Hni. lia.
    - split; [reflexivity | exact H0].
    - intros ci Hci. apply in_seq in Hci. lia.
    - exists r. exact Er.
  Qed.
End Centre.

(* ================================================================ 8. the phase *)
Theorem contact_phase_total : forall (eps dmax inf c45 c90 lmin cut_adh cut_rep : R) st,
  0 <= eps -> 0 < lmin -> 0 < cut_adh -> 0 < cut_rep -> wf_tissue_ st ->
  contact_phase NumR Zfloor Zceil eps dmax inf c45 c90 lmin cut_adh cut_rep st <> None.
Proof.
  intros eps dmax inf c45 c90 lmin cut_adh cut_rep st Heps Hlmin Hadh Hrep Hwf.
  pose proof (wf_reset dmax st Hwf) as Hwfs.
  pose proof (reset_cpl_ok dmax st) as Hcpl.
  destruct (boxes_total cut_adh cut_rep (reset_state dmax st) Hwfs) as [boxes Hboxes].
  destruct (register_total eps inf lmin cut_adh cut_rep Heps Hlmin Hadh Hrep boxes) as [sto Hreg].
  destruct (node_loop_total eps dmax inf c45 c90 lmin cut_adh cut_rep Heps Hlmin Hadh Hrep
              (reset_state dmax st) Hwfs boxes Hboxes sto Hreg Hcpl) as [st2 [E2 [_ C2]]].
  destruct (centre_total st2 C2) as [r Er].
  unfold contact_phase, prepare. cbv zeta. rewrite Hboxes. cbn [p_grid p_boxes p_gfs p_state].
  unfold the_grid in Hreg, E2. rewrite Hreg, E2, Er. cbn [option_map]. discriminate.
Qed.

Print Assumptions safe_prog_sound.
Print Assumptions contact_phase_total.
