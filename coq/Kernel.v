(* Kernel.v — contact_model_abstract::compute_node_triangle_distance, verbatim:
   seven regions, the tests in the order of the code, <= / >= as written. *)
From Coq Require Import ZArith Bool List.
From SC Require Import Num Vec3.

Section Kernel.
  Context {T : Type} (N : Num T).
  Notation "x + y" := (nadd N x y).
  Notation "x - y" := (nsub N x y).
  Notation "x * y" := (nmul N x y).
  Notation "x / y" := (ndiv N x y).
  Notation "x <=? y" := (nleb N x y) (at level 70).
  Notation "x >=? y" := (nleb N y x) (at level 70).
  Notation "0" := (nzero N).
  Notation "1" := (none_ N).

  (* which branch returned: 1=A 2=B 3=AB 4=C 5=AC 6=BC 7=interior *)
  Record kres := mkk { k_dist : T; k_bary : vec3 T; k_region : nat }.

  Definition kernel (p a b c : vec3 T) : kres :=
    let ab := vsub N b a in
    let ac := vsub N c a in
    let ap := vsub N p a in
    let d1 := vdot N ab ap in
    let d2 := vdot N ac ap in
    if (d1 <=? 0) && (d2 <=? 0) then mkk (vsqnorm N ap) (mkv 1 0 0) 1 else
    let bp := vsub N p b in
    let d3 := vdot N ab bp in
    let d4 := vdot N ac bp in
    if (d3 >=? 0) && (d4 <=? d3) then mkk (vsqnorm N bp) (mkv 0 1 0) 2 else
    let vc := d1 * d4 - d3 * d2 in
    if (vc <=? 0) && (d1 >=? 0) && (d3 <=? 0) then
      let v := d1 / (d1 - d3) in
      let abv := vadd N a (vscale N ab v) in
      mkk (vsqnorm N (vsub N abv p)) (mkv (1 - v) v 0) 3
    else
    let cp := vsub N p c in
    let d5 := vdot N ab cp in
    let d6 := vdot N ac cp in
    if (d6 >=? 0) && (d5 <=? d6) then mkk (vsqnorm N cp) (mkv 0 0 1) 4 else
    let vb := d5 * d2 - d1 * d6 in
    if (vb <=? 0) && (d2 >=? 0) && (d6 <=? 0) then
      let w := d2 / (d2 - d6) in
      let acw := vadd N a (vscale N ac w) in
      mkk (vsqnorm N (vsub N p acw)) (mkv (1 - w) 0 w) 5
    else
    let va := d3 * d6 - d5 * d4 in
    if (va <=? 0) && ((d4 - d3) >=? 0) && ((d5 - d6) >=? 0) then
      let z := (d4 - d3) / ((d4 - d3) + (d5 - d6)) in
      let bcz := vadd N b (vscale N (vsub N c b) z) in
      mkk (vsqnorm N (vsub N bcz p)) (mkv 0 (1 - z) z) 6
    else
    let denom := 1 / ((va + vb) + vc) in
    let v := vb * denom in
    let w := vc * denom in
    let cpa := vadd N (vadd N a (vscale N ab v)) (vscale N ac w) in
    mkk (vsqnorm N (vsub N p cpa)) (mkv ((1 - v) - w) v w) 7.
End Kernel.

Arguments kres T : clear implicits.
Arguments mkk {T}. Arguments k_dist {T}. Arguments k_bary {T}. Arguments k_region {T}.
