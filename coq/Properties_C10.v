(* Properties_C10.v — property C10 (partial): no invalid memory access or undefined behaviour.
   Only statements.  The technique has no semantics of C++: what is logic is proved here — index safety of the modelled
   components, the reference-lifetime discipline, and finite fact tables REGENERATED from /repo's headers on every run
   (Facts_gen.v) — everything else is explored under sanitizers and valgrind by the check (validation, not proof). *)
From Coq Require Import Reals ZArith NArith Arith Bool List.
From Flocq Require Import Core.Raux.
From SC Require Import Num Vec3 VecR Grid GridProofs Contact Vtk VtkSpec VtkProofs Population PopulationSpec PopulationProofs Lifetime Facts_gen C10Proofs.
Import ListNotations.

(* ---- reference lifetimes: a program that follows the discipline never uses a dangling reference, for EVERY
   initial size and capacity of the vector *)
Theorem disciplined_programs_never_dangle : forall prog s,
  safe_prog prog = true -> l_stale s = false -> l_refs s = [] -> l_stale (lrun prog s) = false.
Proof. exact safe_prog_sound. Qed.
Print Assumptions disciplined_programs_never_dangle.

(* the two repaired fragments follow the discipline; the fragments as they were admit a dangling use (vector full) *)
Theorem repaired_fragments_follow_the_discipline : safe_prog split_edge_after && safe_prog fill_holes_after = true.
Proof. vm_compute. reflexivity. Qed.
Theorem fragments_before_repair_dangled :
  l_stale (lrun split_edge_before (mkls 4 4 0 [] false)) = true /\ l_stale (lrun fill_holes_before (mkls 3 4 0 [] false)) = true.
Proof. split; vm_compute; reflexivity. Qed.

(* ---- index safety of modelled components *)
(* the contact phase never indexes a voxel outside the grid, and never a node or cell that does not exist, on any
   well-formed tissue (every face names existing nodes of its cell, every used node belongs to a face, list index =
   position), for any placement and any positive cut-off *)
Definition wf_tissue (st : Contact.state (T:=R)) : Prop :=
  st <> [] /\
  (forall i c, nth_error st i = Some c -> cc_local c = i /\ cc_faces c <> [] /\
     (forall f, In f (cc_faces c) -> (cf_n1 f < length (cc_nodes c) /\ cf_n2 f < length (cc_nodes c) /\ cf_n3 f < length (cc_nodes c))%nat) /\
     (forall k n, nth_error (cc_nodes c) k = Some n -> cn_used n = true ->
        exists f, In f (cc_faces c) /\ (cf_n1 f = k \/ cf_n2 f = k \/ cf_n3 f = k))).
Theorem contact_phase_never_indexes_out_of_range : forall (eps dmax inf c45 c90 lmin cut_adh cut_rep : R) st,
  (0 <= eps)%R -> (0 < lmin)%R -> (0 < cut_adh)%R -> (0 < cut_rep)%R -> wf_tissue st ->
  contact_phase NumR Zfloor Zceil eps dmax inf c45 c90 lmin cut_adh cut_rep st <> None.
Proof. exact contact_phase_total. Qed.
Print Assumptions contact_phase_never_indexes_out_of_range.

(* restated: grids (C20), mesh reader (C16/C17), population references (C08) *)
Theorem grid_index_in_vector : forall (g : dims (T:=R)) (i : Z * Z * Z),
  in_range g i = true -> (0 <= flat g i < nvox g)%Z.
Proof. exact flat_bounds. Qed.
Print Assumptions grid_index_in_vector.

Theorem accepted_mesh_is_index_safe : forall (F V : Type) (sem : F -> option V) (file : list (tok (F:=F))) ms tys,
  read_file sem file = Ok (ms, tys) -> Forall mesh_index_safe ms.
Proof. exact read_safe. Qed.
Print Assumptions accepted_mesh_is_index_safe.

Theorem stored_cell_reference_is_valid : forall p j r, PopInv p ->
  store_ref p j = Some r -> deref p r = nth_error (p_cells p) j.
Proof. exact deref_store. Qed.
Print Assumptions stored_cell_reference_is_valid.

(* ---- facts regenerated from the headers of /repo on this run *)
Theorem facts_translated : facts_translation_ok = true.
Proof. vm_compute. reflexivity. Qed.

(* every class that solver owns through a unique_ptr and that has derived classes declares a virtual destructor
   (otherwise deleting the derived object through the base pointer is undefined) *)
Theorem owned_polymorphic_bases_have_virtual_destructors :
  forallb (fun x => let '(_, derived, vdtor) := x in implb derived vdtor) owned_bases = true.
Proof. vm_compute. reflexivity. Qed.

(* every scalar member of node that the contact phase reads has a default member initialiser (the contact phase runs
   before the first force phase computes it) *)
Theorem node_scalars_read_by_contact_are_initialised :
  forallb (fun x => let '(_, init, read) := x in implb read init) node_scalars = true.
Proof. vm_compute. reflexivity. Qed.

(* ------------------------------------------------------------------------------------------------------------------
   lifetime of the list indices stored by the contact phase: in the order of the phases READ FROM src/solver.cpp on this run
   (Iteration_gen.v) they are consumed after the divider has finished changing the population list and before the removal
   erases from it, and the renumbering follows the erase (an index stored before an erase and used after it subscripts the
   node vector of whichever cell slid into the freed slot) *)
From SC Require Import IterationDefs Iteration_gen Iteration.
Theorem stored_list_indices_are_consumed_before_the_list_changes :
  (iteration_translation_ok && stored_indices_used_between_list_changes run_iteration_phases)%bool = true.
Proof. vm_compute. reflexivity. Qed.
Print Assumptions stored_list_indices_are_consumed_before_the_list_changes.
