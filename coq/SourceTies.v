(* SourceTies.v — the base layers of the model are what the source says NOW.
   Vec3_gen.v and Geometry_gen.v are regenerated from /repo's working tree on every run (harness/translate_vec3.py,
   harness/translate_geometry.py); the theorems below prove the generated functions equal to the hand-written Vec3.v and
   Geometry.v — about which the theorems of C02, C03, C05, C06, C07, C12, C14 speak and which are extracted and run against the
   C++ — by reflexivity, for every number type.  Only statements closed by reflexivity; nothing else lives here. *)
From Coq Require Import ZArith Bool List.
From SC Require Import Num Vec3 Vec3_gen Mesh Geometry Geometry_gen.
Import ListNotations.

Definition vec3_tie : Prop :=
  (vec3_translation_ok = true :> bool) /\
  (forall (T : Type) (N : Num T) (a b : vec3 T) (s : T),
     vdot_gen N a b = vdot N a b /\
     vcross_gen N a b = vcross N a b /\
     vadd_gen N a b = vadd N a b /\
     vsub_gen N a b = vsub N a b /\
     vscale_gen N a s = vscale N a s /\
     vdivs_gen N a s = vdivs N a s /\
     vsqnorm_gen N a = vsqnorm N a /\
     vnorm_gen N a = vnorm N a /\
     vtranslate_gen N a b = vadd N a b).

Theorem vec3_model_is_what_the_source_says : vec3_tie.
Proof.
  unfold vec3_tie.
  split; [reflexivity|]. intros T N a b s.
  split; [reflexivity|]. split; [reflexivity|]. split; [reflexivity|]. split; [reflexivity|].
  split; [reflexivity|]. split; [reflexivity|]. split; [reflexivity|]. split; reflexivity.
Qed.
Print Assumptions vec3_model_is_what_the_source_says.

Definition geometry_tie : Prop :=
  (geometry_translation_ok = true :> bool) /\
  (forall (T : Type) (N : Num T) (p : vec3 T * vec3 T * vec3 T),
     face_normal_raw_gen N p = face_normal_raw N p /\
     face_area_gen N p = face_area N p /\
     face_normal_gen N p = face_normal N p /\
     vol_term_gen N p = vol_term N p /\
     face_centroid_gen N p = face_centroid N p /\
     orient_term_gen N p = orient_term N p) /\
  (forall (T : Type) (N : Num T) (tris : list (vec3 T * vec3 T * vec3 T)) (total_area : T),
     compute_volume N tris = vol_final_gen N (fold_left (fun v p => nadd N v (vol_term_gen N p)) tris (nzero N)) /\
     compute_area N tris = fold_left (fun s p => nadd N s (face_area_gen N p)) tris (nzero N) /\
     compute_centroid N tris total_area =
       centroid_final_gen N (fold_left (fun c p => centroid_step_gen N c p (face_area_gen N p)) tris (vzero N)) total_area /\
     orient_signed N tris = fold_left (fun v p => nadd N v (orient_term_gen N p)) tris (nzero N)) /\
  (forall (T : Type) (N : Num T) (q : vec3 T) (r : list (vec3 T)),
     aabb N (q :: r) = Some (fold_left (aabb_step_gen N) r (q, q))).

Theorem geometry_model_is_what_the_source_says : geometry_tie.
Proof.
  unfold geometry_tie.
  split; [reflexivity|]. split; [|split].
  - intros T N p. split; [reflexivity|]. split; [reflexivity|]. split; [reflexivity|].
    split; [reflexivity|]. split; reflexivity.
  - intros T N tris total_area. split; [reflexivity|]. split; [reflexivity|]. split; reflexivity.
  - intros T N q r. reflexivity.
Qed.
Print Assumptions geometry_model_is_what_the_source_says.
