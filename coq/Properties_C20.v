(* Properties_C20.v — property C20: spatial grids index every in-range point and never miss a neighbour.
   Only statements; every proof is `exact <lemma of GridProofs.v>`. Model: Grid.v instantiated at R with
   Flocq's Zfloor / Zceil. *)
From Coq Require Import Reals ZArith List Lia Lra Permutation.
From Flocq Require Import Core.Raux.
From SC Require Import Num Grid Grid_gen GridProofs FloatIO FloatGridProofs.
Import ListNotations.
Local Open Scope R_scope.

(* 0. THE MODEL IS THE SOURCE.  Grid_gen.v is regenerated on every run from update_dimensions of uspg_4d and uspg_3d,
   uspg_abstract::get_3d_voxel_index and get_voxel_index (harness/translate_grid.py).  The hand-written functions of Grid.v,
   on which everything below (and the grids of C06 and C13) rests, are those functions, for every number type and every
   floor / ceil. *)
Theorem grid_model_is_what_the_source_says : (grid_translation_ok = true :> bool) /\
  (forall (T : Type) (N : Num T) (fl ce : T -> Z) (eps s : T) (lo hi : T * T * T),
     update_dimensions_4d_gen N fl ce eps s lo hi = update_dimensions N ce eps s lo hi /\
     update_dimensions_3d_gen N fl ce eps s lo hi = update_dimensions N ce eps s lo hi) /\
  (forall (T : Type) (N : Num T) (fl ce : T -> Z) (g : dims (T:=T)) (p : T * T * T), idx3_gen N fl ce g p = idx3 N fl g p) /\
  (forall (T : Type) (g : dims (T:=T)) (i : Z * Z * Z), flat_gen g i = flat g i) /\
  (* get_neighborhood of both grids: the clamped block [i-1, i+2) per axis (x outer, z inner: checked by the translator) and the
     id under which a visited voxel is read *)
  (forall (n i : Z), nb_lo_gen i = nb_lo i /\ nb_hi_gen n i = nb_hi n i) /\
  (forall (T : Type) (g : dims (T:=T)) (i : Z * Z * Z), flat_nb_gen g i = flat g i).
Proof.
  split; [reflexivity|]. split; [|split; [|split; [|split]]]; cycle 3.
  - intros n i. split; reflexivity.
  - intros T g i. destruct g as [[[? ?] ?] [[? ?] ?] ?], i as [[? ?] ?]. reflexivity.
  - intros T N fl ce eps s lo hi. destruct lo as [[? ?] ?], hi as [[? ?] ?]. split; reflexivity.
  - intros T N fl ce g p. destruct g as [[[? ?] ?] [[? ?] ?] ?], p as [[? ?] ?]. reflexivity.
  - intros T g i. destruct g as [[[? ?] ?] [[? ?] ?] ?], i as [[? ?] ?]. reflexivity.
Qed.
Print Assumptions grid_model_is_what_the_source_says.

(* the R instance of the grid functions *)
Notation dimsR := (update_dimensions NumR Zceil).
Notation idx3R := (idx3 NumR Zfloor).

(* componentwise box membership *)
Definition in_box (lo hi p : R * R * R) : Prop :=
  let '(lx, ly, lz) := lo in let '(hx, hy, hz) := hi in let '(x, y, z) := p in
  lx <= x <= hx /\ ly <= y <= hy /\ lz <= z <= hz.
Definition box_ok (lo hi : R * R * R) : Prop :=
  let '(lx, ly, lz) := lo in let '(hx, hy, hz) := hi in lx < hx /\ ly < hy /\ lz < hz.

(* 1. every point of the closed declared box (faces and corners included) maps to an existing voxel *)
Theorem index_in_range : forall (eps s : R) (lo hi p : R * R * R),
  0 <= eps -> 0 < s -> box_ok lo hi -> in_box lo hi p ->
  in_range (dimsR eps s lo hi) (idx3R (dimsR eps s lo hi) p) = true.
Proof. exact index_in_range_R. Qed.
Print Assumptions index_in_range.

(* 2. the flattened voxel id is injective on in-range triples and lies inside the voxel vector *)
Theorem flatten_injective : forall (g : dims (T:=R)) (i j : Z * Z * Z),
  in_range g i = true -> in_range g j = true -> flat g i = flat g j -> i = j.
Proof. exact flat_inj. Qed.
Print Assumptions flatten_injective.

Theorem flatten_in_vector : forall (g : dims (T:=R)) (i : Z * Z * Z),
  in_range g i = true -> (0 <= flat g i < nvox g)%Z.
Proof. exact flat_bounds. Qed.
Print Assumptions flatten_in_vector.

(* 3. an object is retrievable from the voxel it was placed in, and no other voxel changes *)
Theorem place_then_retrieve : forall (A : Type) (g : dims (T:=R)) (st st' : store (A:=A)) (p : R * R * R) (o : A),
  length st = Z.to_nat (nvox g) ->
  place NumR Zfloor g st p o = Some st' ->
  In o (content st' (flat g (idx3R g p))) /\
  length st' = length st /\
  (forall v, (0 <= v)%Z -> v <> flat g (idx3R g p) -> content st' v = content st v).
Proof. exact place_retrieve. Qed.
Print Assumptions place_then_retrieve.

Theorem place3_then_retrieve : forall (A : Type) (g : dims (T:=R)) (st st' : store3 (A:=A)) (p : R * R * R) (o : A),
  length st = Z.to_nat (nvox g) ->
  place3 NumR Zfloor g st p o = Some st' ->
  content3 st' (flat g (idx3R g p)) = Some o.
Proof. exact place3_retrieve. Qed.
Print Assumptions place3_then_retrieve.

(* 4. the full-content query returns each stored object exactly once: after any sequence of placements
      into an initially empty grid it is a permutation of the objects placed *)
Fixpoint place_all {A} (g : dims (T:=R)) (st : store (A:=A)) (l : list ((R * R * R) * A)) : option (store (A:=A)) :=
  match l with
  | [] => Some st
  | (p, o) :: r => match place NumR Zfloor g st p o with Some st' => place_all g st' r | None => None end
  end.

Theorem content_is_permutation_of_placed : forall (A : Type) (g : dims (T:=R)) (l : list ((R * R * R) * A)) (st : store (A:=A)),
  (let '(nx, ny, nz) := d_nb g in 0 <= nx /\ 0 <= ny /\ 0 <= nz)%Z ->
  place_all g (empty_store g) l = Some st ->
  Permutation (grid_content g st) (map snd l).
Proof. exact content_perm. Qed.
Print Assumptions content_is_permutation_of_placed.

(* 5. a neighbourhood query returns every stored object within one voxel size (max-norm, hence Euclidean) *)
Theorem neighbourhood_complete : forall (A : Type) (eps s : R) (lo hi p q : R * R * R) (st : store (A:=A)) (o : A),
  0 <= eps -> 0 < s -> box_ok lo hi -> in_box lo hi p -> in_box lo hi q ->
  (let '(px, py, pz) := p in let '(qx, qy, qz) := q in
   Rabs (px - qx) <= s /\ Rabs (py - qy) <= s /\ Rabs (pz - qz) <= s) ->
  let g := dimsR eps s lo hi in
  In o (content st (flat g (idx3R g q))) ->
  In o (neighborhood NumR Zfloor g st p).
Proof. exact nbh_complete. Qed.
Print Assumptions neighbourhood_complete.

(* ... and only stored objects of the visited (existing) voxels *)
Theorem neighbourhood_sound : forall (A : Type) (g : dims (T:=R)) (st : store (A:=A)) (p : R * R * R) (o : A),
  In o (neighborhood NumR Zfloor g st p) ->
  exists v, In v (block g (idx3R g p)) /\ In o (content st (flat g v)).
Proof. exact nbh_sound. Qed.
Print Assumptions neighbourhood_sound.

(* non-vacuity: the box [2,3]^3 with voxel size 1/4 (the witness of the defect fixed in /repo:
   extent a multiple of the voxel size, epsilon absorbed) satisfies the hypotheses, corner included *)
Example box_witness : box_ok (2,2,2) (3,3,3) /\ in_box (2,2,2) (3,3,3) (3,3,3).
Proof. unfold box_ok, in_box. lra. Qed.

(* 6. AT BINARY64: the voxel index that is extracted and run (Grid.idx1 with Coq's primitive floats and the exact floor of
   FloatIO.v) is monotone, and a point between two points gets an index between theirs.  fR x is the real value of the
   float x (Flocq's B2R after Prim2B), ffin x its finiteness.  This is the fact on which "a node inside the padded box of a
   face finds that face in its own voxel" (C06) and "an object is found from every point within one voxel size" rest; over R
   it is the monotonicity of floor((x - min)/s), here it holds for the rounded subtraction and division as well. *)
Module Binary64.
  Import FloatGridProofs.
  Theorem voxel_index_monotone_binary64 : forall (lo s : PrimFloat.float) (nb : Z) (x y : PrimFloat.float),
    (0 < fR s)%R -> (fR x <= fR y)%R ->
    ffin (PrimFloat.div (PrimFloat.sub x lo) s) = true -> ffin (PrimFloat.div (PrimFloat.sub y lo) s) = true ->
    (idx1 NumF FloatIO.f_floorZ lo s nb x <= idx1 NumF FloatIO.f_floorZ lo s nb y)%Z.
  Proof. exact f_idx1_monotone_weak. Qed.
  Print Assumptions voxel_index_monotone_binary64.

  Theorem voxel_index_between_binary64 : forall (lo s : PrimFloat.float) (nb : Z) (a x b : PrimFloat.float),
    ffin x = true -> (0 < fR s)%R -> (fR a <= fR x <= fR b)%R ->
    ffin (PrimFloat.div (PrimFloat.sub a lo) s) = true -> ffin (PrimFloat.div (PrimFloat.sub b lo) s) = true ->
    ffin (PrimFloat.div (PrimFloat.sub x lo) s) = true /\
    (idx1 NumF FloatIO.f_floorZ lo s nb a <= idx1 NumF FloatIO.f_floorZ lo s nb x <= idx1 NumF FloatIO.f_floorZ lo s nb b)%Z.
  Proof. exact f_idx1_between_weak. Qed.
  Print Assumptions voxel_index_between_binary64.

  (* the model's floor is the mathematical floor of the float's value *)
  Theorem float_floor_is_floor : forall x : PrimFloat.float, ffin x = true -> FloatIO.f_floorZ x = Raux.Zfloor (fR x).
  Proof. exact f_floorZ_spec. Qed.
  Print Assumptions float_floor_is_floor.
End Binary64.

(* WHAT THE REGENERATED CODE DOES: the first statement of C20 about the translated functions themselves (update_dimensions of the
   list-per-voxel grid and get_3d_voxel_index as regenerated from the headers, at R): every point of the closed declared box maps to
   an existing voxel.  (Convertible with the model: the proof is the model's.) *)
Theorem regenerated_index_in_range : forall (eps s lx ly lz hx hy hz px py pz : R),
  0 <= eps -> 0 < s -> box_ok (lx, ly, lz) (hx, hy, hz) -> in_box (lx, ly, lz) (hx, hy, hz) (px, py, pz) ->
  in_range (update_dimensions_4d_gen NumR Zfloor Zceil eps s (lx, ly, lz) (hx, hy, hz))
           (idx3_gen NumR Zfloor Zceil (update_dimensions_4d_gen NumR Zfloor Zceil eps s (lx, ly, lz) (hx, hy, hz)) (px, py, pz)) = true.
Proof. intros eps s lx ly lz hx hy hz px py pz H0 H1 H2 H3. exact (index_in_range eps s (lx, ly, lz) (hx, hy, hz) (px, py, pz) H0 H1 H2 H3). Qed.
Print Assumptions regenerated_index_in_range.
