(* IntegratorProofs.v — proofs for property C03: the loop of Integrator.step (contact models 0 and 1) gives every
   node the value prescribed by IntegratorSpec.final0 / final1; well-formedness is preserved; closed forms. *)
From Coq Require Import Reals ZArith Bool List Lia Lra Arith.
From SC Require Import Num Vec3 VecR Integrator IntegratorSpec.
Import ListNotations.
Local Open Scope R_scope.

(* ------------------------------------------------------------------ set_nth *)
Lemma set_nth_length {A} (l : list A) k x : length (set_nth l k x) = length l.
Proof.
  revert k; induction l as [|y r IH]; intros k; [reflexivity|].
  destruct k as [|k]; cbn [set_nth length]; [reflexivity|]. now rewrite IH.
Qed.

Lemma nth_set_nth_eq {A} (l : list A) k x d : (k < length l)%nat -> nth k (set_nth l k x) d = x.
Proof.
  revert k; induction l as [|y r IH]; intros k Hk; cbn [length] in Hk; [lia|].
  destruct k as [|k]; cbn [set_nth nth]; [reflexivity|]. apply IH; lia.
Qed.

Lemma nth_set_nth_neq {A} (l : list A) k g x d : g <> k -> nth g (set_nth l k x) d = nth g l d.
Proof.
  revert k g; induction l as [|y r IH]; intros k g Hgk.
  - cbn [set_nth]. reflexivity.
  - destruct k as [|k]; destruct g as [|g]; cbn [set_nth nth]; try reflexivity; try lia.
    apply IH; lia.
Qed.

Lemma nth_map_seq {A} (f : nat -> A) len g d : (g < len)%nat -> nth g (map f (seq 0 len)) d = f g.
Proof.
  intros Hg. rewrite (nth_indep _ d (f 0%nat)) by (now rewrite map_length, seq_length).
  rewrite map_nth. rewrite seq_nth by exact Hg. reflexivity.
Qed.

Lemma list_eq_map_seq {A} (f : nat -> A) (l : list A) d :
  (forall g, (g < length l)%nat -> nth g l d = f g) -> l = map f (seq 0 (length l)).
Proof.
  intros H. apply (nth_ext _ _ d d).
  - now rewrite map_length, seq_length.
  - intros g Hg. rewrite nth_map_seq by exact Hg. now apply H.
Qed.

(* ------------------------------------------------------------------ time *)
Lemma step_time : forall contact over dt damping (s : stateR),
  s_time (step NumR contact over dt damping s) = s_time s + dt.
Proof. intros. reflexivity. Qed.

Lemma steps_time : forall n contact over dt damping (s : stateR),
  s_time (steps NumR n contact over dt damping s) = s_time s + INR n * dt.
Proof.
  induction n as [|n IH]; intros contact over dt damping s.
  - cbn [steps INR]. ring.
  - cbn [steps]. rewrite IH, step_time, S_INR. ring.
Qed.

(* ------------------------------------------------------------------ fields the updates never touch *)
Definition same_meta (a b : inodeR) : Prop :=
  n_used a = n_used b /\ n_cell a = n_cell b /\ n_cpl a = n_cpl b /\ n_cpls a = n_cpls b.

Lemma same_meta_refl a : same_meta a a.
Proof. repeat split. Qed.

Lemma upd_single_meta over dt damping m n : same_meta (upd_single NumR over dt damping m n) n.
Proof. unfold upd_single, upd_over, upd_dyn; destruct over; repeat split. Qed.

Lemma upd_pair_meta_fst over dt damping m1 m2 n1 n2 :
  same_meta (fst (upd_pair NumR over dt damping m1 m2 n1 n2)) n1.
Proof. unfold upd_pair; destruct over; repeat split. Qed.

Lemma upd_pair_meta_snd over dt damping m1 m2 n1 n2 :
  same_meta (snd (upd_pair NumR over dt damping m1 m2 n1 n2)) n2.
Proof. unfold upd_pair; destruct over; repeat split. Qed.

Lemma final1_meta over dt damping s g : same_meta (final1 over dt damping s g) (node_at s g).
Proof.
  unfold final1. destruct (integrated s (node_at s g)); [|apply same_meta_refl].
  destruct (n_cpl (node_at s g)) as [h|]; [|apply upd_single_meta].
  destruct (Nat.ltb _ _); [apply upd_pair_meta_fst|apply upd_pair_meta_snd].
Qed.

Lemma integrated_meta s a b : same_meta a b -> integrated s a = integrated s b.
Proof. intros (Hu & Hc & _ & _). unfold integrated, cell_of. now rewrite Hu, Hc. Qed.

Lemma integrated_split s n :
  integrated s n = true <-> c_static (cell_of s n) = false /\ n_used n = true.
Proof.
  unfold integrated. rewrite andb_true_iff, negb_true_iff. tauto.
Qed.

Lemma integrated_false s n :
  integrated s n = false -> c_static (cell_of s n) = true \/ n_used n = false.
Proof.
  unfold integrated. rewrite andb_false_iff, negb_false_iff. tauto.
Qed.

(* ------------------------------------------------------------------ process1 / process0, case by case *)
Section Proc.
  Variables (over : bool) (dt damping : R) (cells : list icellR) (nodes : list inodeR) (k : nat).
  Let n1 := nth k nodes dnodeR.
  Let c1 := nth (n_cell n1) cells dcellR.

  Lemma process1_nonint :
    c_static c1 = true \/ n_used n1 = false -> process1 NumR over dt damping cells nodes k = nodes.
  Proof.
    intros H. unfold process1. fold n1. fold c1.
    destruct (c_static c1); [reflexivity|].
    destruct H as [H|H]; [discriminate|]. rewrite H. reflexivity.
  Qed.

  Lemma process1_single :
    c_static c1 = false -> n_used n1 = true -> n_cpl n1 = None ->
    process1 NumR over dt damping cells nodes k =
    set_nth nodes k (upd_single NumR over dt damping (c_mass c1) n1).
  Proof.
    intros Hs Hu Hc. unfold process1. fold n1. fold c1. rewrite Hs, Hu, Hc. reflexivity.
  Qed.

  Lemma process1_skip h :
    c_static c1 = false -> n_used n1 = true -> n_cpl n1 = Some h ->
    Nat.ltb (n_cell (nth h nodes dnodeR)) (c_local c1) = false ->
    process1 NumR over dt damping cells nodes k = nodes.
  Proof.
    intros Hs Hu Hc Hlt. unfold process1. fold n1. fold c1. rewrite Hs, Hu, Hc. cbn [negb].
    rewrite Hlt. reflexivity.
  Qed.

  Lemma process1_pair h :
    c_static c1 = false -> n_used n1 = true -> n_cpl n1 = Some h ->
    Nat.ltb (n_cell (nth h nodes dnodeR)) (c_local c1) = true ->
    let n2 := nth h nodes dnodeR in
    let r := upd_pair NumR over dt damping (c_mass c1) (c_mass (nth (n_cell n2) cells dcellR)) n1 n2 in
    process1 NumR over dt damping cells nodes k = set_nth (set_nth nodes k (fst r)) h (snd r).
  Proof.
    intros Hs Hu Hc Hlt n2 r. unfold process1. fold n1. fold c1. rewrite Hs, Hu, Hc. cbn [negb].
    fold n2. unfold n2 in Hlt |- *. rewrite Hlt. fold n2. fold r. destruct r as [a b]. reflexivity.
  Qed.

  Lemma process0_nonint :
    c_static c1 = true \/ n_used n1 = false -> process0 NumR over dt damping cells nodes k = nodes.
  Proof.
    intros H. unfold process0. fold n1. fold c1.
    destruct (c_static c1); [reflexivity|].
    destruct H as [H|H]; [discriminate|]. rewrite H. reflexivity.
  Qed.

  Lemma process0_single :
    c_static c1 = false -> n_used n1 = true ->
    process0 NumR over dt damping cells nodes k =
    set_nth nodes k (upd_single NumR over dt damping (c_mass c1) n1).
  Proof.
    intros Hs Hu. unfold process0. fold n1. fold c1. rewrite Hs, Hu. reflexivity.
  Qed.
End Proc.

(* ------------------------------------------------------------------ contact model 0 *)
Section Step0.
  Variables (over : bool) (dt damping : R) (s : stateR).
  Let len := length (s_nodes s).
  Let cells := s_cells s.

  Definition Inv0 (k : nat) (cur : list inodeR) : Prop :=
    length cur = len /\
    forall g, (g < len)%nat ->
      nth g cur dnodeR = if Nat.ltb g k then final0 over dt damping s g else node_at s g.

  Lemma Inv0_step k cur : (k < len)%nat -> Inv0 k cur ->
    Inv0 (S k) (process0 NumR over dt damping cells cur k).
  Proof.
    intros Hk [Hlen Hnth].
    assert (Hk0 : nth k cur dnodeR = node_at s k).
    { rewrite (Hnth k Hk). rewrite Nat.ltb_irrefl. reflexivity. }
    destruct (integrated s (node_at s k)) eqn:Hint.
    - apply integrated_split in Hint. destruct Hint as [Hst Hus].
      rewrite process0_single; rewrite Hk0; try assumption.
      split; [now rewrite set_nth_length|].
      intros g Hg. destruct (Nat.eq_dec g k) as [->|Hne].
      + rewrite nth_set_nth_eq by lia.
        assert (Hlt : Nat.ltb k (S k) = true) by (apply Nat.ltb_lt; lia). rewrite Hlt.
        unfold final0. unfold integrated. rewrite Hst, Hus. reflexivity.
      + rewrite nth_set_nth_neq by exact Hne. rewrite (Hnth g Hg).
        assert (Hlt : Nat.ltb g (S k) = Nat.ltb g k).
        { destruct (Nat.ltb g k) eqn:E; [apply Nat.ltb_lt in E; apply Nat.ltb_lt; lia
                                        |apply Nat.ltb_ge in E; apply Nat.ltb_ge; lia]. }
        rewrite Hlt. reflexivity.
    - pose proof (integrated_false _ _ Hint) as Hni.
      rewrite process0_nonint by (rewrite Hk0; exact Hni).
      split; [exact Hlen|].
      intros g Hg. rewrite (Hnth g Hg). destruct (Nat.eq_dec g k) as [->|Hne].
      + rewrite Nat.ltb_irrefl.
        assert (Hlt : Nat.ltb k (S k) = true) by (apply Nat.ltb_lt; lia). rewrite Hlt.
        unfold final0. rewrite Hint. reflexivity.
      + assert (Hlt : Nat.ltb g (S k) = Nat.ltb g k).
        { destruct (Nat.ltb g k) eqn:E; [apply Nat.ltb_lt in E; apply Nat.ltb_lt; lia
                                        |apply Nat.ltb_ge in E; apply Nat.ltb_ge; lia]. }
        rewrite Hlt. reflexivity.
  Qed.

  Lemma Inv0_fold n : forall k cur, (k + n = len)%nat -> Inv0 k cur ->
    Inv0 len (fold_left (process0 NumR over dt damping cells) (seq k n) cur).
  Proof.
    induction n as [|n IH]; intros k cur Hkn HI.
    - cbn [seq fold_left]. replace len with k by lia. exact HI.
    - cbn [seq fold_left]. apply IH; [lia|]. apply Inv0_step; [lia|exact HI].
  Qed.

  Lemma step0_nodes :
    s_nodes (step NumR 0 over dt damping s) = map (final0 over dt damping s) (seq 0 len).
  Proof.
    assert (HI : Inv0 len (fold_left (process0 NumR over dt damping cells) (seq 0 len) (s_nodes s))).
    { apply Inv0_fold; [lia|]. split; [reflexivity|]. intros g Hg. reflexivity. }
    destruct HI as [Hlen Hnth].
    unfold step. cbn [s_nodes]. fold len. fold cells.
    set (res := fold_left _ _ _) in *.
    rewrite <- Hlen. apply (list_eq_map_seq _ _ dnodeR).
    intros g Hg. rewrite Hlen in Hg. rewrite (Hnth g Hg).
    assert (Hlt : Nat.ltb g len = true) by (apply Nat.ltb_lt; exact Hg). rewrite Hlt. reflexivity.
  Qed.
End Step0.

Lemma step0_spec : forall over dt damping (s : stateR),
  (forall g, (g < length (s_nodes s))%nat -> (n_cell (node_at s g) < length (s_cells s))%nat) ->
  s_nodes (step NumR 0 over dt damping s) = map (final0 over dt damping s) (seq 0 (length (s_nodes s))).
Proof. intros over dt damping s _. apply step0_nodes. Qed.

(* ------------------------------------------------------------------ contact model 1 *)
Section Step1.
  Variables (over : bool) (dt damping : R) (s : stateR).
  Hypothesis HWF : WF s.
  Let len := length (s_nodes s).
  Let cells := s_cells s.

  Lemma WF_cell g : (g < len)%nat -> (n_cell (node_at s g) < length cells)%nat.
  Proof. destruct HWF as (H & _ & _). exact (H g). Qed.

  Lemma WF_local g : (g < len)%nat -> c_local (cell_of s (node_at s g)) = n_cell (node_at s g).
  Proof. intros Hg. destruct HWF as (_ & H & _). unfold cell_of. apply H. now apply WF_cell. Qed.

  Lemma WF_cpl g h : (g < len)%nat -> integrated s (node_at s g) = true -> n_cpl (node_at s g) = Some h ->
    (h < len)%nat /\ n_cpl (node_at s h) = Some g /\
    n_cell (node_at s h) <> n_cell (node_at s g) /\ integrated s (node_at s h) = true.
  Proof. destruct HWF as (_ & _ & H). exact (H g h). Qed.

  (* the loop index at which node g receives its final value *)
  Definition owner (g : nat) : nat :=
    let n := node_at s g in
    if integrated s n then
      match n_cpl n with
      | None => g
      | Some h => if Nat.ltb (n_cell (node_at s h)) (n_cell n) then g else h
      end
    else g.

  Lemma owner_lt g : (g < len)%nat -> (owner g < len)%nat.
  Proof.
    intros Hg. unfold owner. destruct (integrated s (node_at s g)) eqn:Hint; [|exact Hg].
    destruct (n_cpl (node_at s g)) as [h|] eqn:Hc; [|exact Hg].
    destruct (Nat.ltb _ _); [exact Hg|]. now destruct (WF_cpl g h Hg Hint Hc).
  Qed.

  (* who is written at loop index k *)
  Lemma owner_inv g k : (g < len)%nat -> owner g = k ->
    g = k \/
    (g <> k /\ integrated s (node_at s k) = true /\ n_cpl (node_at s k) = Some g /\
     (n_cell (node_at s g) < n_cell (node_at s k))%nat).
  Proof.
    intros Hg. unfold owner. destruct (integrated s (node_at s g)) eqn:Hint; [|now left].
    destruct (n_cpl (node_at s g)) as [h|] eqn:Hc; [|now left].
    destruct (WF_cpl g h Hg Hint Hc) as (Hh & Hch & Hne & Hinth).
    destruct (Nat.ltb _ _) eqn:Hlt; [now left|].
    intros <-. right. apply Nat.ltb_ge in Hlt.
    repeat split; try assumption; try lia.
    intros ->. apply Hne. reflexivity.
  Qed.

  Definition Inv1 (k : nat) (cur : list inodeR) : Prop :=
    length cur = len /\
    forall g, (g < len)%nat ->
      nth g cur dnodeR = if Nat.ltb (owner g) k then final1 over dt damping s g else node_at s g.

  Lemma Inv1_meta k cur g : Inv1 k cur -> (g < len)%nat -> same_meta (nth g cur dnodeR) (node_at s g).
  Proof.
    intros [_ Hnth] Hg. rewrite (Hnth g Hg). destruct (Nat.ltb _ _); [apply final1_meta|apply same_meta_refl].
  Qed.

  Lemma ltb_S_other a k : a <> k -> Nat.ltb a (S k) = Nat.ltb a k.
  Proof.
    intros Hne. destruct (Nat.ltb a k) eqn:E;
      [apply Nat.ltb_lt in E; apply Nat.ltb_lt; lia|apply Nat.ltb_ge in E; apply Nat.ltb_ge; lia].
  Qed.

  Lemma ltb_S_self k : Nat.ltb k (S k) = true.
  Proof. apply Nat.ltb_lt; lia. Qed.

  (* the loop body leaves the list alone and nobody is owned by k (except possibly a no-op k itself) *)
  Lemma Inv1_keep k cur :
    Inv1 k cur ->
    (forall g, (g < len)%nat -> owner g = k -> final1 over dt damping s g = node_at s g) ->
    Inv1 (S k) cur.
  Proof.
    intros [Hlen Hnth] Hown. split; [exact Hlen|].
    intros g Hg. rewrite (Hnth g Hg).
    destruct (Nat.eq_dec (owner g) k) as [He|Hne].
    - rewrite He, Nat.ltb_irrefl, ltb_S_self. symmetry. now apply Hown.
    - now rewrite ltb_S_other.
  Qed.

  Lemma Inv1_step k cur : (k < len)%nat -> Inv1 k cur ->
    Inv1 (S k) (process1 NumR over dt damping cells cur k).
  Proof.
    intros Hk HI.
    pose proof (Inv1_meta k cur k HI Hk) as (Hmu & Hmc & Hmp & _).
    destruct HI as [Hlen Hnth].
    assert (Hc1 : nth (n_cell (nth k cur dnodeR)) cells dcellR = cell_of s (node_at s k)).
    { rewrite Hmc. reflexivity. }
    destruct (integrated s (node_at s k)) eqn:Hint.
    2:{ (* not integrated: untouched *)
      pose proof (integrated_false _ _ Hint) as Hni.
      rewrite process1_nonint by (rewrite Hc1, Hmu; exact Hni).
      apply Inv1_keep; [split; assumption|].
      intros g Hg Ho. destruct (owner_inv g k Hg Ho) as [->|(_ & Hint' & _)].
      - unfold final1. rewrite Hint. reflexivity.
      - congruence. }
    pose proof Hint as Hint0.
    apply integrated_split in Hint. destruct Hint as [Hst Hus].
    destruct (n_cpl (node_at s k)) as [h|] eqn:Hcp.
    2:{ (* uncoupled *)
      assert (Hok : owner k = k). { unfold owner. rewrite Hint0, Hcp. reflexivity. }
      assert (Hk0 : nth k cur dnodeR = node_at s k).
      { rewrite (Hnth k Hk), Hok, Nat.ltb_irrefl. reflexivity. }
      rewrite process1_single;
        [ | rewrite Hc1; exact Hst | rewrite Hmu; exact Hus | exact Hmp ].
      rewrite Hc1, Hk0.
      split; [now rewrite set_nth_length|].
      intros g Hg. destruct (Nat.eq_dec g k) as [->|Hne].
      - rewrite nth_set_nth_eq by lia. rewrite Hok, ltb_S_self.
        unfold final1. rewrite Hint0, Hcp. reflexivity.
      - rewrite nth_set_nth_neq by exact Hne. rewrite (Hnth g Hg).
        destruct (Nat.eq_dec (owner g) k) as [He|Hno].
        + destruct (owner_inv g k Hg He) as [->|(_ & _ & Hcp' & _)]; [contradiction|congruence].
        + now rewrite ltb_S_other. }
    (* coupled *)
    destruct (WF_cpl k h Hk Hint0 Hcp) as (Hh & Hch & Hne & Hinth).
    pose proof (Inv1_meta k cur h (conj Hlen Hnth) Hh) as (_ & Hhc & _ & _).
    assert (Hloc : c_local (cell_of s (node_at s k)) = n_cell (node_at s k)) by now apply WF_local.
    destruct (Nat.ltb (n_cell (node_at s h)) (n_cell (node_at s k))) eqn:Hlt.
    - (* k is the member with the larger cell index: update the pair *)
      assert (Hok : owner k = k). { unfold owner. rewrite Hint0, Hcp, Hlt. reflexivity. }
      assert (Hoh : owner h = k).
      { unfold owner. rewrite Hinth, Hch.
        assert (E : Nat.ltb (n_cell (node_at s k)) (n_cell (node_at s h)) = false).
        { apply Nat.ltb_lt in Hlt. apply Nat.ltb_ge. lia. }
        rewrite E. reflexivity. }
      assert (Hk0 : nth k cur dnodeR = node_at s k).
      { rewrite (Hnth k Hk), Hok, Nat.ltb_irrefl. reflexivity. }
      assert (Hh0 : nth h cur dnodeR = node_at s h).
      { rewrite (Hnth h Hh), Hoh, Nat.ltb_irrefl. reflexivity. }
      assert (Hkh : h <> k). { intros ->. apply Hne. reflexivity. }
      rewrite (process1_pair over dt damping cells cur k h);
        [ | rewrite Hc1; exact Hst | rewrite Hmu; exact Hus | exact Hmp
          | rewrite Hhc, Hc1, Hloc; exact Hlt ].
      rewrite Hc1, Hk0, Hh0.
      split; [now rewrite !set_nth_length|].
      intros g Hg. destruct (Nat.eq_dec g h) as [->|Hgh].
      + rewrite nth_set_nth_eq by (rewrite set_nth_length; lia).
        rewrite Hoh, ltb_S_self.
        unfold final1. rewrite Hinth, Hch.
        assert (E : Nat.ltb (n_cell (node_at s k)) (n_cell (node_at s h)) = false).
        { apply Nat.ltb_lt in Hlt. apply Nat.ltb_ge. lia. }
        rewrite E. reflexivity.
      + rewrite nth_set_nth_neq by exact Hgh.
        destruct (Nat.eq_dec g k) as [->|Hgk].
        * rewrite nth_set_nth_eq by lia. rewrite Hok, ltb_S_self.
          unfold final1. rewrite Hint0, Hcp, Hlt. reflexivity.
        * rewrite nth_set_nth_neq by exact Hgk. rewrite (Hnth g Hg).
          destruct (Nat.eq_dec (owner g) k) as [He|Hno].
          -- destruct (owner_inv g k Hg He) as [->|(_ & _ & Hcp' & _)]; [contradiction|congruence].
          -- now rewrite ltb_S_other.
    - (* k is the member with the smaller cell index: skipped here *)
      rewrite (process1_skip over dt damping cells cur k h);
        [ | rewrite Hc1; exact Hst | rewrite Hmu; exact Hus | exact Hmp
          | rewrite Hhc, Hc1, Hloc; exact Hlt ].
      assert (Hok : owner k = h). { unfold owner. rewrite Hint0, Hcp, Hlt. reflexivity. }
      apply Inv1_keep; [split; assumption|].
      intros g Hg Ho. exfalso.
      destruct (owner_inv g k Hg Ho) as [->|(_ & _ & Hcp' & Hlt')].
      + assert (Ehk : h = k) by (rewrite <- Hok; exact Ho).
        rewrite Ehk in Hne. apply Hne. reflexivity.
      + rewrite Hcp in Hcp'. injection Hcp' as ->. apply Nat.ltb_ge in Hlt. lia.
  Qed.

  Lemma Inv1_fold n : forall k cur, (k + n = len)%nat -> Inv1 k cur ->
    Inv1 len (fold_left (process1 NumR over dt damping cells) (seq k n) cur).
  Proof.
    induction n as [|n IH]; intros k cur Hkn HI.
    - cbn [seq fold_left]. replace len with k by lia. exact HI.
    - cbn [seq fold_left]. apply IH; [lia|]. apply Inv1_step; [lia|exact HI].
  Qed.

  Lemma step1_nodes :
    s_nodes (step NumR 1 over dt damping s) = map (final1 over dt damping s) (seq 0 len).
  Proof.
    assert (HI : Inv1 len (fold_left (process1 NumR over dt damping cells) (seq 0 len) (s_nodes s))).
    { apply Inv1_fold; [lia|]. split; [reflexivity|]. intros g Hg. reflexivity. }
    destruct HI as [Hlen Hnth].
    unfold step. cbn [s_nodes]. fold len. fold cells.
    set (res := fold_left _ _ _) in *.
    rewrite <- Hlen. apply (list_eq_map_seq _ _ dnodeR).
    intros g Hg. rewrite Hlen in Hg. rewrite (Hnth g Hg).
    assert (Hlt : Nat.ltb (owner g) len = true) by (apply Nat.ltb_lt; now apply owner_lt).
    rewrite Hlt. reflexivity.
  Qed.
End Step1.

Lemma step1_spec : forall over dt damping (s : stateR), WF s ->
  s_nodes (step NumR 1 over dt damping s) = map (final1 over dt damping s) (seq 0 (length (s_nodes s))) /\
  s_cells (step NumR 1 over dt damping s) = s_cells s.
Proof. intros over dt damping s HWF. split; [now apply step1_nodes|reflexivity]. Qed.

Lemma step1_WF : forall over dt damping (s : stateR), WF s -> WF (step NumR 1 over dt damping s).
Proof.
  intros over dt damping s HWF.
  destruct (step1_spec over dt damping s HWF) as [Hn Hc].
  set (s' := step NumR 1 over dt damping s) in *.
  assert (Hlen : length (s_nodes s') = length (s_nodes s)).
  { rewrite Hn, map_length, seq_length. reflexivity. }
  assert (Hat : forall g, (g < length (s_nodes s))%nat -> node_at s' g = final1 over dt damping s g).
  { intros g Hg. unfold node_at at 1. rewrite Hn. now apply nth_map_seq. }
  assert (Hint : forall n, integrated s' n = integrated s n).
  { intros n. unfold integrated, cell_of. rewrite Hc. reflexivity. }
  pose proof HWF as (H1 & H2 & H3).
  unfold WF. rewrite Hlen, Hc. split; [|split].
  - intros g Hg. rewrite (Hat g Hg).
    destruct (final1_meta over dt damping s g) as (_ & Hmc & _ & _). rewrite Hmc. now apply H1.
  - exact H2.
  - intros g h Hg. rewrite (Hat g Hg), Hint.
    pose proof (final1_meta over dt damping s g) as Hmg.
    rewrite (integrated_meta s _ _ Hmg).
    destruct Hmg as (_ & Hgc & Hgp & _). rewrite Hgp, Hgc.
    intros Hi Hcp. destruct (H3 g h Hg Hi Hcp) as (Hh & Hch & Hne & Hih).
    rewrite (Hat h Hh), Hint.
    pose proof (final1_meta over dt damping s h) as Hmh.
    rewrite (integrated_meta s _ _ Hmh).
    destruct Hmh as (_ & Hhc & Hhp & _). rewrite Hhp, Hhc.
    repeat split; assumption.
Qed.

(* ------------------------------------------------------------------ closed forms *)
Lemma upd_dyn_closed : forall dt damping m (n : inodeR),
  let n' := upd_single NumR false dt damping m n in
  n_mom n' = n_mom n +v (n_force n -v n_mom n *v (damping / m)) *v dt /\
  n_pos n' = n_pos n +v n_mom n' *v (dt / m) /\
  n_force n' = mkv 0 0 0.
Proof. intros dt damping m n n'. repeat split. Qed.

Lemma upd_over_closed : forall dt damping m (n : inodeR),
  let n' := upd_single NumR true dt damping m n in
  n_pos n' = n_pos n +v n_force n *v (dt / damping) /\ n_force n' = mkv 0 0 0.
Proof. intros dt damping m n n'. repeat split. Qed.

Lemma upd_single_force over dt damping m n : n_force (upd_single NumR over dt damping m n) = mkv 0 0 0.
Proof. destruct over; reflexivity. Qed.

Lemma upd_pair_force_fst over dt damping m1 m2 n1 n2 :
  n_force (fst (upd_pair NumR over dt damping m1 m2 n1 n2)) = mkv 0 0 0.
Proof. destruct over; reflexivity. Qed.

Lemma upd_pair_force_snd over dt damping m1 m2 n1 n2 :
  n_force (snd (upd_pair NumR over dt damping m1 m2 n1 n2)) = mkv 0 0 0.
Proof. destruct over; reflexivity. Qed.

Lemma final1_force_zero : forall over dt damping (s : stateR) g, WF s ->
  (g < length (s_nodes s))%nat -> integrated s (node_at s g) = true ->
  n_force (final1 over dt damping s g) = mkv 0 0 0.
Proof.
  intros over dt damping s g _ _ Hint. unfold final1. rewrite Hint.
  destruct (n_cpl (node_at s g)) as [h|]; [|apply upd_single_force].
  destruct (Nat.ltb _ _); [apply upd_pair_force_fst|apply upd_pair_force_snd].
Qed.

Lemma final1_static : forall over dt damping (s : stateR) g,
  integrated s (node_at s g) = false -> final1 over dt damping s g = node_at s g.
Proof. intros over dt damping s g Hint. unfold final1. rewrite Hint. reflexivity. Qed.

(* ------------------------------------------------------------------ coupled pairs *)
Lemma vadd_sub_cancel (p d : vR) : (p +v d) -v p = d.
Proof. destruct p as [a b c], d as [a' b' c']. vring. Qed.

Lemma upd_pair_displacement over dt damping m1 m2 (n1 n2 : inodeR) :
  let r := upd_pair NumR over dt damping m1 m2 n1 n2 in
  n_pos (fst r) -v n_pos n1 = n_pos (snd r) -v n_pos n2 /\
  (over = false -> n_mom (fst r) = n_mom (snd r)).
Proof.
  unfold upd_pair; destruct over; cbn [fst snd n_pos n_mom]; split; try reflexivity;
    try (intros; discriminate); now rewrite !vadd_sub_cancel.
Qed.

Lemma pair_same_displacement : forall over dt damping (s : stateR) g h, WF s ->
  (g < length (s_nodes s))%nat -> integrated s (node_at s g) = true -> n_cpl (node_at s g) = Some h ->
  n_pos (final1 over dt damping s g) -v n_pos (node_at s g) = n_pos (final1 over dt damping s h) -v n_pos (node_at s h) /\
  (over = false -> n_mom (final1 over dt damping s g) = n_mom (final1 over dt damping s h)).
Proof.
  intros over dt damping s g h HWF Hg Hint Hcp.
  destruct (WF_cpl s HWF g h Hg Hint Hcp) as (Hh & Hch & Hne & Hinth).
  unfold final1. rewrite Hint, Hinth, Hcp, Hch.
  destruct (Nat.ltb (n_cell (node_at s h)) (n_cell (node_at s g))) eqn:Hlt.
  - assert (E : Nat.ltb (n_cell (node_at s g)) (n_cell (node_at s h)) = false).
    { apply Nat.ltb_lt in Hlt. apply Nat.ltb_ge. lia. }
    rewrite E. apply upd_pair_displacement.
  - assert (E : Nat.ltb (n_cell (node_at s g)) (n_cell (node_at s h)) = true).
    { apply Nat.ltb_ge in Hlt. apply Nat.ltb_lt. lia. }
    rewrite E.
    destruct (upd_pair_displacement over dt damping (c_mass (cell_of s (node_at s h)))
                (c_mass (cell_of s (node_at s g))) (node_at s h) (node_at s g)) as [Hd Hm].
    split; [symmetry; exact Hd|]. intros Ho. symmetry. now apply Hm.
Qed.

Lemma half_val : half NumR = / 2.
Proof. unfold half. cbn [ndiv none_ nofZ NumR]. unfold Rdiv. ring. Qed.

Lemma averaging_keeps_total : forall (p1 p2 : vR),
  ((p1 +v p2) *v half NumR) +v ((p1 +v p2) *v half NumR) = p1 +v p2.
Proof.
  intros p1 p2. rewrite half_val. destruct p1 as [a b c], p2 as [a' b' c']. vunfold. apply vec3_eq; cbn [vx vy vz]; lra.
Qed.

Lemma avg_twice (p y : vR) : (p *v half NumR +v y) +v (p *v half NumR +v y) = p +v y *v 2.
Proof.
  rewrite half_val. destruct p as [a b c], y as [a' b' c']. vunfold. apply vec3_eq; cbn [vx vy vz]; lra.
Qed.

Lemma pair_total_momentum : forall dt damping m1 m2 (n1 n2 : inodeR),
  let r := upd_pair NumR false dt damping m1 m2 n1 n2 in
  let avg_p := (n_mom n1 +v n_mom n2) *v half NumR in
  let avg_f := (n_force n1 +v n_force n2) *v half NumR in
  let avg_m := (m1 + m2) * half NumR in
  n_mom (fst r) +v n_mom (snd r) =
  (n_mom n1 +v n_mom n2) +v ((avg_f -v avg_p *v (damping / avg_m)) *v dt) *v 2.
Proof.
  intros dt damping m1 m2 n1 n2 r avg_p avg_f avg_m.
  unfold r, upd_pair. cbn [fst snd n_mom].
  apply (avg_twice (n_mom n1 +v n_mom n2)).
Qed.

(* ------------------------------------------------------------------ non-vacuity *)
Lemma wf_example :
  WF (mkstate [mkcell false 0%nat 1; mkcell false 1%nat 2]
              [mknode true 0%nat (mkv 0 0 0) (mkv 1 0 0) (mkv 0 1 0) (Some 1%nat) [];
               mknode true 1%nat (mkv 1 0 0) (mkv 0 0 0) (mkv 0 0 1) (Some 0%nat) []] 0).
Proof.
  unfold WF. cbn [s_nodes s_cells length]. split; [|split].
  - intros g Hg. destruct g as [|[|g]]; [cbn; lia|cbn; lia|lia].
  - intros c Hc. destruct c as [|[|c]]; [reflexivity|reflexivity|lia].
  - intros g h Hg Hint Hcp.
    destruct g as [|[|g]]; [| |lia].
    + cbn in Hcp. injection Hcp as <-. cbn. repeat split; try lia.
    + cbn in Hcp. injection Hcp as <-. cbn. repeat split; try lia.
Qed.
