(* Properties_C17.v — property C17 (partial): malformed input files are rejected, never handed on.
   Only statements; every proof is `exact <lemma>`.  Models: Vtk.v (mesh_reader at token level), Params.v
   (parameter_reader over the tables regenerated from the source).  What is NOT covered by these theorems: the
   character level (std::regex, tinyxml2, iostreams) — explored under sanitizers by the check, see DESIGN.md. *)
From Coq Require Import NArith Arith Bool List Lia ZArith.
From SC Require Import Vtk VtkSpec VtkProofs Params ParamsSpec ParamsProofs C17Proofs.
Import ListNotations.
Local Open Scope N_scope.

(* whatever the mesh reader accepts is index-safe: every face of every mesh designates coordinates that exist *)
Theorem parse_mesh_ok_wellformed : forall (F V : Type) (sem : F -> option V) (file : list (tok (F:=F))) ms tys,
  read_file sem file = Ok (ms, tys) -> Forall mesh_index_safe ms.
Proof. exact read_safe. Qed.
Print Assumptions parse_mesh_ok_wellformed.

(* face lists that reference non-existent points *)
Theorem reject_dangling_point : forall (V : Type) (pts : list V) (rec : list N) (nf : N) (faces : list (list N)) (g : N),
  rec = nf :: flat_map (fun f => N.of_nat (length f) :: f) faces -> N.of_nat (length faces) = nf ->
  In g (concat faces) -> (length pts < N.to_nat (g * 3) + 3)%nat ->
  cell_mesh pts rec = Err EDangling.
Proof. exact reject_dangling. Qed.
Print Assumptions reject_dangling_point.

(* inconsistent counts *)
Theorem reject_inconsistent_counts : forall (F V : Type) (sem : F -> option V) (n : N) (xs : list F) (rest : list (tok (F:=F))) (vs : list V),
  (match rest with X _ :: _ => False | _ => True end) ->
  sem_all sem xs = Some vs -> N.of_nat (length vs) / 3 <> n ->
  read_points sem (KPoints :: I n :: map X xs ++ rest) = Err ECount.
Proof. exact reject_count. Qed.
Print Assumptions reject_inconsistent_counts.

(* non-numeric / non-finite coordinates *)
Theorem reject_nonnumeric_coordinate : forall (F V : Type) (sem : F -> option V) (n : N) (xs : list F) (rest : list (tok (F:=F))),
  (match rest with X _ :: _ => False | _ => True end) ->
  sem_all sem xs = None ->
  read_points sem (KPoints :: I n :: map X xs ++ rest) = Err EBadNumber.
Proof. exact reject_number. Qed.
Print Assumptions reject_nonnumeric_coordinate.

(* truncation at EVERY token position of a written file is diagnosed: the reader rejects the prefix, or (cut inside
   the final type array) returns fewer cell types than cells, which simulation_initializer::run rejects *)
Theorem reject_truncated : forall (F V : Type) (sem : F -> option V) (v : F -> V) (cells : list (wcell (F:=F))) (k : nat),
  cells <> [] -> Forall good_cell cells ->
  (forall c x, In c cells -> In x (w_coords c) -> sem x = Some (v x)) ->
  (k < length (write_file cells) - 1)%nat ->
  match read_file sem (firstn k (write_file cells)) with
  | Err _ => True
  | Ok (ms, tys) => length tys <> length ms
  end.
Proof. exact truncated_rejected. Qed.
Print Assumptions reject_truncated.

(* parameter file: an element without text (or with a text that does not convert) under a numeric tag is rejected;
   so is a missing tag *)
Theorem reject_empty_or_nonnumeric_element :
  forall (T V : Type) stod stoi is_inf lower (inf : V) (empty : T) ltb0 leb0 ltb table ch r0 e x,
  In e table -> first_child (e_tag e) ch = Some x ->
  e_conv e <> CString ->
  stod (x_text empty x) = None -> stoi (x_text empty x) = None ->
  stod (lower (x_text empty x)) = None -> is_inf (lower (x_text empty x)) = false -> is_inf (x_text empty x) = false ->
  exists err, decode stod stoi is_inf lower inf empty ltb0 leb0 ltb table ch r0 = PErr err.
Proof. exact empty_or_nonnumeric_rejected. Qed.
Print Assumptions reject_empty_or_nonnumeric_element.

Theorem reject_missing_tag : forall (T V : Type) stod stoi is_inf lower (inf : V) (empty : T) ltb0 leb0 ltb table ch r0 e,
  In e table -> first_child (e_tag e) ch = None ->
  exists err, decode stod stoi is_inf lower inf empty ltb0 leb0 ltb table ch r0 = PErr err.
Proof. exact decode_missing. Qed.
Print Assumptions reject_missing_tag.
