(* Output.v — solver::run / run_iteration / save_mesh and the statistics records, as a machine that emits the
   sequence of output events of a run.  The mechanical phases of an iteration do not appear: what they do to the
   population is an input (hist: for every iteration the population when the statistics are recorded — after the
   divisions — and the population after the removals).  Numbers: any Num with a floor to Z. *)
From Coq Require Import ZArith Bool List Arith.
From SC Require Import Num.
Import ListNotations.

Section Output.
  Context {T : Type} (N : Num T) (floorZ : T -> Z).
  Context {C : Type}.                        (* a cell, as far as the outputs are concerned *)
  Variables (dt Sp Tend : T).

  Inductive event :=
  | Save (k : Z) (pop : list C)                       (* cell_data/result_k.vtk + face_data/result_k.vtk *)
  | Stats (iter : nat) (time : T) (pop : list C).     (* one row per cell of pop *)

  Record st := mkst { s_time : T; s_iter : nat; s_file : Z; s_pop : list C }.

  (* save_mesh: new_file_nb = floor(t / Sp) + 1; while (file_number_ < new_file_nb) { file_number_++; write } *)
  Fixpoint save_upto (n : nat) (from : Z) (pop : list C) : list event :=
    match n with O => [] | S k => Save (from + 1) pop :: save_upto k (from + 1) pop end.
  Definition save_mesh (s : st) : st * list event :=
    let nb := (floorZ (ndiv N (s_time s) Sp) + 1)%Z in
    if (s_file s <? nb)%Z
    then (mkst (s_time s) (s_iter s) nb (s_pop s), save_upto (Z.to_nat (nb - s_file s)) (s_file s) (s_pop s))
    else (s, []).

  Definition nonempty (l : list C) : bool := match l with [] => false | _ => true end.

  (* run_iteration, as far as the outputs go *)
  Definition iteration (s : st) (mid fin : list C) : st * list event :=
    let (s1, e1) := save_mesh s in
    let t' := nadd N (s_time s1) dt in
    let e2 := if Nat.eqb (s_iter s mod 50) 0 then [Stats (s_iter s) t' mid] else [] in
    (mkst t' (S (s_iter s)) (s_file s1) fin, e1 ++ e2).

  (* solver::run: while (t < T && !cells.empty()) run_iteration(); then the final record.
     None: the population history given is shorter than the run *)
  Fixpoint run (hist : list (list C * list C)) (s : st) : option (st * list event) :=
    if nltb N (s_time s) Tend && nonempty (s_pop s) then
      match hist with
      | [] => None
      | (mid, fin) :: h =>
          let (s1, e) := iteration s mid fin in
          match run h s1 with Some (sf, ev) => Some (sf, e ++ ev) | None => None end
      end
    else Some (s, [Stats (s_iter s) (s_time s) (s_pop s)]).

  Definition init (pop : list C) : st := mkst (nzero N) 0 0%Z pop.

  Definition saved (ev : list event) : list Z := flat_map (fun e => match e with Save k _ => [k] | _ => [] end) ev.
  Definition recorded (ev : list event) : list nat := flat_map (fun e => match e with Stats i _ _ => [i] | _ => [] end) ev.

  (* a statistics row: iteration, computation time, simulation time, then one field per column *)
  Definition row {Fld : Type} (cols : list (C -> Fld)) (it ct tm : Fld) (c : C) : list Fld := it :: ct :: tm :: map (fun f => f c) cols.
  Definition header {Fld : Type} (names : list Fld) (it ct tm : Fld) : list Fld := it :: ct :: tm :: names.
End Output.
