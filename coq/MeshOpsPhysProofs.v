(* MeshOpsPhysProofs.v — proofs of the C11 facts (physical neutrality and selectivity of remeshing) about
   MeshOps.v at R, stated in Properties_C11.v *)
From Coq Require Import NArith ZArith Bool List Lia Reals Lra Psatz.
From SC Require Import Num Vec3 VecR Mesh Geometry GeometrySpec MeshOps MeshOpsSpec.
Import ListNotations.
Local Open Scope N_scope.

(* ------------------------------------------------------------------ the association list *)
Lemma nget_ndel (m : nmapR) (k k' : N) : nget (ndel m k) k' = if k' =? k then None else nget m k'.
Proof.
  unfold ndel. induction m as [|[k0 v0] m IH]; cbn [filter nget fst].
  - destruct (k' =? k); reflexivity.
  - destruct (N.eqb_spec k0 k) as [E|E]; cbn [negb].
    + rewrite IH. subst k0. destruct (N.eqb_spec k' k) as [E'|E']; reflexivity.
    + cbn [nget]. rewrite IH. destruct (N.eqb_spec k' k0) as [E1|E1]; [|reflexivity].
      subst k0. destruct (N.eqb_spec k' k) as [E2|E2]; [contradiction|reflexivity].
Qed.

Lemma nset_cons (m : nmapR) (k : N) (v : nstateR) : nset m k v = (k, v) :: ndel m k.
Proof. reflexivity. Qed.

Lemma nget_nset (m : nmapR) (k : N) (v : nstateR) (k' : N) :
  nget (nset m k v) k' = if k' =? k then Some v else nget m k'.
Proof.
  rewrite nset_cons. cbn [nget]. rewrite nget_ndel.
  destruct (k' =? k); reflexivity.
Qed.

Lemma keys_ndel (m : nmapR) (k x : N) : In x (keys (ndel m k)) <-> In x (keys m) /\ x <> k.
Proof.
  unfold keys, ndel. induction m as [|[k0 v0] m IH]; cbn [filter map In fst].
  - tauto.
  - destruct (N.eqb_spec k0 k) as [E|E]; cbn [negb map In fst].
    + rewrite IH. subst k0. split.
      * intros [H1 H2]. split; [right; exact H1|exact H2].
      * intros [[H1|H1] H2]; [congruence|split; assumption].
    + rewrite IH. split.
      * intros [H1|[H1 H2]]; [subst x; split; [left; reflexivity|exact E]|split; [right; exact H1|exact H2]].
      * intros [[H1|H1] H2]; [left; exact H1|right; split; assumption].
Qed.

Lemma NoDup_keys_ndel (m : nmapR) (k : N) : NoDup (keys m) -> NoDup (keys (ndel m k)).
Proof.
  induction m as [|[k0 v0] m IH]; intros Hnd.
  - exact Hnd.
  - unfold keys in Hnd. cbn [map fst] in Hnd. inversion Hnd as [|x l Hx Hl]; subst x l.
    unfold ndel. cbn [filter fst]. destruct (N.eqb_spec k0 k) as [E|E]; cbn [negb].
    + apply IH. exact Hl.
    + unfold keys. cbn [map fst]. constructor.
      * intros Hin. apply Hx. apply (keys_ndel m k k0) in Hin. exact (proj1 Hin).
      * apply IH. exact Hl.
Qed.

Lemma keys_nset (m : nmapR) (k : N) (v : nstateR) (x : N) :
  In x (keys (nset m k v)) <-> x = k \/ (In x (keys m) /\ x <> k).
Proof.
  rewrite nset_cons. unfold keys at 1. cbn [map fst In]. fold (keys (ndel m k)). rewrite keys_ndel.
  split; intros [H|H]; auto.
Qed.

Lemma NoDup_keys_nset (m : nmapR) (k : N) (v : nstateR) : NoDup (keys m) -> NoDup (keys (nset m k v)).
Proof.
  intros Hnd. rewrite nset_cons. unfold keys. cbn [map fst]. constructor.
  - intros Hin. apply (keys_ndel m k k) in Hin. destruct Hin as [_ Hin]. apply Hin; reflexivity.
  - apply NoDup_keys_ndel. exact Hnd.
Qed.

Lemma nget_In_keys (m : nmapR) (k : N) (v : nstateR) : nget m k = Some v -> In k (keys m).
Proof.
  induction m as [|[k0 v0] m IH]; cbn [nget]; intros H.
  - discriminate.
  - unfold keys. cbn [map fst In]. destruct (N.eqb_spec k k0) as [E|E].
    + left. symmetry. exact E.
    + right. apply IH. exact H.
Qed.

Lemma ndel_absent (m : nmapR) (k : N) : ~ In k (keys m) -> ndel m k = m.
Proof.
  unfold ndel, keys. induction m as [|[k0 v0] m IH]; cbn [filter map fst In]; intros H.
  - reflexivity.
  - destruct (N.eqb_spec k0 k) as [E|E]; cbn [negb].
    + exfalso. apply H. left. exact E.
    + rewrite IH; [reflexivity|]. intros Hin. apply H. right. exact Hin.
Qed.

(* ------------------------------------------------------------------ total momentum *)
Lemma total_cons (k : N) (v : nstateR) (m : nmapR) :
  total_momentum ((k, v) :: m) = ns_mom v +v total_momentum m.
Proof. reflexivity. Qed.

Lemma total_ndel (m : nmapR) (k : N) (v : nstateR) : NoDup (keys m) -> nget m k = Some v ->
  total_momentum m = ns_mom v +v total_momentum (ndel m k).
Proof.
  induction m as [|[k0 v0] m IH]; intros Hnd Hget.
  - discriminate Hget.
  - unfold keys in Hnd. cbn [map fst] in Hnd. inversion Hnd as [|x l Hx Hl]; subst x l.
    cbn [nget] in Hget. unfold ndel. cbn [filter fst]. fold (ndel m k).
    destruct (N.eqb_spec k k0) as [E|E].
    + injection Hget as Hv. subst v0 k0. rewrite N.eqb_refl. cbn [negb].
      rewrite (ndel_absent m k Hx). apply total_cons.
    + destruct (N.eqb_spec k0 k) as [E'|E']; [congruence|]. cbn [negb].
      rewrite !total_cons. rewrite (IH Hl Hget).
      destruct (ns_mom v0) as [x0 y0 z0], (ns_mom v) as [x1 y1 z1], (total_momentum (ndel m k)) as [x2 y2 z2].
      unfold vadd; cbn [vx vy vz nadd NumR]. apply vec3_eq; cbn [vx vy vz]; ring.
Qed.

Lemma total_nset (m : nmapR) (k : N) (v : nstateR) :
  total_momentum (nset m k v) = ns_mom v +v total_momentum (ndel m k).
Proof. reflexivity. Qed.

Lemma edge_exists_neq (s : list ltri) (a b : N) : edge_exists s a b = true -> a <> b.
Proof.
  unfold edge_exists. rewrite existsb_exists. intros [[[[x y] z] ty] [_ H]]. cbn [fst] in H.
  unfold has_uedge in H. cbv beta iota zeta in H. apply andb_true_iff in H. destruct H as [H _].
  intros E. subst b. rewrite N.eqb_refl in H. discriminate H.
Qed.

Local Open Scope R_scope.

Lemma split_momentum (m : nmapR) (a b e : N) (na nb : nstateR) (pe : vR) :
  NoDup (keys m) -> a <> b -> ~ In e (keys m) -> nget m a = Some na -> nget m b = Some nb ->
  total_momentum
    (nset (nset (nset m a (mkns (ns_pos na) (vscale NumR (ns_mom na) (two_thirds NumR))))
                b (mkns (ns_pos nb) (vscale NumR (ns_mom nb) (two_thirds NumR))))
          e (mkns pe (vdivs NumR (vadd NumR (ns_mom na) (ns_mom nb)) (nofZ NumR 3)))) = total_momentum m.
Proof.
  intros Hnd Hab He Ha Hb.
  assert (Hea : e <> a). { intros E. subst e. apply He. exact (nget_In_keys m a na Ha). }
  assert (Heb : e <> b). { intros E. subst e. apply He. exact (nget_In_keys m b nb Hb). }
  set (va' := mkns (ns_pos na) (vscale NumR (ns_mom na) (two_thirds NumR))).
  set (vb' := mkns (ns_pos nb) (vscale NumR (ns_mom nb) (two_thirds NumR))).
  rewrite total_nset.
  rewrite (ndel_absent (nset (nset m a va') b vb') e).
  2:{ intros Hin. apply keys_nset in Hin. destruct Hin as [Hin|[Hin _]]; [contradiction|].
      apply keys_nset in Hin. destruct Hin as [Hin|[Hin _]]; contradiction. }
  rewrite total_nset.
  assert (E1 : ndel (nset m a va') b = (a, va') :: ndel (ndel m a) b).
  { rewrite nset_cons. unfold ndel at 1. cbn [filter fst].
    destruct (N.eqb_spec a b) as [E|E]; [contradiction|]. reflexivity. }
  rewrite E1, total_cons.
  rewrite (total_ndel m a na Hnd Ha).
  assert (Hb' : nget (ndel m a) b = Some nb).
  { rewrite nget_ndel. destruct (N.eqb_spec b a) as [E|E]; [congruence|exact Hb]. }
  rewrite (total_ndel (ndel m a) b nb (NoDup_keys_ndel m a Hnd) Hb').
  cbn [ns_mom va' vb']. unfold va', vb'. cbn [ns_mom].
  destruct (ns_mom na) as [x0 y0 z0], (ns_mom nb) as [x1 y1 z1],
           (total_momentum (ndel (ndel m a) b)) as [x2 y2 z2].
  unfold two_thirds, vadd, vscale, vdivs; cbn [vx vy vz nadd nmul ndiv nofZ NumR].
  apply vec3_eq; cbn [vx vy vz]; field.
Qed.

Lemma merge_momentum (m : nmapR) (a b i : N) (na nb : nstateR) (pi : vR) :
  NoDup (keys m) -> a <> b -> ~ In i (keys m) -> nget m a = Some na -> nget m b = Some nb ->
  total_momentum (nset (ndel (ndel m a) b) i (mkns pi (vadd NumR (ns_mom na) (ns_mom nb)))) = total_momentum m.
Proof.
  intros Hnd Hab Hi Ha Hb.
  rewrite total_nset.
  rewrite (ndel_absent (ndel (ndel m a) b) i).
  2:{ intros Hin. apply keys_ndel in Hin. destruct Hin as [Hin _].
      apply keys_ndel in Hin. destruct Hin as [Hin _]. contradiction. }
  rewrite (total_ndel m a na Hnd Ha).
  assert (Hb' : nget (ndel m a) b = Some nb).
  { rewrite nget_ndel. destruct (N.eqb_spec b a) as [E|E]; [congruence|exact Hb]. }
  rewrite (total_ndel (ndel m a) b nb (NoDup_keys_ndel m a Hnd) Hb').
  cbn [ns_mom].
  destruct (ns_mom na) as [x0 y0 z0], (ns_mom nb) as [x1 y1 z1],
           (total_momentum (ndel (ndel m a) b)) as [x2 y2 z2].
  unfold vadd; cbn [vx vy vz nadd NumR].
  apply vec3_eq; cbn [vx vy vz]; ring.
Qed.

(* freshness of the id an operation creates, with respect to the node map *)
Definition op_fresh (st : mstateR) (o : op) : Prop :=
  match o with
  | OpSplit _ _ e => ~ In e (keys (ms_nodes st))
  | OpMerge _ _ i => ~ In i (keys (ms_nodes st))
  | OpSwap _ _ => True
  end.

Lemma op_momentum_fresh : forall (st st' : mstateR) (o : op),
  NoDup (keys (ms_nodes st)) -> op_fresh st o -> apply_op NumR true st o = Some st' ->
  total_momentum (ms_nodes st') = total_momentum (ms_nodes st).
Proof.
  intros st st' o Hnd Hfr Happ. destruct o as [a b e|a b i|a b]; unfold apply_op in Happ.
  - destruct (nget (ms_nodes st) a) as [na|] eqn:Ha; [|discriminate Happ].
    destruct (nget (ms_nodes st) b) as [nb|] eqn:Hb; [|discriminate Happ].
    destruct (edge_exists (ms_faces st) a b) eqn:He; cbn [negb] in Happ; [|discriminate Happ].
    injection Happ as Hst. subst st'. cbn [ms_nodes].
    apply split_momentum; try assumption. exact (edge_exists_neq _ _ _ He).
  - destruct (nget (ms_nodes st) a) as [na|] eqn:Ha; [|discriminate Happ].
    destruct (nget (ms_nodes st) b) as [nb|] eqn:Hb; [|discriminate Happ].
    destruct (edge_exists (ms_faces st) a b) eqn:He; cbn [negb] in Happ; [|discriminate Happ].
    injection Happ as Hst. subst st'. cbn [ms_nodes].
    apply merge_momentum; try assumption. exact (edge_exists_neq _ _ _ He).
  - destruct (swap (ms_faces st) a b) as [fs|]; [|discriminate Happ].
    injection Happ as Hst. subst st'. reflexivity.
Qed.

Lemma op_wf_fresh (st : mstateR) (o : op) : op_wf st o -> op_fresh st o.
Proof.
  intros Hwf. destruct o as [a b e|a b i|a b]; cbn [op_fresh]; [| |exact I].
  - destruct Hwf as [_ [_ [_ Hfr]]]. exact Hfr.
  - destruct Hwf as [_ [_ [_ [_ Hfr]]]]. exact Hfr.
Qed.

Lemma op_momentum : forall (st st' : mstateR) (o : op),
  nodes_match st -> op_wf st o -> apply_op NumR true st o = Some st' ->
  total_momentum (ms_nodes st') = total_momentum (ms_nodes st).
Proof.
  intros st st' o Hnm Hwf Happ.
  apply (op_momentum_fresh st st' o); [exact (proj1 Hnm)|exact (op_wf_fresh st o Hwf)|exact Happ].
Qed.

(* ------------------------------------------------------------------ a whole pass *)
Lemma apply_op_NoDup : forall (dynamic : bool) (st st' : mstateR) (o : op),
  NoDup (keys (ms_nodes st)) -> apply_op NumR dynamic st o = Some st' -> NoDup (keys (ms_nodes st')).
Proof.
  intros dynamic st st' o Hnd Happ. destruct o as [a b e|a b i|a b]; unfold apply_op in Happ.
  - destruct (nget (ms_nodes st) a) as [na|]; [|discriminate Happ].
    destruct (nget (ms_nodes st) b) as [nb|]; [|discriminate Happ].
    destruct (edge_exists (ms_faces st) a b); cbn [negb] in Happ; [|discriminate Happ].
    injection Happ as Hst. subst st'. cbn [ms_nodes]. destruct dynamic.
    + apply NoDup_keys_nset. apply NoDup_keys_nset. apply NoDup_keys_nset. exact Hnd.
    + apply NoDup_keys_nset. exact Hnd.
  - destruct (nget (ms_nodes st) a) as [na|]; [|discriminate Happ].
    destruct (nget (ms_nodes st) b) as [nb|]; [|discriminate Happ].
    destruct (edge_exists (ms_faces st) a b); cbn [negb] in Happ; [|discriminate Happ].
    injection Happ as Hst. subst st'. cbn [ms_nodes].
    apply NoDup_keys_nset. apply NoDup_keys_ndel. apply NoDup_keys_ndel. exact Hnd.
  - destruct (swap (ms_faces st) a b) as [fs|]; [|discriminate Happ].
    injection Happ as Hst. subst st'. exact Hnd.
Qed.

(* the id every operation of the trace creates is not a live node at that moment *)
Fixpoint trace_fresh (dynamic : bool) (st : mstateR) (ops : list op) : Prop :=
  match ops with
  | [] => True
  | o :: r => op_fresh st o /\
              match apply_op NumR dynamic st o with Some st' => trace_fresh dynamic st' r | None => True end
  end.

Lemma replay_momentum_fresh : forall (ops : list op) (st st' : mstateR),
  NoDup (keys (ms_nodes st)) -> trace_fresh true st ops -> replay NumR true st ops = Some st' ->
  total_momentum (ms_nodes st') = total_momentum (ms_nodes st).
Proof.
  induction ops as [|o r IH]; intros st st' Hnd Hfr Hrep.
  - cbn [replay] in Hrep. injection Hrep as Hst. subst st'. reflexivity.
  - cbn [replay] in Hrep. cbn [trace_fresh] in Hfr. destruct Hfr as [Hfo Hfr].
    destruct (apply_op NumR true st o) as [st1|] eqn:Happ; [|discriminate Hrep].
    rewrite (IH st1 st' (apply_op_NoDup true st st1 o Hnd Happ) Hfr Hrep).
    exact (op_momentum_fresh st st1 o Hnd Hfo Happ).
Qed.

Lemma trace_wf_fresh : forall (dynamic : bool) (ops : list op) (st : mstateR),
  trace_wf dynamic st ops -> trace_fresh dynamic st ops.
Proof.
  intros dynamic. induction ops as [|o r IH]; intros st Hwf.
  - exact I.
  - cbn [trace_wf] in Hwf. cbn [trace_fresh]. destruct Hwf as [Hwo Hwf]. split.
    + exact (op_wf_fresh st o Hwo).
    + destruct (apply_op NumR dynamic st o) as [st1|]; [exact (IH st1 Hwf)|exact I].
Qed.

Lemma replay_momentum : forall (ops : list op) (st st' : mstateR),
  nodes_match st -> trace_wf true st ops -> replay NumR true st ops = Some st' ->
  total_momentum (ms_nodes st') = total_momentum (ms_nodes st).
Proof.
  intros ops st st' Hnm Hwf Hrep.
  exact (replay_momentum_fresh ops st st' (proj1 Hnm) (trace_wf_fresh true ops st Hwf) Hrep).
Qed.

(* ------------------------------------------------------------------ positions *)
Definition touched' (o : op) : list N :=
  match o with OpSplit a b e => [e] | OpMerge a b i => [a; b; i] | OpSwap a b => [] end.

Lemma op_survivors : forall (dynamic : bool) (st st' : mstateR) (o : op) (k : N) (v : nstateR),
  apply_op NumR dynamic st o = Some st' -> ~ In k (touched' o) -> nget (ms_nodes st) k = Some v ->
  exists v', nget (ms_nodes st') k = Some v' /\ ns_pos v' = ns_pos v.
Proof.
  intros dynamic st st' o k v Happ Hk Hget. destruct o as [a b e|a b i|a b]; unfold apply_op in Happ.
  - destruct (nget (ms_nodes st) a) as [na|] eqn:Ha; [|discriminate Happ].
    destruct (nget (ms_nodes st) b) as [nb|] eqn:Hb; [|discriminate Happ].
    destruct (edge_exists (ms_faces st) a b); cbn [negb] in Happ; [|discriminate Happ].
    injection Happ as Hst. subst st'. cbn [ms_nodes].
    assert (Hke : k <> e). { intros E. apply Hk. left. symmetry. exact E. }
    destruct dynamic.
    + rewrite !nget_nset. destruct (N.eqb_spec k e) as [E|_]; [contradiction|].
      destruct (N.eqb_spec k b) as [E|_].
      * subst k. rewrite Hb in Hget. injection Hget as Hv. subst v. eexists. split; reflexivity.
      * destruct (N.eqb_spec k a) as [E|_].
        -- subst k. rewrite Ha in Hget. injection Hget as Hv. subst v. eexists. split; reflexivity.
        -- exists v. split; [exact Hget|reflexivity].
    + rewrite nget_nset. destruct (N.eqb_spec k e) as [E|_]; [contradiction|].
      exists v. split; [exact Hget|reflexivity].
  - destruct (nget (ms_nodes st) a) as [na|] eqn:Ha; [|discriminate Happ].
    destruct (nget (ms_nodes st) b) as [nb|] eqn:Hb; [|discriminate Happ].
    destruct (edge_exists (ms_faces st) a b); cbn [negb] in Happ; [|discriminate Happ].
    injection Happ as Hst. subst st'. cbn [ms_nodes].
    cbn [touched' In] in Hk.
    rewrite nget_nset, !nget_ndel.
    destruct (N.eqb_spec k i) as [E|_]; [exfalso; apply Hk; right; right; left; symmetry; exact E|].
    destruct (N.eqb_spec k b) as [E|_]; [exfalso; apply Hk; right; left; symmetry; exact E|].
    destruct (N.eqb_spec k a) as [E|_]; [exfalso; apply Hk; left; symmetry; exact E|].
    exists v. split; [exact Hget|reflexivity].
  - destruct (swap (ms_faces st) a b) as [fs|]; [|discriminate Happ].
    injection Happ as Hst. subst st'. cbn [ms_nodes]. exists v. split; [exact Hget|reflexivity].
Qed.

Lemma op_midpoint : forall (dynamic : bool) (st st' : mstateR) (o : op) (a b e : N) (va vb : nstateR),
  (o = OpSplit a b e \/ o = OpMerge a b e) -> e <> a -> e <> b ->
  apply_op NumR dynamic st o = Some st' -> nget (ms_nodes st) a = Some va -> nget (ms_nodes st) b = Some vb ->
  exists ve, nget (ms_nodes st') e = Some ve /\ ns_pos ve = (ns_pos vb +v ns_pos va) *v (1 / 2).
Proof.
  intros dynamic st st' o a b e va vb Ho Hea Heb Happ Ha Hb.
  destruct Ho as [Ho|Ho]; subst o; unfold apply_op in Happ; rewrite Ha, Hb in Happ;
    (destruct (edge_exists (ms_faces st) a b); cbn [negb] in Happ; [|discriminate Happ]);
    injection Happ as Hst; subst st'; cbn [ms_nodes].
  - destruct dynamic; rewrite nget_nset, N.eqb_refl; eexists; (split; [reflexivity|]); reflexivity.
  - rewrite nget_nset, N.eqb_refl. eexists. split; [reflexivity|]. reflexivity.
Qed.

(* ------------------------------------------------------------------ face-type labels of a split *)
Lemma has_dir_uedge (t : tri) (a b : N) : a <> b -> has_dir t a b = true -> has_uedge t a b = true.
Proof.
  intros Hab. apply N.eqb_neq in Hab. destruct t as [[x y] z]. unfold has_dir, has_uedge. cbv beta iota zeta.
  rewrite Hab. cbn [negb andb].
  destruct (N.eqb x a), (N.eqb y b), (N.eqb y a), (N.eqb z b), (N.eqb z a), (N.eqb x b);
    cbn [andb orb]; intros H; try reflexivity; try discriminate H.
Qed.

Lemma has_dir_uedge_rev (t : tri) (a b : N) : a <> b -> has_dir t b a = true -> has_uedge t a b = true.
Proof.
  intros Hab. apply N.eqb_neq in Hab. destruct t as [[x y] z]. unfold has_dir, has_uedge. cbv beta iota zeta.
  rewrite Hab. cbn [negb andb].
  destruct (N.eqb x a), (N.eqb y b), (N.eqb y a), (N.eqb z b), (N.eqb z a), (N.eqb x b);
    cbn [andb orb]; intros H; try reflexivity; try discriminate H.
Qed.

Lemma split_labels : forall (s : list ltri) (a b e : N) (t : tri) (ty : nat),
  a <> b ->
  In (t, ty) (split s a b e) ->
  In (t, ty) s \/ exists t0, In (t0, ty) s /\ has_uedge t0 a b = true /\
     (t = (a, e, third t0 a b) \/ t = (e, b, third t0 a b) \/ t = (b, e, third t0 a b) \/ t = (e, a, third t0 a b)).
Proof.
  intros s a b e t ty Hab Hin. unfold split in Hin. apply in_flat_map in Hin.
  destruct Hin as [[t0 ty0] [Hin0 Hin]]. unfold split_tri in Hin.
  destruct (has_dir t0 a b) eqn:H1.
  - cbv zeta in Hin. cbn [In] in Hin. destruct Hin as [E|[E|[]]]; injection E as Et Ety; subst t ty0;
      right; exists t0; (split; [exact Hin0|]); (split; [exact (has_dir_uedge t0 a b Hab H1)|]).
    + left. reflexivity.
    + right. left. reflexivity.
  - destruct (has_dir t0 b a) eqn:H2.
    + cbv zeta in Hin. cbn [In] in Hin. destruct Hin as [E|[E|[]]]; injection E as Et Ety; subst t ty0;
        right; exists t0; (split; [exact Hin0|]); (split; [exact (has_dir_uedge_rev t0 a b Hab H2)|]).
      * right. right. left. reflexivity.
      * right. right. right. reflexivity.
    + cbn [In] in Hin. destruct Hin as [E|[]]. left. rewrite <- E. exact Hin0.
Qed.

(* the statement without a <> b is false: a degenerate triangle (1,1,2) "split" along the edge 1-1 *)
Lemma split_labels_old_false :
  ~ (forall (s : list ltri) (a b e : N) (t : tri) (ty : nat),
      In (t, ty) (split s a b e) ->
      In (t, ty) s \/ exists t0, In (t0, ty) s /\ has_uedge t0 a b = true /\
        (t = (a, e, third t0 a b) \/ t = (e, b, third t0 a b) \/ t = (b, e, third t0 a b) \/ t = (e, a, third t0 a b))).
Proof.
  intros H.
  specialize (H [((1, 1, 2)%N, 0%nat)] 1%N 1%N 3%N (1, 3, 2)%N 0%nat).
  destruct H as [H|[t0 [H0 [H1 _]]]].
  - left. reflexivity.
  - cbn [In] in H. destruct H as [H|[]]. discriminate H.
  - cbn [In] in H0. destruct H0 as [H0|[]]. injection H0 as Ht. subst t0. discriminate H1.
Qed.

(* ------------------------------------------------------------------ area and volume of a split *)
Lemma face_area_unfold' (p : triR) : face_area NumR p = 1 / 2 * sqrt (sqn (face_normal_raw NumR p)).
Proof. reflexivity. Qed.

Lemma raw_split1 (pa pb pc : vR) :
  face_normal_raw NumR (pa, (pb +v pa) *v (1 / 2), pc) = face_normal_raw NumR (pa, pb, pc) *v (1 / 2).
Proof.
  destruct pa as [x1 y1 z1], pb as [x2 y2 z2], pc as [x3 y3 z3].
  unfold face_normal_raw, vcross, vsub, vadd, vscale; cbn [vx vy vz nadd nsub nmul NumR].
  apply vec3_eq; cbn [vx vy vz]; field.
Qed.

Lemma raw_split2 (pa pb pc : vR) :
  face_normal_raw NumR ((pb +v pa) *v (1 / 2), pb, pc) = face_normal_raw NumR (pa, pb, pc) *v (1 / 2).
Proof.
  destruct pa as [x1 y1 z1], pb as [x2 y2 z2], pc as [x3 y3 z3].
  unfold face_normal_raw, vcross, vsub, vadd, vscale; cbn [vx vy vz nadd nsub nmul NumR].
  apply vec3_eq; cbn [vx vy vz]; field.
Qed.

Lemma sqn_half (v : vR) : sqn (v *v (1 / 2)) = (1 / 2) * (1 / 2) * sqn v.
Proof.
  destruct v as [x y z]. unfold vsqnorm, vscale; cbn [vx vy vz nadd nmul NumR]. field.
Qed.

Lemma split_area : forall (pa pb pc : vR),
  let pe := (pb +v pa) *v (1 / 2) in
  face_area NumR (pa, pe, pc) + face_area NumR (pe, pb, pc) = face_area NumR (pa, pb, pc).
Proof.
  intros pa pb pc pe. unfold pe. rewrite !face_area_unfold', raw_split1, raw_split2, !sqn_half.
  rewrite sqrt_mult; [|lra|apply sqn_nonneg].
  rewrite sqrt_square by lra. field.
Qed.

Lemma split_vol_term : forall (pa pb pc : vR),
  let pe := (pb +v pa) *v (1 / 2) in
  vol_term NumR (pa, pe, pc) + vol_term NumR (pe, pb, pc) = vol_term NumR (pa, pb, pc).
Proof.
  intros [x1 y1 z1] [x2 y2 z2] [x3 y3 z3] pe. unfold pe, vol_term, vadd, vscale. cbv zeta.
  cbn [vx vy vz nadd nsub nmul nneg NumR]. field.
Qed.

(* ------------------------------------------------------------------ selectivity *)
Lemma guard_split : forall (lmin2 lmax2 : R) (st : mstateR) (a b e : N) (va vb : nstateR),
  guard_ok NumR lmin2 lmax2 st (OpSplit a b e) = true ->
  nget (ms_nodes st) a = Some va -> nget (ms_nodes st) b = Some vb ->
  lmax2 < sqn (ns_pos va -v ns_pos vb).
Proof.
  intros lmin2 lmax2 st a b e va vb H Ha Hb. unfold guard_ok, sq_len in H. rewrite Ha, Hb in H.
  cbn [nltb NumR] in H. apply Rltb_true in H. exact H.
Qed.

Lemma guard_merge : forall (lmin2 lmax2 : R) (st : mstateR) (a b i : N) (va vb : nstateR),
  guard_ok NumR lmin2 lmax2 st (OpMerge a b i) = true ->
  nget (ms_nodes st) a = Some va -> nget (ms_nodes st) b = Some vb ->
  sqn (ns_pos va -v ns_pos vb) < lmin2 /\ link_ok (ms_faces st) a b = true.
Proof.
  intros lmin2 lmax2 st a b i va vb H Ha Hb. unfold guard_ok, sq_len in H. rewrite Ha, Hb in H.
  cbn [nltb NumR] in H. apply andb_true_iff in H. destruct H as [H1 H2]. apply Rltb_true in H1.
  split; [exact H1|exact H2].
Qed.

(* ------------------------------------------------------------------ why op_wf speaks about the keys
   nodes_match is not preserved by a collapse when the surface is not a closed manifold: the two triangles of the
   edge 1-2 are all there is around it, the collapse removes them, nodes 3 and 4 stay in the node map but leave the
   triangle list, and the new node 8 is in no triangle.  Freshness of a new id with respect to the triangle list
   would therefore not protect the momentum of node 3 against a later split that creates the id 3. *)
Definition cex_z : vR := mkv 0 0 0.
Definition cex_n0 : nstateR := mkns cex_z cex_z.
Definition cex_st : mstateR :=
  mkms [((1, 2, 3)%N, 0%nat); ((2, 1, 4)%N, 0%nat); ((5, 6, 7)%N, 0%nat)]
       [(1%N, cex_n0); (2%N, cex_n0); (3%N, cex_n0); (4%N, cex_n0); (5%N, cex_n0); (6%N, cex_n0); (7%N, cex_n0)].
Definition cex_st1 : mstateR :=
  mkms [((5, 6, 7)%N, 0%nat)]
       [(8%N, mkns (midpoint NumR cex_z cex_z) (cex_z +v cex_z));
        (3%N, cex_n0); (4%N, cex_n0); (5%N, cex_n0); (6%N, cex_n0); (7%N, cex_n0)].

Lemma merge_breaks_nodes_match :
  nodes_match cex_st /\ op_wf cex_st (OpMerge 1 2 8) /\
  apply_op NumR true cex_st (OpMerge 1 2 8) = Some cex_st1 /\ ~ nodes_match cex_st1.
Proof.
  split; [|split; [|split]].
  - split.
    + unfold cex_st, keys. cbn [ms_nodes map fst].
      repeat (constructor; [cbn [In]; intros H; repeat (destruct H as [H|H]; [discriminate H|]); exact H|]).
      constructor.
    + intros k. unfold cex_st, keys, tris, all_nodes. cbn [ms_nodes ms_faces map fst flat_map tri_nodes app In].
      tauto.
  - cbn [op_wf]. split; [|split; [|split; [|split]]].
    + unfold cex_st, tris, all_hedges. cbn [ms_faces map fst flat_map hedges app In]. left. reflexivity.
    + unfold cex_st, tris, all_nodes. cbn [ms_faces map fst flat_map tri_nodes app In].
      intros H. repeat (destruct H as [H|H]; [discriminate H|]). exact H.
    + reflexivity.
    + discriminate.
    + unfold cex_st, keys. cbn [ms_nodes map fst In].
      intros H. repeat (destruct H as [H|H]; [discriminate H|]). exact H.
  - reflexivity.
  - intros [_ Hk]. specialize (Hk 8%N). destruct Hk as [Hk _].
    assert (Hin : In 8%N (keys (ms_nodes cex_st1))) by (left; reflexivity).
    apply Hk in Hin. unfold cex_st1, tris, all_nodes in Hin. cbn [ms_faces map fst flat_map tri_nodes app In] in Hin.
    repeat (destruct Hin as [Hin|Hin]; [discriminate Hin|]). exact Hin.
Qed.
