(* Params.v — parameter_reader at the level of the XML tree.
   The three flat readers (read_numerical_parameters, read_cell_type_parameters, read_face_type_parameters) are
   ONE generic interpreter `decode` over a wiring table; the three tables are not written by hand: they are
   regenerated from src/io/parameter_reader.cpp by harness/translate_params.py on every run (Params_gen.v).
   read_biomechanical_parameters (the two loops over sibling elements) is transcribed by hand.
   Texts are an abstract type T; std::stod / std::stoi / lower-casing enter as arguments (supplied from the shared
   C library by the driver), never as axioms. *)
From Coq Require Import String List Bool ZArith.
Import ListNotations.
Local Open Scope string_scope.

Inductive conv := CString | CDouble | CInt | CShort | CBool | CInfDouble (* lower-cased text "inf" -> +infinity *)
                | CInfDoubleCS (* same test without lower-casing *).
(* a validation rule: the reader throws when ... *)
Inductive chk :=
| ThrowIfNeg (f : string)          (* field f <  0.0 *)
| ThrowIfNotPos (f : string)       (* field f <= 0.0 *)
| ThrowIfNegI (f : string)         (* integer field f < 0 *)
| ThrowIfLess (f g : string).      (* field f < field g *)
Record entry := mkentry { e_tag : string; e_field : string; e_conv : conv; e_checks : list chk }.

Inductive perr := EMissing (tag : string) | EConv (tag : string) | ERule (tag : string) | EUnset (tag : string)
                | ENoSection (name : string) | ENoCellType | ENoFaceTypes | ENoFaceType.
Inductive pres (A : Type) := POk (a : A) | PErr (e : perr).
Arguments POk {A} a. Arguments PErr {A} e.

Section Params.
  Context {T V : Type}.
  Variable stod : T -> option V.          (* std::stod: None = it throws (no conversion / out of range) *)
  Variable stoi : T -> option Z.          (* std::stoi *)
  Variable is_inf : T -> bool.            (* the text equals "inf" *)
  Variable lower : T -> T.                (* lower_string *)
  Variable inf : V.
  Variable empty : T.                     (* the text of an element without text node *)
  Variable ltb0 leb0 : V -> bool.         (* v < 0.0 ; v <= 0.0 *)
  Variable ltb : V -> V -> bool.

  Inductive value := VS (t : T) | VD (v : V) | VI (z : Z) | VB (b : bool).

  (* an XML element: tag, text of its first text node if any, child elements in document order *)
  Inductive xml := Elem (tag : string) (text : option T) (children : list xml).
  Definition x_tag (x : xml) := let 'Elem t _ _ := x in t.
  Definition x_text (x : xml) : T := let 'Elem _ t _ := x in match t with Some s => s | None => empty end.
  Definition x_children (x : xml) := let 'Elem _ _ c := x in c.

  (* FirstChildElement(tag) *)
  Fixpoint first_child (tag : string) (l : list xml) : option xml :=
    match l with [] => None | x :: r => if String.eqb (x_tag x) tag then Some x else first_child tag r end.

  Definition wrap16 (z : Z) : Z := ((z + 32768) mod 65536 - 32768)%Z.      (* int -> short *)

  Definition convert (c : conv) (t : T) : option value :=
    match c with
    | CString => Some (VS t)
    | CDouble => option_map VD (stod t)
    | CInt => option_map VI (stoi t)
    | CShort => option_map (fun z => VI (wrap16 z)) (stoi t)
    | CBool => option_map (fun z => VB (negb (Z.eqb z 0))) (stoi t)
    | CInfDouble => if is_inf (lower t) then Some (VD inf) else option_map VD (stod (lower t))
    | CInfDoubleCS => if is_inf t then Some (VD inf) else option_map VD (stod t)
    end.

  Definition record := list (string * value).
  Fixpoint get (f : string) (r : record) : option value :=
    match r with [] => None | (g, v) :: q => if String.eqb g f then Some v else get f q end.

  (* None: the rule reads a field that has not been assigned (an uninitialised read in the C++) *)
  Definition violated (r : record) (c : chk) : option bool :=
    match c with
    | ThrowIfNeg f => match get f r with Some (VD v) => Some (ltb0 v) | _ => None end
    | ThrowIfNotPos f => match get f r with Some (VD v) => Some (leb0 v) | _ => None end
    | ThrowIfNegI f => match get f r with Some (VI z) => Some (Z.ltb z 0) | _ => None end
    | ThrowIfLess f g => match get f r, get g r with Some (VD a), Some (VD b) => Some (ltb a b) | _, _ => None end
    end.

  Fixpoint run_checks (r : record) (cs : list chk) : option bool :=      (* Some true = some rule fired *)
    match cs with
    | [] => Some false
    | c :: q => match violated r c with None => None | Some true => Some true | Some false => run_checks r q end
    end.

  (* the flat reader: entries in table order; r accumulates (field, value), newest first *)
  Fixpoint decode (table : list entry) (children : list xml) (r : record) : pres record :=
    match table with
    | [] => POk r
    | e :: rest =>
        match first_child (e_tag e) children with
        | None => PErr (EMissing (e_tag e))
        | Some x =>
            match convert (e_conv e) (x_text x) with
            | None => PErr (EConv (e_tag e))
            | Some v =>
                let r' := (e_field e, v) :: r in
                match run_checks r' (e_checks e) with
                | None => PErr (EUnset (e_tag e))
                | Some true => PErr (ERule (e_tag e))
                | Some false => decode rest children r'
                end
            end
        end
    end.

  Fixpoint map_pres {A B} (f : A -> pres B) (l : list A) : pres (list B) :=
    match l with
    | [] => POk []
    | a :: q => match f a with PErr e => PErr e | POk b => match map_pres f q with POk bs => POk (b :: bs) | PErr e => PErr e end end
    end.

  Definition siblings (tag : string) (l : list xml) : list xml := filter (fun x => String.eqb (x_tag x) tag) l.

  (* read_biomechanical_parameters: every <cell_type> child of <cell_types>, in document order; for each, the flat
     cell-type reader, then every <face_type> child of its first <face_types>, in document order *)
  Variable cell_table face_table : list entry.

  Definition decode_cell_type (x : xml) : pres (record * list record) :=
    match decode cell_table (x_children x) [] with
    | PErr e => PErr e
    | POk r =>
        match first_child "face_types" (x_children x) with
        | None => PErr ENoFaceTypes
        | Some fts =>
            match siblings "face_type" (x_children fts) with
            | [] => PErr ENoFaceType
            | l => match map_pres (fun f => decode face_table (x_children f) []) l with
                   | POk frs => POk (r, frs) | PErr e => PErr e end
            end
        end
    end.

  Definition decode_cell_types (doc : list xml) : pres (list (record * list record)) :=
    match first_child "cell_types" doc with
    | None => PErr (ENoSection "cell_types")
    | Some root =>
        match siblings "cell_type" (x_children root) with
        | [] => PErr ENoCellType
        | l => map_pres decode_cell_type l
        end
    end.

  Variable num_table : list entry.
  Definition decode_numerical (doc : list xml) : pres record :=
    match first_child "numerical_parameters" doc with
    | None => PErr (ENoSection "numerical_parameters")
    | Some s => decode num_table (x_children s) []
    end.
End Params.

(* ---------------------------------------------------------------- facts about a table, decided by computation *)
Fixpoint str_in (s : string) (l : list string) : bool :=
  match l with [] => false | x :: r => String.eqb x s || str_in s r end.
Fixpoint str_nodup (l : list string) : bool :=
  match l with [] => true | x :: r => negb (str_in x r) && str_nodup r end.

Definition chk_fields (c : chk) : list string :=
  match c with ThrowIfNeg f | ThrowIfNotPos f | ThrowIfNegI f => [f] | ThrowIfLess f g => [f; g] end.
Definition conv_is_double (c : conv) : bool := match c with CDouble | CInfDouble | CInfDoubleCS => true | _ => false end.
Definition conv_is_int (c : conv) : bool := match c with CInt | CShort => true | _ => false end.

Fixpoint field_conv (f : string) (t : list entry) : option conv :=
  match t with [] => None | e :: r => if String.eqb (e_field e) f then Some (e_conv e) else field_conv f r end.

(* every rule of an entry reads fields assigned by that entry or an earlier one, with the kind the rule needs *)
Definition chk_typed (seen : list entry) (c : chk) : bool :=
  match c with
  | ThrowIfNeg f | ThrowIfNotPos f => match field_conv f seen with Some k => conv_is_double k | None => false end
  | ThrowIfNegI f => match field_conv f seen with Some k => conv_is_int k | None => false end
  | ThrowIfLess f g => match field_conv f seen, field_conv g seen with Some k, Some k' => conv_is_double k && conv_is_double k' | _, _ => false end
  end.
Fixpoint checks_wf (seen : list entry) (t : list entry) : bool :=
  match t with
  | [] => true
  | e :: r => forallb (chk_typed (e :: seen)) (e_checks e) && checks_wf (e :: seen) r
  end.
Definition table_wf (t : list entry) : bool :=
  str_nodup (map e_tag t) && str_nodup (map e_field t) && checks_wf [] t.
