(* Properties_C02.v — property C02: internal cell forces conserve momentum and derive from the stated energies.
   Only statements; every proof is `exact <lemma of ForcesProofs*.v>`.  Model: Forces.v at R. *)
From Coq Require Import NArith ZArith Bool List Lia Reals Lra.
From Coquelicot Require Import Coquelicot.
From SC Require Import Num Vec3 VecR Rot Mesh Geometry GeometrySpec Forces Forces_gen ForcesSpec ForcesProofsA ForcesProofsB.
From SC Require SourceTies.
Import ListNotations.
Local Open Scope R_scope.

(* ---- pressure *)
Theorem pressure_net_force_zero : forall (nodes : list vR) (faces : list ffaceR) (P : R),
  ValidSurface (tris_of faces) -> ids_in_range nodes (tris_of faces) -> fresh nodes faces ->
  net_force (apply_pressure NumR P faces (zeroF (length nodes))) = mkv 0 0 0.
Proof. exact pressure_force_zero. Qed.
Print Assumptions pressure_net_force_zero.

Theorem pressure_net_torque_zero : forall (nodes : list vR) (faces : list ffaceR) (P : R),
  ValidSurface (tris_of faces) -> ids_in_range nodes (tris_of faces) -> fresh nodes faces ->
  net_torque nodes (apply_pressure NumR P faces (zeroF (length nodes))) = mkv 0 0 0.
Proof. exact pressure_torque_zero. Qed.
Print Assumptions pressure_net_torque_zero.

(* the pressure force on node i equals P times the derivative of the enclosed (signed) volume with respect to that
   node: the volume is affine in each single node, so the derivative in direction d is the exact difference *)
Theorem pressure_force_is_P_gradV : forall (nodes : list vR) (faces : list ffaceR) (P : R) (i : nat) (d : vR),
  ValidSurface (tris_of faces) -> ids_in_range nodes (tris_of faces) -> fresh nodes faces -> (i < length nodes)%nat ->
  nth i (apply_pressure NumR P faces (zeroF (length nodes))) (mkv 0 0 0) ·  d =
  P * ((six_signed_volume NumR (map (tri_pos NumR (displace nodes i d)) (tris_of faces))
        - six_signed_volume NumR (map (tri_pos NumR nodes) (tris_of faces))) / 6).
Proof. exact pressure_is_P_gradV. Qed.
Print Assumptions pressure_force_is_P_gradV.

(* ---- surface tension + membrane elasticity: zero net force for ANY cached normals, zero net torque for fresh ones *)
Theorem tension_net_force_zero : forall (nodes : list vR) (faces : list ffaceR) (tensions : list R) (ka iso V A : R),
  ids_in_range nodes (tris_of faces) ->
  net_force (apply_tension NumR LibmRF nodes tensions ka iso V A faces (zeroF (length nodes))) = mkv 0 0 0.
Proof. exact tension_force_zero. Qed.
Print Assumptions tension_net_force_zero.

Theorem tension_net_torque_zero : forall (nodes : list vR) (faces : list ffaceR) (tensions : list R) (ka iso V A : R),
  ids_in_range nodes (tris_of faces) -> fresh nodes faces ->
  net_torque nodes (apply_tension NumR LibmRF nodes tensions ka iso V A faces (zeroF (length nodes))) = mkv 0 0 0.
Proof. exact tension_torque_zero. Qed.
Print Assumptions tension_net_torque_zero.

(* the force a face applies to its first node is -(gamma_face + (ka/A0)(A/A0 - 1)) times the area gradient
   -1/2 n x (x2 - x3), and that vector IS the derivative of the triangle area with respect to the node *)
Theorem tension_force_is_minus_gamma_gradA : forall (p1 p2 p3 d : vR),
  vnorm NumR (face_normal_raw NumR (p1, p2, p3)) <> 0 ->
  is_derive (fun h : R => face_area NumR (p1 +v d *v h, p2, p3)) 0
    ((face_normal NumR (p1, p2, p3) × (p2 -v p3)) *v (- (1 / 2)) ·  d).
Proof. exact area_gradient. Qed.
Print Assumptions tension_force_is_minus_gamma_gradA.

(* ---- angle regularisation: the three gradients of an angle sum to zero identically, hence zero net force *)
Theorem angle_gradients_sum_to_zero : forall (eps dmin : R) (i j k : vR),
  let '(gi, gj, gk) := angle_gradient NumR LibmRF eps dmin i j k in gi +v gj +v gk = mkv 0 0 0.
Proof. exact angle_gradient_sum. Qed.
Print Assumptions angle_gradients_sum_to_zero.

Theorem angle_reg_net_force_zero : forall (pi eps dmin kreg : R) (nodes : list vR) (faces : list ffaceR),
  ids_in_range nodes (tris_of faces) ->
  net_force (apply_anglereg NumR LibmRF pi eps dmin nodes kreg faces (zeroF (length nodes))) = mkv 0 0 0.
Proof. exact anglereg_force_zero. Qed.
Print Assumptions angle_reg_net_force_zero.

(* ---- bending: the four forces of every hinge sum to zero (fresh normals, coherent hinges, pi = PI) *)
Theorem bending_net_force_zero : forall (nodes : list vR) (bends : list R) (faces : list ffaceR) (hinges : list hinge),
  ids_in_range nodes (tris_of faces) -> fresh nodes faces -> List.Forall (hinge_ok faces) hinges ->
  net_force (apply_bending NumR LibmRF PI nodes bends faces hinges (zeroF (length nodes))) = mkv 0 0 0.
Proof. exact bending_force_zero. Qed.
Print Assumptions bending_net_force_zero.

(* ---- the force field follows the cell under translation (every term is built from differences of positions) *)
Theorem internal_forces_translation_invariant :
  forall (pi eps dmin P ka iso V A kreg : R) (tensions bends : list R) (nodes : list vR) (tl : list (tri * nat)) (hinges : list hinge) (t : vR),
  ids_in_range nodes (map fst tl) ->
  List.Forall (fun h => (N.to_nat (h_n1 h) < length nodes)%nat /\ (N.to_nat (h_n2 h) < length nodes)%nat) hinges ->
  let nodes' := map (fun p => p +v t) nodes in
  let faces := map (fun x => refresh NumR nodes (fst x) (snd x)) tl in
  let faces' := map (fun x => refresh NumR nodes' (fst x) (snd x)) tl in
  let F0 := zeroF (length nodes) in
  apply_anglereg NumR LibmRF pi eps dmin nodes' kreg faces'
    (apply_bending NumR LibmRF pi nodes' bends faces' hinges
      (apply_tension NumR LibmRF nodes' tensions ka iso V A faces' (apply_pressure NumR P faces' F0))) =
  apply_anglereg NumR LibmRF pi eps dmin nodes kreg faces
    (apply_bending NumR LibmRF pi nodes bends faces hinges
      (apply_tension NumR LibmRF nodes tensions ka iso V A faces (apply_pressure NumR P faces F0))).
Proof. exact forces_translation_invariant. Qed.
Print Assumptions internal_forces_translation_invariant.

(* THE TIE TO THE SOURCE of the vector algebra on which every force routine rests (dot, cross, +, -, scaling, norms, the atomic
   translate): regenerated from src/math_modules/vec3.{cpp,hpp} on every run and equal to Vec3.v by reflexivity. *)
Theorem vector_algebra_is_what_the_source_says : SourceTies.vec3_tie.
Proof. exact SourceTies.vec3_model_is_what_the_source_says. Qed.
Print Assumptions vector_algebra_is_what_the_source_says.

(* THE TIE TO THE SOURCE of the force routines.  Forces_gen.v is regenerated from src/mesh/cell.cpp, src/math_modules/vec3.cpp and
   include/utils.hpp on every run (harness/translate_forces.py walks the blocks statement by statement: declarations,
   re-assignments, if / else-if chains, guarded `continue` / `return`, the trailing add_force calls).  The generated functions ARE
   the hand-written ones about which every theorem above speaks — for every number type and libm, hence also for the extracted
   binary64 instance: the per-face block of the pressure, of the surface tension / membrane elasticity (with the target area and
   the elasticity factor), the whole of get_angle_gradient and regularize_face_angles, the per-hinge block of the bending forces,
   both overloads of vec3::get_angle_with, rotate_around_axis, almost_equal and cot. *)
Theorem force_model_is_what_the_source_says :
  (forces_translation_ok = true :> bool) /\
  (forall (T : Type) (N : Num T) (L : Libm T) (pi dbl_eps dbl_min : T) (u v : vec3 T) (x y : T),
     angle_with_gen N L u v = angle_with N L u v /\
     angle_with_nan_gen N L u v = angle_with_nan N L u v /\
     rotate_around_axis_gen N L u v x = rotate_around_axis N L u v x /\
     almost_equal_gen N dbl_eps dbl_min x y = almost_equal N dbl_eps dbl_min x y /\
     cot_gen N L x = cot N L x) /\
  (forall (T : Type) (N : Num T) (L : Libm T) (pi dbl_eps dbl_min : T) (nodes : list (vec3 T)) (tensions bends : list T)
          (P ka iso V A kreg : T) (faces : list (@fface T)) (F : list (vec3 T)) (f : @fface T) (h : hinge) (i j k : vec3 T),
     pressure_face_gen N P F f = pressure_face N P F f /\
     target_area_gen N L iso V = target_area N L iso V /\
     elasticity_factor_gen N ka (target_area N L iso V) A = elasticity_factor N ka (target_area N L iso V) A /\
     tension_face_gen N nodes tensions ka (target_area N L iso V) A F f =
       tension_face N nodes tensions (elasticity_factor N ka (target_area N L iso V) A) F f /\
     angle_gradient_gen N L dbl_eps dbl_min i j k = angle_gradient N L dbl_eps dbl_min i j k /\
     anglereg_face_gen N L pi dbl_eps dbl_min nodes kreg F f = anglereg_face N L pi dbl_eps dbl_min nodes kreg F f /\
     bending_hinge_gen N L pi nodes bends faces F h = bending_hinge N L pi nodes bends faces F h).
Proof.
  split; [reflexivity|]. split.
  - intros. split; [reflexivity|]. split; [reflexivity|]. split; [reflexivity|]. split; reflexivity.
  - intros. split; [reflexivity|]. split; [reflexivity|]. split; [reflexivity|]. split; [reflexivity|].
    split; [reflexivity|]. split; reflexivity.
Qed.
Print Assumptions force_model_is_what_the_source_says.

(* WHAT THE REGENERATED CODE DOES: momentum conservation stated about the translated blocks themselves, folded over the faces / hinges
   as the loops of cell.cpp do (at R; the generated blocks are convertible with the model's, so the proofs are the model's): the
   pressure forces of a closed surface, the surface-tension / elasticity forces, the angle-regularisation forces and the bending
   forces of coherent hinges each add no net force. *)
Theorem regenerated_pressure_adds_no_net_force : forall (nodes : list vR) (faces : list ffaceR) (P : R),
  ValidSurface (tris_of faces) -> ids_in_range nodes (tris_of faces) -> fresh nodes faces ->
  net_force (fold_left (pressure_face_gen NumR P) faces (zeroF (length nodes))) = mkv 0 0 0.
Proof. exact pressure_force_zero. Qed.
Print Assumptions regenerated_pressure_adds_no_net_force.

Theorem regenerated_tension_adds_no_net_force : forall (nodes : list vR) (faces : list ffaceR) (tensions : list R) (ka iso V A : R),
  ids_in_range nodes (tris_of faces) ->
  net_force (fold_left (tension_face_gen NumR nodes tensions ka (target_area_gen NumR LibmRF iso V) A) faces (zeroF (length nodes))) = mkv 0 0 0.
Proof. exact tension_force_zero. Qed.
Print Assumptions regenerated_tension_adds_no_net_force.

Theorem regenerated_angle_regularisation_adds_no_net_force : forall (pi eps dmin kreg : R) (nodes : list vR) (faces : list ffaceR),
  ids_in_range nodes (tris_of faces) ->
  net_force (fold_left (anglereg_face_gen NumR LibmRF pi eps dmin nodes kreg) faces (zeroF (length nodes))) = mkv 0 0 0.
Proof. exact anglereg_force_zero. Qed.
Print Assumptions regenerated_angle_regularisation_adds_no_net_force.

Theorem regenerated_angle_gradients_sum_to_zero : forall (eps dmin : R) (i j k : vR),
  let '(gi, gj, gk) := angle_gradient_gen NumR LibmRF eps dmin i j k in gi +v gj +v gk = mkv 0 0 0.
Proof. exact angle_gradient_sum. Qed.
Print Assumptions regenerated_angle_gradients_sum_to_zero.

Theorem regenerated_bending_adds_no_net_force : forall (nodes : list vR) (bends : list R) (faces : list ffaceR) (hinges : list hinge),
  ids_in_range nodes (tris_of faces) -> fresh nodes faces -> List.Forall (hinge_ok faces) hinges ->
  net_force (if forallb (fun b => neqb NumR b 0) bends then zeroF (length nodes)
             else fold_left (bending_hinge_gen NumR LibmRF PI nodes bends faces) hinges (zeroF (length nodes))) = mkv 0 0 0.
Proof. exact bending_force_zero. Qed.
Print Assumptions regenerated_bending_adds_no_net_force.
