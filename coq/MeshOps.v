(* MeshOps.v — the three remeshing operations of local_mesh_refiner (edge split, edge collapse, edge swap) and
   compaction, as operations on the triangle list (with face-type labels) and on the node state (position,
   momentum), plus the decision predicates of refine_mesh.  A refinement pass of the implementation is replayed
   from its operation trace (guarded hook) with `replay`. *)
From Coq Require Import NArith ZArith Bool List.
From SC Require Import Num Vec3 Mesh Geometry.
Import ListNotations.
Local Open Scope N_scope.

(* a followed by b in the cyclic order of the triple *)
Definition has_dir (t : tri) (a b : N) : bool :=
  let '(x, y, z) := t in ((x =? a) && (y =? b)) || ((y =? a) && (z =? b)) || ((z =? a) && (x =? b)).
Definition third (t : tri) (a b : N) : N :=
  let '(x, y, z) := t in
  if negb (x =? a) && negb (x =? b) then x else if negb (y =? a) && negb (y =? b) then y else z.

Definition ltri := (tri * nat)%type.     (* triangle with its face-type label *)

(* ---- split of edge {a,b} by the new node e: (a,b,c) -> (a,e,c),(e,b,c) ; (b,a,d) -> (b,e,d),(e,a,d) *)
Definition split_tri (a b e : N) (f : ltri) : list ltri :=
  let '(t, ty) := f in
  if has_dir t a b then let c := third t a b in [((a, e, c), ty); ((e, b, c), ty)]
  else if has_dir t b a then let d := third t a b in [((b, e, d), ty); ((e, a, d), ty)]
  else [f].
Definition split (s : list ltri) (a b e : N) : list ltri := flat_map (split_tri a b e) s.

(* ---- collapse of edge {a,b} into the new node i *)
Definition ren (a b i x : N) : N := if (x =? a) || (x =? b) then i else x.
Definition ren_tri (a b i : N) (t : tri) : tri := let '(x, y, z) := t in (ren a b i x, ren a b i y, ren a b i z).
Definition collapse (s : list ltri) (a b i : N) : list ltri :=
  map (fun f : ltri => (ren_tri a b i (fst f), snd f)) (filter (fun f : ltri => negb (has_uedge (fst f) a b)) s).

(* the link condition tested by can_be_merged: a and b have exactly two common neighbours *)
Definition neighbours (s : list ltri) (a : N) : list N :=
  dedupN (flat_map (fun f : ltri => let '(x, y, z) := fst f in
                     if (x =? a) then [y; z] else if (y =? a) then [x; z] else if (z =? a) then [x; y] else []) s).
Definition common_neighbours (s : list ltri) (a b : N) : list N :=
  filter (fun x => memN x (neighbours s b)) (neighbours s a).
Definition link_ok (s : list ltri) (a b : N) : bool := Nat.eqb (length (common_neighbours s a b)) 2.

(* ---- swap of edge {a,b} with opposite nodes c (in the face traversing a->b) and d: (a,b,c),(b,a,d) -> (a,d,c),(d,b,c) *)
Definition swap (s : list ltri) (a b : N) : option (list ltri) :=
  match filter (fun f : ltri => has_dir (fst f) a b) s, filter (fun f : ltri => has_dir (fst f) b a) s with
  | [f1], [f2] =>
      let c := third (fst f1) a b in let d := third (fst f2) a b in
      Some (filter (fun f : ltri => negb (has_uedge (fst f) a b)) s ++ [((a, d, c), 0%nat); ((d, b, c), 0%nat)])
  | _, _ => None
  end.
(* guards of swap_edge: the new diagonal must not exist yet *)
Definition edge_exists (s : list ltri) (a b : N) : bool := existsb (fun f : ltri => has_uedge (fst f) a b) s.

(* ---- compaction (cell::rebase): nodes renumbered by an injective map, triangles kept in order *)
Definition compact (sigma : N -> N) (s : list ltri) : list ltri :=
  map (fun f : ltri => (let '(x, y, z) := fst f in (sigma x, sigma y, sigma z), snd f)) s.

(* ------------------------------------------------------------------ node state and replay of a trace *)
Section Replay.
  Context {T : Type} (Nm : Num T).
  Notation vec := (vec3 T).
  Record nstate := mkns { ns_pos : vec; ns_mom : vec }.
  Definition nmap := list (N * nstate).

  Fixpoint nget (m : nmap) (k : N) : option nstate :=
    match m with [] => None | (k', v) :: r => if k =? k' then Some v else nget r k end.
  Definition nset (m : nmap) (k : N) (v : nstate) : nmap := (k, v) :: filter (fun kv => negb (fst kv =? k)) m.
  Definition ndel (m : nmap) (k : N) : nmap := filter (fun kv => negb (fst kv =? k)) m.

  Definition chalf : T := ndiv Nm (none_ Nm) (nofZ Nm 2).
  Definition two_thirds : T := ndiv Nm (nofZ Nm 2) (nofZ Nm 3).
  (* (n_b.pos() + n_a.pos()) * 0.5 *)
  Definition midpoint (pa pb : vec) : vec := vscale Nm (vadd Nm pb pa) chalf.

  Inductive op := OpSplit (a b e : N) | OpMerge (a b i : N) | OpSwap (a b : N).

  Record mstate := mkms { ms_faces : list ltri; ms_nodes : nmap }.

  (* None: the operation is not applicable to the state (the trace and the model disagree) *)
  Definition apply_op (dynamic : bool) (st : mstate) (o : op) : option mstate :=
    match o with
    | OpSplit a b e =>
        match nget (ms_nodes st) a, nget (ms_nodes st) b with
        | Some na, Some nb =>
            if negb (edge_exists (ms_faces st) a b) then None else
            let pe := midpoint (ns_pos na) (ns_pos nb) in
            let nodes' :=
              if dynamic then
                nset (nset (nset (ms_nodes st) a (mkns (ns_pos na) (vscale Nm (ns_mom na) two_thirds)))
                           b (mkns (ns_pos nb) (vscale Nm (ns_mom nb) two_thirds)))
                     e (mkns pe (vdivs Nm (vadd Nm (ns_mom na) (ns_mom nb)) (nofZ Nm 3)))
              else nset (ms_nodes st) e (mkns pe (vzero Nm)) in
            Some (mkms (split (ms_faces st) a b e) nodes')
        | _, _ => None
        end
    | OpMerge a b i =>
        match nget (ms_nodes st) a, nget (ms_nodes st) b with
        | Some na, Some nb =>
            if negb (edge_exists (ms_faces st) a b) then None else
            let pi := midpoint (ns_pos na) (ns_pos nb) in
            let mi := if dynamic then vadd Nm (ns_mom na) (ns_mom nb) else vzero Nm in
            Some (mkms (collapse (ms_faces st) a b i) (nset (ndel (ndel (ms_nodes st) a) b) i (mkns pi mi)))
        | _, _ => None
        end
    | OpSwap a b =>
        match swap (ms_faces st) a b with
        | Some fs => Some (mkms fs (ms_nodes st))
        | None => None
        end
    end.

  Fixpoint replay (dynamic : bool) (st : mstate) (ops : list op) : option mstate :=
    match ops with
    | [] => Some st
    | o :: r => match apply_op dynamic st o with Some st' => replay dynamic st' r | None => None end
    end.

  (* decision predicates of refine_mesh at the moment an operation fires *)
  Definition sq_len (st : mstate) (a b : N) : option T :=
    match nget (ms_nodes st) a, nget (ms_nodes st) b with
    | Some na, Some nb => Some (vsqnorm Nm (vsub Nm (ns_pos na) (ns_pos nb)))
    | _, _ => None
    end.
  Definition guard_ok (lmin2 lmax2 : T) (st : mstate) (o : op) : bool :=
    match o with
    | OpSplit a b _ => match sq_len st a b with Some l => nltb Nm lmax2 l | None => false end
    | OpMerge a b _ => match sq_len st a b with Some l => nltb Nm l lmin2 && link_ok (ms_faces st) a b | None => false end
    | OpSwap a b =>
        match filter (fun f : ltri => has_dir (fst f) a b) (ms_faces st), filter (fun f : ltri => has_dir (fst f) b a) (ms_faces st) with
        | [f1], [f2] => negb (edge_exists (ms_faces st) (third (fst f1) a b) (third (fst f2) a b))
        | _, _ => false
        end
    end.
  (* all guards along a replay *)
  Fixpoint guards_ok (dynamic : bool) (lmin2 lmax2 : T) (st : mstate) (ops : list op) : bool :=
    match ops with
    | [] => true
    | o :: r => guard_ok lmin2 lmax2 st o &&
                match apply_op dynamic st o with Some st' => guards_ok dynamic lmin2 lmax2 st' r | None => false end
    end.
End Replay.
