(* Iteration.v — one iteration of the simulation as the composition of its phases, IN THE ORDER READ FROM THE SOURCE
   (Iteration_gen.v, regenerated from src/solver.cpp on every run), at the level of the population bookkeeping
   (Population.v) and of what the outputs record (Output.v).

   What the other phase models take as a hypothesis is derived here from the order:
     - the phases that subscript the population list with stored list indices (contact, polarization update, time
       integration) run while every cell's list index equals its position (C08's invariant at its points of use);
     - the statistics record lists the cells alive after the divisions and before the removals of that iteration, the
       mesh files those alive before the divisions (the `mid` and `fin` populations of Output.v / C19);
     - a cell found below its minimum volume by the force phase is gone before the next iteration starts (C04).
   The inputs of an iteration that other models decide: which list positions divide successfully, which ids are
   below their minimum volume after the force phase, whether the integrator is on a temporary step. *)
From Coq Require Import NArith Arith Bool List Lia.
From SC Require Import Population IterationDefs.
Import ListNotations.

Record inputs := mkin { in_div : list nat; in_below : list N; in_tmp : bool }.

Inductive ievent :=
| EUse (ph : phase) (iter : nat) (cells : list pcell)      (* a phase that dereferences stored list indices *)
| ESave (iter : nat) (alive : list N)
| EStats (iter : nat) (alive : list N)
| EStep (iter : nat).

Record istate := mkis { i_pop : pop; i_iter : nat; i_steps : nat; i_log : list ievent }.   (* log: newest first *)

Definition enabled (e : phase_entry) (inp : inputs) (iter : nat) : bool :=
  (negb (pe_not_tmp e) || negb (in_tmp inp)) &&
  match pe_period e with O => true | n => Nat.eqb (Nat.modulo iter n) 0 end.

Definition log (ev : ievent) (s : istate) : istate := mkis (i_pop s) (i_iter s) (i_steps s) (ev :: i_log s).
Definition set_pop (p : pop) (s : istate) : istate := mkis p (i_iter s) (i_steps s) (i_log s).

(* the erase without the renumbering (the code does the two in separate statements) *)
Definition erase (ids : list N) (p : pop) : pop :=
  mkpop (filter (fun c => negb (existsb (N.eqb (p_id c)) ids)) (p_cells p)) (p_counter p).
Definition renumber_pop (p : pop) : pop := mkpop (renumber (p_cells p) 0) (p_counter p).

Definition exec_phase (inp : inputs) (s : istate) (e : phase_entry) : istate :=
  if negb (enabled e inp (i_iter s)) then s else
  match pe_phase e with
  | PSave => log (ESave (i_iter s) (ids (i_pop s))) s
  | PDivide => set_pop (divide (in_div inp) (i_pop s)) s
  | PContact => log (EUse PContact (i_iter s) (p_cells (i_pop s))) s
  | PAutoPolarize => s
  | PPolarize => log (EUse PPolarize (i_iter s) (p_cells (i_pop s))) s
  | PIntegrate => let s1 := log (EUse PIntegrate (i_iter s) (p_cells (i_pop s))) s in
                  log (EStep (i_iter s)) (mkis (i_pop s1) (i_iter s1) (S (i_steps s1)) (i_log s1))
  | PStats => log (EStats (i_iter s) (ids (i_pop s))) s
  | PRemove => set_pop (erase (in_below inp) (i_pop s)) s
  | PRenumber => set_pop (renumber_pop (i_pop s)) s
  | PCount => mkis (i_pop s) (S (i_iter s)) (i_steps s) (i_log s)
  | PFaceTypes | PRefine | PForces => s
  end.

Definition run_iteration (order : list phase_entry) (inp : inputs) (s : istate) : istate :=
  fold_left (exec_phase inp) order s.

Fixpoint run_iterations (order : list phase_entry) (inps : list inputs) (s : istate) : istate :=
  match inps with [] => s | i :: r => run_iterations order r (run_iteration order i s) end.

Definition init_state (n : nat) : istate := mkis (init_pop n) 0 0 [].

(* the order the documentation (and every other phase model) assumes *)
Definition documented_order : list phase_entry :=
  [ mkpe PSave true 0; mkpe PDivide true 5; mkpe PFaceTypes false 0; mkpe PRefine false 0; mkpe PContact false 0;
    mkpe PPolarize false 0; mkpe PForces false 0; mkpe PIntegrate false 0; mkpe PStats false 50; mkpe PRemove false 0;
    mkpe PRenumber false 0; mkpe PCount false 0 ].

Fixpoint entries_eqb (a b : list phase_entry) : bool :=
  match a, b with
  | [], [] => true
  | x :: r, y :: q => entry_eqb x y && entries_eqb r q
  | _, _ => false
  end.

(* every use of stored list indices recorded in the log happened on a population whose indices were positions *)
Fixpoint uses_ok (l : list ievent) : bool :=
  match l with
  | [] => true
  | EUse _ _ cells :: r => locals_ok cells 0 && uses_ok r
  | _ :: r => uses_ok r
  end.

(* inputs that designate existing cells: dividing positions inside the list and distinct *)
Definition inputs_ok (inp : inputs) (p : pop) : Prop :=
  NoDup (in_div inp) /\ (forall m, In m (in_div inp) -> m < length (p_cells p)).

(* position of a phase in an order (None if absent) *)
Fixpoint phase_pos (ph : phase) (l : list phase_entry) (k : nat) : option nat :=
  match l with
  | [] => None
  | e :: r => if phase_eqb (pe_phase e) ph then Some k else phase_pos ph r (S k)
  end.
Definition before (a b : phase) (l : list phase_entry) : bool :=
  match phase_pos a l 0, phase_pos b l 0 with Some i, Some j => Nat.ltb i j | _, _ => false end.
(* the (cell list index, node index) pairs stored by the contact phase are consumed (polarization update, time integration)
   after the divider has finished changing the list and before the removal erases from it; the renumbering follows the erase *)
Definition stored_indices_used_between_list_changes (l : list phase_entry) : bool :=
  before PDivide PContact l && before PContact PPolarize l && before PContact PIntegrate l &&
  before PPolarize PRemove l && before PIntegrate PRemove l && before PRemove PRenumber l && before PRenumber PCount l.
