(* ContactTieR.v — the two statements that carry C07, transferred to the regenerated repulsion block (Narrow_gen.interaction_gen) over R
   through the equality of ContactTie.v. *)
From Coq Require Import Reals Lra ZArith Bool List.
From SC Require Import Num Vec3 VecR Kernel KernelProofs Grid Contact ContactProofsA Narrow_gen ContactTie.
Local Open Scope R_scope.

Lemma generated_repulsion_net_zero :
  forall (cut_adh cut_rep : R) (p a b c fnormal : vR) (area rep : R) (t1 t2 : nat) (fn fa fb fc : vR), nondegenerate a b c ->
    interaction_gen NumR (cut2_max NumR cut_adh cut_rep) p a b c fnormal area rep t1 t2 = Some (fn, fa, fb, fc) ->
    fn +v fa +v fb +v fc = mkv 0 0 0.
Proof.
  intros cut_adh cut_rep p a b c fnormal area rep t1 t2 fn fa fb fc Hnd H.
  apply (interaction_net_zero cut_adh cut_rep p a b c fnormal area rep t1 t2 fn fa fb fc Hnd).
  rewrite <- H. symmetry. apply (proj2 (proj2 (proj2 narrow_phase_model_is_what_the_source_says))).
Qed.

Lemma generated_repulsion_short_ranged :
  forall (cut_adh cut_rep : R) (p a b c fnormal : vR) (area rep : R) (t1 t2 : nat),
    cut2_max NumR cut_adh cut_rep <= k_dist (kernel NumR p a b c) ->
    interaction_gen NumR (cut2_max NumR cut_adh cut_rep) p a b c fnormal area rep t1 t2 = None.
Proof.
  intros cut_adh cut_rep p a b c fnormal area rep t1 t2 H.
  rewrite (proj2 (proj2 (proj2 narrow_phase_model_is_what_the_source_says))).
  exact (interaction_beyond_cutoff cut_adh cut_rep p a b c fnormal area rep t1 t2 H).
Qed.
