(* C17Proofs.v — proofs of the two C17 statements that are not already in VtkProofs.v / ParamsProofs.v:
   - empty_or_nonnumeric_rejected : a parameter element whose text converts under no numeric rule is rejected;
   - truncated_rejected           : every proper prefix (all tokens but the final one cut, or more) of a written
                                    cell-data file is rejected by the reader, or read with fewer types than cells. *)
From Coq Require Import NArith Arith Bool List Lia ZArith.
From SC Require Import Vtk VtkSpec VtkProofs Params ParamsSpec ParamsProofs.
Import ListNotations.
Local Open Scope N_scope.

(* ================================================================== parameter file *)
Lemma empty_or_nonnumeric_rejected :
  forall (T V : Type) stod stoi is_inf lower (inf : V) (empty : T) ltb0 leb0 ltb table ch r0 e x,
  In e table -> first_child (e_tag e) ch = Some x ->
  e_conv e <> CString ->
  stod (x_text empty x) = None -> stoi (x_text empty x) = None ->
  stod (lower (x_text empty x)) = None -> is_inf (lower (x_text empty x)) = false -> is_inf (x_text empty x) = false ->
  exists err, decode stod stoi is_inf lower inf empty ltb0 leb0 ltb table ch r0 = PErr err.
Proof.
  intros T V stod stoi is_inf lower inf empty ltb0 leb0 ltb table ch r0 e x Hin Hfc Hconv Hd Hi Hdl Hil Hic.
  apply (decode_unconvertible T V stod stoi is_inf lower inf empty ltb0 leb0 ltb table ch r0 e x Hin Hfc).
  destruct (e_conv e) eqn:Ec; unfold convert.
  - exfalso. apply Hconv. reflexivity.
  - rewrite Hd. reflexivity.
  - rewrite Hi. reflexivity.
  - rewrite Hi. reflexivity.
  - rewrite Hi. reflexivity.
  - rewrite Hil, Hdl. reflexivity.
  - rewrite Hic, Hd. reflexivity.
Qed.

(* ================================================================== truncated cell-data file *)

(* ------------------------------------------------------------------ generic list helpers *)
Lemma In_firstn : forall {A : Type} k (l : list A) x, In x (firstn k l) -> In x l.
Proof.
  intros A k. induction k as [|k IH]; intros l x H.
  - destruct H.
  - destruct l as [|y l]; cbn [firstn] in H; [destruct H|].
    destruct H as [H|H]; [left; exact H|right; apply IH; exact H].
Qed.

Lemma firstn_app_split : forall {A : Type} k (l1 l2 : list A),
  ((k < length l1)%nat /\ firstn k (l1 ++ l2) = firstn k l1) \/
  (exists k', k = (length l1 + k')%nat /\ firstn k (l1 ++ l2) = l1 ++ firstn k' l2).
Proof.
  intros A k l1 l2. destruct (Nat.lt_ge_cases k (length l1)) as [L|L].
  - left. split; [exact L|]. rewrite firstn_app. replace (k - length l1)%nat with 0%nat by lia.
    cbn [firstn]. apply app_nil_r.
  - right. exists (k - length l1)%nat. split; [lia|]. rewrite firstn_app, firstn_all2 by lia. reflexivity.
Qed.

Lemma after_app_none : forall {F : Type} (k : tok (F:=F) -> bool) pre l,
  (forall u, In u pre -> k u = false) -> after k (pre ++ l) = after k l.
Proof.
  intros F k pre l H. induction pre as [|u pre IH]; cbn [app after]; [reflexivity|].
  rewrite (H u (or_introl eq_refl)). apply IH. intros w Hw. apply H. now right.
Qed.

Lemma take_I_map_nil : forall {F : Type} (ns : list N), take_I (F:=F) (map I ns) = ns.
Proof. intros F ns. rewrite <- (app_nil_r (map I ns)). apply take_I_map. exact Logic.I. Qed.

Lemma map_res_length : forall {A B : Type} (f : A -> res B) l bs, map_res f l = Ok bs -> length bs = length l.
Proof.
  intros A B f l. induction l as [|a l IH]; intros bs H; cbn [map_res] in H.
  - injection H as <-. reflexivity.
  - destruct (f a) as [b|e]; [|discriminate].
    destruct (map_res f l) as [bs'|e]; [|discriminate].
    injection H as <-. cbn [length]. now rewrite (IH bs' eq_refl).
Qed.

(* ------------------------------------------------------------------ the verdict on a truncated file *)
Definition rejected_or_short {V : Type} (r : res (list (rmesh (V:=V)) * list N)) : Prop :=
  match r with
  | Err _ => True
  | Ok (ms, tys) => length tys <> length ms
  end.

Lemma rs_faces : forall {F V : Type} (sem : F -> option V) (file : list (tok (F:=F))) e,
  read_faces file = Err e -> rejected_or_short (read_file sem file).
Proof.
  intros F V sem file e H. unfold read_file.
  destruct (read_points sem file) as [pts|e0]; [rewrite H|]; exact Logic.I.
Qed.

Lemma rs_types : forall {F V : Type} (sem : F -> option V) (file : list (tok (F:=F))) e,
  read_types file = Err e -> rejected_or_short (read_file sem file).
Proof.
  intros F V sem file e H. unfold read_file.
  destruct (read_points sem file) as [pts|e0]; [|exact Logic.I].
  destruct (read_faces file) as [rs|e1]; [|exact Logic.I].
  destruct (map_res (cell_mesh pts) rs) as [ms|e2]; [|exact Logic.I].
  rewrite H. exact Logic.I.
Qed.

Lemma rs_ok : forall {F V : Type} (sem : F -> option V) (file : list (tok (F:=F))) rs tys,
  read_faces file = Ok rs -> read_types file = Ok tys -> length tys <> length rs ->
  rejected_or_short (read_file sem file).
Proof.
  intros F V sem file rs tys Hf Ht Hl. unfold read_file.
  destruct (read_points sem file) as [pts|e0]; [|exact Logic.I].
  rewrite Hf. destruct (map_res (cell_mesh pts) rs) as [ms|e2] eqn:Em; [|exact Logic.I].
  rewrite Ht. unfold rejected_or_short. rewrite (map_res_length _ _ _ Em). exact Hl.
Qed.

(* ------------------------------------------------------------------ the four sections of a written file *)
Definition secA {F : Type} (tn nc ti : N) (xs : list F) (ints : list N) : list (tok (F:=F)) :=
  KPoints :: I tn :: map X xs ++ KCells :: I nc :: I ti :: map I ints.
Definition secT {F : Type} (nc : N) (n42 : nat) : list (tok (F:=F)) :=
  KCellTypes :: I nc :: map I (repeat 42 n42).
Definition secD {F : Type} (nc : N) (zeros : list N) : list (tok (F:=F)) :=
  KCellData :: I nc :: KOther :: I 1 :: I nc :: map I zeros.
Definition secF {F : Type} (nc : N) (tys : list N) : list (tok (F:=F)) :=
  KFieldTypeId :: I 1 :: I nc :: map I tys ++ [KOther].

Lemma shaped_secs : forall {F : Type} tn nc ti (xs : list F) ints n42 zeros tys,
  shaped tn nc ti xs ints n42 zeros tys = secA tn nc ti xs ints ++ secT nc n42 ++ secD nc zeros ++ secF nc tys.
Proof.
  intros F tn nc ti xs ints n42 zeros tys. unfold shaped, secA, secT, secD, secF.
  cbn [app]. rewrite <- app_assoc. cbn [app]. reflexivity.
Qed.

Lemma pre_shape : forall {F : Type} tn nc ti (xs : list F) ints n42 (rest : list (tok (F:=F))),
  secA tn nc ti xs ints ++ secT nc n42 ++ rest =
  KPoints :: I tn :: map X xs ++ KCells :: I nc :: I ti :: map I ints ++
  KCellTypes :: I nc :: map I (repeat 42 n42) ++ rest.
Proof.
  intros F tn nc ti xs ints n42 rest. unfold secA, secT.
  cbn [app]. rewrite <- app_assoc. cbn [app]. reflexivity.
Qed.

Lemma secF_length : forall {F : Type} nc tys, length (secF (F:=F) nc tys) = (4 + length tys)%nat.
Proof. intros F nc tys. unfold secF. cbn [length]. rewrite app_length, map_length. cbn [length]. lia. Qed.

(* which keywords a section does not contain *)
Lemma secA_noK : forall {F : Type} tn nc ti (xs : list F) ints u,
  In u (secA tn nc ti xs ints) -> isK 2 u = false /\ isK 3 u = false.
Proof.
  intros F tn nc ti xs ints u H. unfold secA in H.
  destruct H as [<-|[<-|H]]; [split; reflexivity|split; reflexivity|].
  apply in_app_or in H. destruct H as [H|[<-|[<-|[<-|H]]]];
    [|split; reflexivity|split; reflexivity|split; reflexivity|];
    apply in_map_iff in H; destruct H as [y [<- _]]; split; reflexivity.
Qed.

Lemma secT_noK3 : forall {F : Type} nc n42 u, In u (secT (F:=F) nc n42) -> isK 3 u = false.
Proof.
  intros F nc n42 u H. unfold secT in H.
  destruct H as [<-|[<-|H]]; [reflexivity|reflexivity|].
  apply in_map_iff in H. destruct H as [y [<- _]]. reflexivity.
Qed.

Lemma secD_noK3 : forall {F : Type} nc zeros u, In u (secD (F:=F) nc zeros) -> isK 3 u = false.
Proof.
  intros F nc zeros u H. unfold secD in H.
  destruct H as [<-|[<-|[<-|[<-|[<-|H]]]]]; [reflexivity|reflexivity|reflexivity|reflexivity|reflexivity|].
  apply in_map_iff in H. destruct H as [y [<- _]]. reflexivity.
Qed.

(* ------------------------------------------------------------------ (a) cut before the end of the 42-block *)
Lemma faces_cut_A : forall {F : Type} tn nc ti (xs : list F) ints k,
  read_faces (firstn k (secA tn nc ti xs ints)) = Err ENoCellTypes.
Proof.
  intros F tn nc ti xs ints k. unfold read_faces. rewrite after_none; [reflexivity|].
  intros u Hu. apply In_firstn in Hu. exact (proj1 (secA_noK _ _ _ _ _ _ Hu)).
Qed.

Lemma faces_cut_T : forall {F : Type} tn ti (xs : list F) ints n42 k1,
  (k1 < length (secT (F:=F) (N.of_nat n42) n42))%nat ->
  exists e, read_faces (secA tn (N.of_nat n42) ti xs ints ++ firstn k1 (secT (N.of_nat n42) n42)) = Err e.
Proof.
  intros F tn ti xs ints n42 k1 Hk. unfold read_faces.
  rewrite after_app_none by (intros u Hu; exact (proj1 (secA_noK _ _ _ _ _ _ Hu))).
  unfold secT in *. cbn [length] in Hk. rewrite map_length, repeat_length in Hk.
  destruct k1 as [|[|k2]]; cbn [firstn after isK].
  - exists ENoCellTypes. reflexivity.
  - exists ENoCellTypes. reflexivity.
  - rewrite firstn_map, take_I_map_nil.
    destruct (forallb (N.eqb 42) (firstn k2 (repeat 42 n42))); cbn [negb]; [|eexists; reflexivity].
    rewrite firstn_length, repeat_length, Nat.min_l by lia.
    destruct (N.eqb_spec (N.of_nat k2) (N.of_nat n42)) as [E|E]; [lia|]. cbn [negb]. eexists; reflexivity.
Qed.

(* ------------------------------------------------------------------ geometry complete: the records are all read *)
Lemma faces_complete : forall {F : Type} tn ti (xs : list F) rs n42 (rest : list (tok (F:=F))),
  (match rest with I _ :: _ => False | _ => True end) -> (length rs <= n42)%nat ->
  read_faces (secA tn (N.of_nat n42) ti xs (flat_map (fun r => N.of_nat (length r) :: r) rs) ++
              secT (N.of_nat n42) n42 ++ rest) = Ok rs.
Proof.
  intros F tn ti xs rs n42 rest Hrest Hl. rewrite pre_shape. unfold read_faces. adv.
  rewrite (take_I_map (repeat 42 n42) rest Hrest).
  rewrite forallb_repeat42, repeat_length, N.eqb_refl. cbn [negb].
  rewrite take_I_map by exact Logic.I.
  apply split_cells_flat. rewrite app_length, map_length. pose proof (flat_faces_length rs). lia.
Qed.

(* ------------------------------------------------------------------ (b) cut before the end of the type header *)
Lemma types_skip : forall {F : Type} tn nc ti (xs : list F) ints n42 (rest : list (tok (F:=F))),
  read_types (secA tn nc ti xs ints ++ secT nc n42 ++ rest) = read_types rest.
Proof.
  intros F tn nc ti xs ints n42 rest. unfold read_types.
  rewrite after_app_none by (intros u Hu; exact (proj2 (secA_noK _ _ _ _ _ _ Hu))).
  rewrite after_app_none by (intros u Hu; exact (secT_noK3 _ _ _ Hu)).
  reflexivity.
Qed.

Lemma types_cut_D : forall {F : Type} nc zeros k2, read_types (firstn k2 (secD (F:=F) nc zeros)) = Err ENoTypeArray.
Proof.
  intros F nc zeros k2. unfold read_types. rewrite after_none; [reflexivity|].
  intros u Hu. apply In_firstn in Hu. exact (secD_noK3 _ _ _ Hu).
Qed.

(* (b)/(c) the cut is in the last section: header incomplete, or k5 type values kept *)
Lemma types_cut_F : forall {F : Type} nc zeros tys k4,
  (k4 < 3)%nat /\ read_types (secD (F:=F) nc zeros ++ firstn k4 (secF nc tys)) = Err ENoTypeArray \/
  exists k5, k4 = (3 + k5)%nat /\
    ((k5 < length tys)%nat -> read_types (secD (F:=F) nc zeros ++ firstn k4 (secF nc tys)) = Ok (firstn k5 tys)).
Proof.
  intros F nc zeros tys k4.
  assert (Hskip : forall rest : list (tok (F:=F)), read_types (secD nc zeros ++ rest) = read_types rest).
  { intros rest. unfold read_types.
    rewrite after_app_none by (intros u Hu; exact (secD_noK3 _ _ _ Hu)). reflexivity. }
  rewrite Hskip. unfold secF.
  destruct k4 as [|[|[|k5]]].
  - left. split; [lia|reflexivity].
  - left. split; [lia|reflexivity].
  - left. split; [lia|reflexivity].
  - right. exists k5. split; [lia|]. intros Hk5.
    cbn [firstn]. unfold read_types. cbn [after isK].
    rewrite firstn_app. replace (k5 - length (map (I (F:=F)) tys))%nat with 0%nat by (rewrite map_length; lia).
    cbn [firstn]. rewrite app_nil_r, firstn_map, take_I_map_nil. reflexivity.
Qed.

(* ------------------------------------------------------------------ every cut of a shaped file *)
Lemma truncated_shaped : forall {F V : Type} (sem : F -> option V) tn ti (xs : list F) rs n42 zeros tys k,
  length rs = n42 -> length tys = n42 ->
  (k < length (shaped tn (N.of_nat n42) ti xs (flat_map (fun r => N.of_nat (length r) :: r) rs) n42 zeros tys) - 1)%nat ->
  rejected_or_short
    (read_file sem (firstn k (shaped tn (N.of_nat n42) ti xs (flat_map (fun r => N.of_nat (length r) :: r) rs) n42 zeros tys))).
Proof.
  intros F V sem tn ti xs rs n42 zeros tys k Hrs Htys Hk.
  rewrite shaped_secs in *. rewrite !app_length, secF_length in Hk.
  destruct (firstn_app_split k (secA tn (N.of_nat n42) ti xs (flat_map (fun r => N.of_nat (length r) :: r) rs))
              (secT (N.of_nat n42) n42 ++ secD (N.of_nat n42) zeros ++ secF (N.of_nat n42) tys))
    as [[L1 E1]|[k1 [Ek1 E1]]]; rewrite E1; clear E1.
  { (* no CELL_TYPES keyword in the prefix *)
    apply (rs_faces sem _ ENoCellTypes). apply faces_cut_A. }
  destruct (firstn_app_split k1 (secT (F:=F) (N.of_nat n42) n42) (secD (N.of_nat n42) zeros ++ secF (N.of_nat n42) tys))
    as [[L2 E2]|[k2 [Ek2 E2]]]; rewrite E2; clear E2.
  { (* CELL_TYPES keyword present, its count or some of the n type values missing *)
    destruct (faces_cut_T tn ti xs (flat_map (fun r => N.of_nat (length r) :: r) rs) n42 k1 L2) as [e He].
    apply (rs_faces sem _ e). exact He. }
  destruct (firstn_app_split k2 (secD (F:=F) (N.of_nat n42) zeros) (secF (N.of_nat n42) tys))
    as [[L3 E3]|[k4 [Ek4 E3]]]; rewrite E3; clear E3.
  { (* no cell_type_id header in the prefix *)
    apply (rs_types sem _ ENoTypeArray). rewrite types_skip. apply types_cut_D. }
  destruct (types_cut_F (F:=F) (N.of_nat n42) zeros tys k4) as [[L4 E4]|[k5 [Ek5 E4]]].
  { (* header incomplete *)
    apply (rs_types sem _ ENoTypeArray). rewrite types_skip. exact E4. }
  (* k5 < n type values kept *)
  assert (Hk5 : (k5 < length tys)%nat) by lia.
  apply (rs_ok sem _ rs (firstn k5 tys)).
  - apply faces_complete; [|lia]. unfold secD. cbn [app]. exact Logic.I.
  - rewrite types_skip. apply E4. exact Hk5.
  - rewrite firstn_length. lia.
Qed.

(* ------------------------------------------------------------------ the statement of Properties_C17 *)
Lemma truncated_rejected : forall (F V : Type) (sem : F -> option V) (v : F -> V) (cells : list (wcell (F:=F))) (k : nat),
  cells <> [] -> Forall good_cell cells ->
  (forall c x, In c cells -> In x (w_coords c) -> sem x = Some (v x)) ->
  (k < length (write_file cells) - 1)%nat ->
  match read_file sem (firstn k (write_file cells)) with
  | Err _ => True
  | Ok (ms, tys) => length tys <> length ms
  end.
Proof.
  intros F V sem v cells k _ _ _ Hk. rewrite write_file_shape in *.
  change (rejected_or_short (read_file sem (firstn k
    (shaped (total_nodes cells) (N.of_nat (length cells)) (total_ints cells)
            (flat_map (fun c => w_coords c) cells)
            (flat_map (fun r => N.of_nat (length r) :: r) (recs cells 0))
            (length cells) (map (fun _ => 0) cells) (map (fun c => w_type c) cells))))).
  apply truncated_shaped; [apply recs_length|apply map_length|exact Hk].
Qed.
