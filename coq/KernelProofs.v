(* KernelProofs.v — theorems about Kernel.kernel at the real numbers (property C05). *)
From Coq Require Import Reals Lra Lia Psatz Bool List.
From SC Require Import Num Vec3 VecR Kernel.
Local Open Scope R_scope.

(* ------------------------------------------------------------------ pure real (Gram) facts *)
Section Gram.
  Variables g11 g12 g22 d1 d2 pp : R.
  Hypothesis HD : 0 < g11 * g22 - g12 * g12.
  Hypothesis H11 : 0 < g11.

  Definition F (s t : R) : R :=
    pp - 2 * (s * d1 + t * d2) + s * s * g11 + 2 * s * t * g12 + t * t * g22.

  Lemma g22_pos : 0 < g22.
  Proof. nra. Qed.

  Lemma Q_nonneg x y : 0 <= x * x * g11 + 2 * x * y * g12 + y * y * g22.
  Proof.
    assert (H : 0 <= g11 * (x * x * g11 + 2 * x * y * g12 + y * y * g22)).
    { replace (g11 * (x * x * g11 + 2 * x * y * g12 + y * y * g22))
        with ((g11 * x + g12 * y) * (g11 * x + g12 * y) + (g11 * g22 - g12 * g12) * (y * y)) by ring.
      pose proof (Rle_0_sqr (g11 * x + g12 * y)) as S1. unfold Rsqr in S1.
      pose proof (Rle_0_sqr y) as S2. unfold Rsqr in S2.
      assert (0 <= (g11 * g22 - g12 * g12) * (y * y)) by (apply Rmult_le_pos; lra). lra. }
    apply Rmult_le_reg_l with g11; [exact H11|]. rewrite Rmult_0_r. exact H.
  Qed.

  (* sufficiency of the variational inequality at the three vertices *)
  Lemma kkt_opt s0 t0 s t :
    0 <= - (s0 * g11 + t0 * g12 - d1) * s0 - (s0 * g12 + t0 * g22 - d2) * t0 ->
    0 <= (s0 * g11 + t0 * g12 - d1) * (1 - s0) - (s0 * g12 + t0 * g22 - d2) * t0 ->
    0 <= - (s0 * g11 + t0 * g12 - d1) * s0 + (s0 * g12 + t0 * g22 - d2) * (1 - t0) ->
    0 <= s -> 0 <= t -> s + t <= 1 -> F s0 t0 <= F s t.
  Proof.
    intros K0 K1 K2 Hs Ht Hst.
    set (Gs := s0 * g11 + t0 * g12 - d1) in *. set (Gt := s0 * g12 + t0 * g22 - d2) in *.
    assert (E : F s t - F s0 t0 =
      2 * ((1 - s - t) * (- Gs * s0 - Gt * t0) + s * (Gs * (1 - s0) - Gt * t0) + t * (- Gs * s0 + Gt * (1 - t0)))
      + ((s - s0) * (s - s0) * g11 + 2 * (s - s0) * (t - t0) * g12 + (t - t0) * (t - t0) * g22)).
    { unfold F, Gs, Gt. ring. }
    pose proof (Q_nonneg (s - s0) (t - t0)) as HQ.
    assert (0 <= (1 - s - t) * (- Gs * s0 - Gt * t0)) by (apply Rmult_le_pos; lra).
    assert (0 <= s * (Gs * (1 - s0) - Gt * t0)) by (apply Rmult_le_pos; lra).
    assert (0 <= t * (- Gs * s0 + Gt * (1 - t0))) by (apply Rmult_le_pos; lra).
    lra.
  Qed.
End Gram.


(* one half of the exhaustiveness argument, in vertex-relative quantities *)
Lemma vor_half l1 l2 m x1 x2 :
  0 < l1 * l2 - m * m -> 0 < l1 -> 0 < l2 -> l1 * x2 - m * x1 <= 0 -> x1 < 0 ->
  (x1 <= 0 /\ x2 <= 0) \/ (l2 * x1 - m * x2 <= 0 /\ 0 <= x2 /\ x2 <= l2) \/
  (l2 - x2 <= 0 /\ x1 - m - x2 + l2 <= 0).
Proof.
  intros HD H1 H2 Htz Hx1.
  destruct (Rle_dec x2 0) as [Hx2|Hx2]; [left; lra|]. right.
  assert (Hx2' : 0 < x2) by lra.
  assert (A1 : 0 < l1 * x2) by nra.
  assert (A2 : 0 < m * x1) by lra.
  assert (Hm : m < 0) by nra.
  assert (A3 : l1 * l2 * x1 < m * m * x1) by nra.
  assert (A4 : m * (m * x1) <= m * (l1 * x2)) by (apply Rmult_le_compat_neg_l; lra).
  assert (A5 : l1 * (l2 * x1 - m * x2) < 0) by nra.
  assert (Hty : l2 * x1 - m * x2 < 0) by nra.
  destruct (Rle_dec x2 l2) as [Hl|Hl]; [left; lra|]. right.
  split; [lra|].
  destruct (Rle_dec (x1 - m - x2 + l2) 0) as [Hz|Hz]; [lra|]. exfalso.
  assert (B1 : m < x1) by lra.
  assert (B2 : m * x1 < m * m) by nra.
  assert (B3 : l1 * l2 < l1 * x2) by nra.
  lra.
Qed.

Lemma vor_full l1 l2 m x1 x2 :
  0 < l1 * l2 - m * m -> 0 < l1 -> 0 < l2 -> l1 * x2 - m * x1 <= 0 ->
  (x1 <= 0 /\ x2 <= 0) \/
  (l1 - x1 <= 0 /\ x2 - m - x1 + l1 <= 0) \/
  (0 <= x1 /\ x1 <= l1) \/
  (l2 - x2 <= 0 /\ x1 - m - x2 + l2 <= 0) \/
  (l2 * x1 - m * x2 <= 0 /\ 0 <= x2 /\ x2 <= l2) \/
  ((l1 * l2 - m * m) - (l2 * x1 - m * x2) - (l1 * x2 - m * x1) <= 0 /\ 0 <= x2 - m - x1 + l1 /\ 0 <= x1 - m - x2 + l2).
Proof.
  intros HD H1 H2 Htz.
  destruct (Rlt_dec x1 0) as [Hneg|Hneg].
  - destruct (vor_half l1 l2 m x1 x2 HD H1 H2 Htz Hneg) as [R|[R|R]]; tauto.
  - destruct (Rle_dec x1 l1) as [Hle|Hle]; [right; right; left; lra|].
    assert (HL : 0 < l1 - 2 * m + l2).
    { pose proof (Rle_0_sqr (l1 - m)) as S. unfold Rsqr in S.
      assert (0 < l1 * (l1 - 2 * m + l2)) by nra.
      apply Rmult_lt_reg_l with l1; [assumption|]. lra. }
    assert (HD' : 0 < l1 * (l1 - 2 * m + l2) - (l1 - m) * (l1 - m)) by nra.
    assert (Htz' : l1 * (x2 - m - x1 + l1) - (l1 - m) * (l1 - x1) <= 0) by nra.
    assert (Hx : l1 - x1 < 0) by lra.
    destruct (vor_half l1 (l1 - 2 * m + l2) (l1 - m) (l1 - x1) (x2 - m - x1 + l1) HD' H1 HL Htz' Hx) as [R|[R|R]].
    + right; left. lra.
    + right; right; right; right; right.
      destruct R as [R1 [R2 R3]]. split; [|lra].
      replace ((l1 * l2 - m * m) - (l2 * x1 - m * x2) - (l1 * x2 - m * x1))
        with ((l1 - 2 * m + l2) * (l1 - x1) - (l1 - m) * (x2 - m - x1 + l1)) by ring. exact R1.
    + right; right; right; left. lra.
Qed.

(* ------------------------------------------------------------------ the kernel, branch by branch *)
(* the kernel as a function of the Gram data only *)
Definition gkernel (g11 g12 g22 d1 d2 pp : R) : kres R :=
  let d3 := d1 - g11 in let d4 := d2 - g12 in let d5 := d1 - g12 in let d6 := d2 - g22 in
  let vc := g11 * d2 - g12 * d1 in let vb := g22 * d1 - g12 * d2 in
  let va := (g11 * g22 - g12 * g12) - vb - vc in
  let FF := F g11 g12 g22 d1 d2 pp in
  if Rleb d1 0 && Rleb d2 0 then mkk (FF 0 0) (mkv 1 0 0) 1 else
  if Rleb 0 d3 && Rleb d4 d3 then mkk (FF 1 0) (mkv 0 1 0) 2 else
  if Rleb vc 0 && Rleb 0 d1 && Rleb d3 0 then
    mkk (FF (d1 / (d1 - d3)) 0) (mkv (1 - d1 / (d1 - d3)) (d1 / (d1 - d3)) 0) 3 else
  if Rleb 0 d6 && Rleb d5 d6 then mkk (FF 0 1) (mkv 0 0 1) 4 else
  if Rleb vb 0 && Rleb 0 d2 && Rleb d6 0 then
    mkk (FF 0 (d2 / (d2 - d6))) (mkv (1 - d2 / (d2 - d6)) 0 (d2 / (d2 - d6))) 5 else
  if Rleb va 0 && Rleb 0 (d4 - d3) && Rleb 0 (d5 - d6) then
    mkk (FF (1 - (d4 - d3) / (d4 - d3 + (d5 - d6))) ((d4 - d3) / (d4 - d3 + (d5 - d6))))
        (mkv 0 (1 - (d4 - d3) / (d4 - d3 + (d5 - d6))) ((d4 - d3) / (d4 - d3 + (d5 - d6)))) 6 else
  mkk (FF (vb * (1 / (va + vb + vc))) (vc * (1 / (va + vb + vc))))
      (mkv (1 - vb * (1 / (va + vb + vc)) - vc * (1 / (va + vb + vc))) (vb * (1 / (va + vb + vc))) (vc * (1 / (va + vb + vc)))) 7.

Section KernelR.
  Variables p a b c : vR.

  Let ab := b -v a.
  Let ac := c -v a.
  Let ap := p -v a.
  Let g11 := sqn ab.
  Let g12 := ab ·  ac.
  Let g22 := sqn ac.
  Let d1 := ab ·  ap.
  Let d2 := ac ·  ap.
  Let pp := sqn ap.
  Let d3 := d1 - g11.
  Let d4 := d2 - g12.
  Let d5 := d1 - g12.
  Let d6 := d2 - g22.
  Let vc := g11 * d2 - g12 * d1.
  Let vb := g22 * d1 - g12 * d2.
  Let va := (g11 * g22 - g12 * g12) - vb - vc.
  Let DD := g11 * g22 - g12 * g12.

  Definition nondegenerate : Prop := 0 < sqn (b -v a) * sqn (c -v a) - ((b -v a) ·  (c -v a)) * ((b -v a) ·  (c -v a)).

  Definition tri_point (s t : R) : vR := a +v (b -v a) *v s +v (c -v a) *v t.
  Definition bary_point (u : vR) : vR := a *v (vx u) +v b *v (vy u) +v c *v (vz u).

  Lemma dist_tri_point s t : sqn (p -v tri_point s t) = F g11 g12 g22 d1 d2 pp s t.
  Proof. unfold tri_point, F, g11, g12, g22, d1, d2, pp, ab, ac, ap. vring. Qed.

  Lemma bary_is_tri_point u : vx u = 1 - vy u - vz u -> bary_point u = tri_point (vy u) (vz u).
  Proof. intros H. unfold bary_point, tri_point. rewrite H. vring. Qed.

  (* the result of each branch, as (s,t) plane coordinates *)
  Inductive kbranch : kres R -> Prop :=
  | KA : d1 <= 0 -> d2 <= 0 -> kbranch (mkk (F g11 g12 g22 d1 d2 pp 0 0) (mkv 1 0 0) 1)
  | KB : 0 <= d3 -> d4 <= d3 -> kbranch (mkk (F g11 g12 g22 d1 d2 pp 1 0) (mkv 0 1 0) 2)
  | KAB : vc <= 0 -> 0 <= d1 -> d3 <= 0 ->
      kbranch (mkk (F g11 g12 g22 d1 d2 pp (d1 / (d1 - d3)) 0) (mkv (1 - d1 / (d1 - d3)) (d1 / (d1 - d3)) 0) 3)
  | KC : 0 <= d6 -> d5 <= d6 -> kbranch (mkk (F g11 g12 g22 d1 d2 pp 0 1) (mkv 0 0 1) 4)
  | KAC : vb <= 0 -> 0 <= d2 -> d6 <= 0 ->
      kbranch (mkk (F g11 g12 g22 d1 d2 pp 0 (d2 / (d2 - d6))) (mkv (1 - d2 / (d2 - d6)) 0 (d2 / (d2 - d6))) 5)
  | KBC : va <= 0 -> 0 <= d4 - d3 -> 0 <= d5 - d6 ->
      let z := (d4 - d3) / ((d4 - d3) + (d5 - d6)) in
      kbranch (mkk (F g11 g12 g22 d1 d2 pp (1 - z) z) (mkv 0 (1 - z) z) 6)
  | KIN :
      ~ (d1 <= 0 /\ d2 <= 0) -> ~ (0 <= d3 /\ d4 <= d3) -> ~ (vc <= 0 /\ 0 <= d1 /\ d3 <= 0) ->
      ~ (0 <= d6 /\ d5 <= d6) -> ~ (vb <= 0 /\ 0 <= d2 /\ d6 <= 0) ->
      ~ (va <= 0 /\ 0 <= d4 - d3 /\ 0 <= d5 - d6) ->
      let v := vb * (1 / (va + vb + vc)) in let w := vc * (1 / (va + vb + vc)) in
      kbranch (mkk (F g11 g12 g22 d1 d2 pp v w) (mkv (1 - v - w) v w) 7).

  Lemma E3 : ab ·  (p -v b) = d3.  Proof. unfold d3, d1, g11, ab, ap. vring. Qed.
  Lemma E4 : ac ·  (p -v b) = d4.  Proof. unfold d4, d2, g12, ab, ac, ap. vring. Qed.
  Lemma E5 : ab ·  (p -v c) = d5.  Proof. unfold d5, d1, g12, ab, ac, ap. vring. Qed.
  Lemma E6 : ac ·  (p -v c) = d6.  Proof. unfold d6, d2, g22, ac, ap. vring. Qed.
  Lemma Evc : d1 * d4 - d3 * d2 = vc.  Proof. unfold vc, d3, d4. ring. Qed.
  Lemma Evb : d5 * d2 - d1 * d6 = vb.  Proof. unfold vb, d5, d6. ring. Qed.
  Lemma Eva : d3 * d6 - d5 * d4 = va.  Proof. unfold va, vb, vc, d3, d4, d5, d6. ring. Qed.

  Lemma L_a : sqn ap = F g11 g12 g22 d1 d2 pp 0 0.
  Proof. unfold F, pp. ring. Qed.
  Lemma L_b : sqn (p -v b) = F g11 g12 g22 d1 d2 pp 1 0.
  Proof. unfold F, pp, d1, d2, g11, g12, g22, ab, ac, ap. vring. Qed.
  Lemma L_c : sqn (p -v c) = F g11 g12 g22 d1 d2 pp 0 1.
  Proof. unfold F, pp, d1, d2, g11, g12, g22, ab, ac, ap. vring. Qed.
  Lemma L_ab x : sqn (a +v ab *v x -v p) = F g11 g12 g22 d1 d2 pp x 0.
  Proof. unfold F, pp, d1, d2, g11, g12, g22, ab, ac, ap. vring. Qed.
  Lemma L_ac x : sqn (p -v (a +v ac *v x)) = F g11 g12 g22 d1 d2 pp 0 x.
  Proof. unfold F, pp, d1, d2, g11, g12, g22, ab, ac, ap. vring. Qed.
  Lemma L_bc z : sqn (b +v (c -v b) *v z -v p) = F g11 g12 g22 d1 d2 pp (1 - z) z.
  Proof. unfold F, pp, d1, d2, g11, g12, g22, ab, ac, ap. vring. Qed.
  Lemma L_in v w : sqn (p -v (a +v ab *v v +v ac *v w)) = F g11 g12 g22 d1 d2 pp v w.
  Proof. unfold F, pp, d1, d2, g11, g12, g22, ab, ac, ap. vring. Qed.

  Lemma kernel_branch : kbranch (kernel NumR p a b c).
  Proof.
    unfold kernel. cbv zeta.
    change (nleb NumR) with Rleb. change (nzero NumR) with 0. change (none_ NumR) with 1.
    change (nsub NumR) with Rminus. change (nadd NumR) with Rplus. change (nmul NumR) with Rmult.
    change (ndiv NumR) with Rdiv.
    fold ab ac ap. fold d1 d2.
    rewrite E3, E4, E5, E6. rewrite Evc, Evb, Eva.
    rewrite L_a, L_b, L_c, L_ab, L_ac, L_bc, L_in.
    destruct (Rleb_spec d1 0) as [A1|A1]; [destruct (Rleb_spec d2 0) as [A2|A2]|]; cbn [andb];
      try (apply KA; assumption).
    all: destruct (Rleb_spec 0 d3) as [B1|B1]; [destruct (Rleb_spec d4 d3) as [B2|B2]|]; cbn [andb];
      try (apply KB; assumption).
    all: destruct (Rleb_spec vc 0) as [C1|C1];
      [destruct (Rleb_spec 0 d1) as [C2|C2]; [destruct (Rleb_spec d3 0) as [C3|C3]|]|]; cbn [andb];
      try (apply KAB; assumption).
    all: destruct (Rleb_spec 0 d6) as [D1|D1]; [destruct (Rleb_spec d5 d6) as [D2|D2]|]; cbn [andb];
      try (apply KC; assumption).
    all: destruct (Rleb_spec vb 0) as [F1|F1];
      [destruct (Rleb_spec 0 d2) as [F2|F2]; [destruct (Rleb_spec d6 0) as [F3|F3]|]|]; cbn [andb];
      try (apply KAC; assumption).
    all: destruct (Rleb_spec va 0) as [G1|G1];
      [destruct (Rleb_spec 0 (d4 - d3)) as [G2|G2]; [destruct (Rleb_spec 0 (d5 - d6)) as [G3|G3]|]|]; cbn [andb];
      try (apply KBC; assumption).
    all: apply KIN; lra.
  Qed.

  Lemma kernel_gram : kernel NumR p a b c = gkernel g11 g12 g22 d1 d2 pp.
  Proof.
    unfold kernel, gkernel. cbv zeta.
    change (nleb NumR) with Rleb. change (nzero NumR) with 0. change (none_ NumR) with 1.
    change (nsub NumR) with Rminus. change (nadd NumR) with Rplus. change (nmul NumR) with Rmult.
    change (ndiv NumR) with Rdiv.
    fold ab ac ap. fold d1 d2.
    rewrite E3, E4, E5, E6. rewrite Evc, Evb, Eva.
    rewrite L_a, L_b, L_c, L_ab, L_ac, L_bc, L_in.
    reflexivity.
  Qed.

  Hypothesis ND : nondegenerate.

  Lemma DD_pos : 0 < DD.
  Proof. unfold DD, g11, g12, g22, ab, ac. exact ND. Qed.
  Lemma g11_pos : 0 < g11.
  Proof. pose proof DD_pos as H. unfold DD in H. pose proof (sqn_nonneg ab) as H1. fold g11 in H1.
    pose proof (sqn_nonneg ac) as H2. fold g22 in H2.
    destruct (Req_dec g11 0) as [E|E]; [|lra]. rewrite E in H.
    pose proof (Rle_0_sqr g12) as S. unfold Rsqr in S. lra. Qed.
  Lemma g22p : 0 < g22.
  Proof. apply (g22_pos g11 g12 g22 DD_pos g11_pos). Qed.
  Lemma Lbc_pos : 0 < g11 - 2 * g12 + g22.
  Proof. pose proof DD_pos as H. unfold DD in H. pose proof g11_pos. pose proof g22p.
    pose proof (Rle_0_sqr (g11 - g12)) as S. unfold Rsqr in S.
    assert (0 < g11 * (g11 - 2 * g12 + g22)) by nra.
    apply Rmult_lt_reg_l with g11; [assumption|]. lra. Qed.

  (* what every branch guarantees: the variational inequality at the three vertices *)
  Definition KKT (s0 t0 : R) : Prop :=
    0 <= - (s0 * g11 + t0 * g12 - d1) * s0 - (s0 * g12 + t0 * g22 - d2) * t0 /\
    0 <= (s0 * g11 + t0 * g12 - d1) * (1 - s0) - (s0 * g12 + t0 * g22 - d2) * t0 /\
    0 <= - (s0 * g11 + t0 * g12 - d1) * s0 + (s0 * g12 + t0 * g22 - d2) * (1 - t0).

  Definition in_simplex (s0 t0 : R) : Prop := 0 <= s0 /\ 0 <= t0 /\ s0 + t0 <= 1.

  Lemma kbranch_props K : kbranch K ->
    vx (k_bary K) = 1 - vy (k_bary K) - vz (k_bary K) /\
    k_dist K = F g11 g12 g22 d1 d2 pp (vy (k_bary K)) (vz (k_bary K)) /\
    KKT (vy (k_bary K)) (vz (k_bary K)) /\
    (k_region K <> 7%nat \/ (0 <= va /\ 0 <= vb /\ 0 <= vc) -> in_simplex (vy (k_bary K)) (vz (k_bary K))).
  Proof.
    pose proof DD_pos as HD. pose proof g11_pos as H11. pose proof g22p as H22. pose proof Lbc_pos as HL.
    unfold DD in HD.
    intros HK. destruct HK as [A1 A2|B1 B2|C1 C2 C3|D1 D2|F1 F2 F3|G1 G2 G3 z|N1 N2 N3 N4 N5 N6 v w];
      cbn [k_bary k_dist k_region vx vy vz]; unfold KKT, in_simplex.
    - repeat split; try lra; try nra.
    - unfold d3, d4 in *. repeat split; try lra; try nra.
    - assert (Ev : d1 / (d1 - d3) * g11 = d1) by (unfold d3; field; lra).
      assert (Eg : d1 - d3 = g11) by (unfold d3; ring).
      set (v := d1 / (d1 - d3)) in *.
      assert (Hv0 : 0 <= v) by (unfold v; rewrite Eg; apply Rmult_le_pos; [lra| left; apply Rinv_0_lt_compat; lra]).
      assert (Hv1 : v <= 1).
      { apply Rmult_le_reg_r with g11; [lra|]. rewrite Ev. unfold d3 in C3. lra. }
      assert (Hgt : 0 <= (v * g12 - d2) * g11).
      { replace ((v * g12 - d2) * g11) with ((v * g11) * g12 - d2 * g11) by ring. rewrite Ev. unfold vc in C1. lra. }
      assert (Hgt' : 0 <= v * g12 - d2).
      { apply Rmult_le_reg_r with g11; [lra|]. lra. }
      repeat split; try lra.
      + replace (v * g11 + 0 * g12 - d1) with 0 by lra. lra.
      + replace (v * g11 + 0 * g12 - d1) with 0 by lra. lra.
      + replace (v * g11 + 0 * g12 - d1) with 0 by lra. lra.
    - unfold d5, d6 in *. repeat split; try lra; try nra.
    - assert (Ew : d2 / (d2 - d6) * g22 = d2) by (unfold d6; field; lra).
      assert (Eg : d2 - d6 = g22) by (unfold d6; ring).
      set (w := d2 / (d2 - d6)) in *.
      assert (Hw0 : 0 <= w) by (unfold w; rewrite Eg; apply Rmult_le_pos; [lra| left; apply Rinv_0_lt_compat; lra]).
      assert (Hw1 : w <= 1).
      { apply Rmult_le_reg_r with g22; [lra|]. rewrite Ew. unfold d6 in F3. lra. }
      assert (Hgs : 0 <= (w * g12 - d1) * g22).
      { replace ((w * g12 - d1) * g22) with ((w * g22) * g12 - d1 * g22) by ring. rewrite Ew. unfold vb in F1. lra. }
      assert (Hgs' : 0 <= w * g12 - d1).
      { apply Rmult_le_reg_r with g22; [lra|]. lra. }
      repeat split; try lra.
      + replace (0 * g12 + w * g22 - d2) with 0 by lra. lra.
      + replace (0 * g12 + w * g22 - d2) with 0 by lra. lra.
      + replace (0 * g12 + w * g22 - d2) with 0 by lra. lra.
    - assert (EL : d4 - d3 + (d5 - d6) = g11 - 2 * g12 + g22) by (unfold d3, d4, d5, d6; ring).
      assert (Ez : z * (g11 - 2 * g12 + g22) = d4 - d3) by (unfold z; rewrite EL; field; lra).
      assert (Hz0 : 0 <= z).
      { unfold z. rewrite EL. apply Rmult_le_pos; [lra| left; apply Rinv_0_lt_compat; lra]. }
      assert (Hz1 : z <= 1).
      { apply Rmult_le_reg_r with (g11 - 2 * g12 + g22); [lra|]. rewrite Ez. lra. }
      clearbody z.
      (* common multiplier G = Gs = Gt, and -G*L = -va *)
      assert (EG : (1 - z) * g11 + z * g12 - d1 = (1 - z) * g12 + z * g22 - d2).
      { unfold d3, d4 in Ez. lra. }
      assert (HG : ((1 - z) * g11 + z * g12 - d1) * (g11 - 2 * g12 + g22) = va).
      { replace (((1 - z) * g11 + z * g12 - d1) * (g11 - 2 * g12 + g22))
          with ((g11 - d1) * (g11 - 2 * g12 + g22) - (z * (g11 - 2 * g12 + g22)) * (g11 - g12)) by ring.
        rewrite Ez. unfold va, vb, vc, d3, d4. ring. }
      assert (HG' : (1 - z) * g11 + z * g12 - d1 <= 0).
      { apply Rmult_le_reg_r with (g11 - 2 * g12 + g22); [lra|]. rewrite HG. lra. }
      rewrite <- EG. set (G := (1 - z) * g11 + z * g12 - d1) in *.
      repeat split; try lra; try nra.
    - assert (ES : va + vb + vc = g11 * g22 - g12 * g12) by (unfold va; ring).
      assert (Ev : v * (g11 * g22 - g12 * g12) = vb) by (unfold v; rewrite ES; field; lra).
      assert (Ew : w * (g11 * g22 - g12 * g12) = vc) by (unfold w; rewrite ES; field; lra).
      clearbody v w.
      assert (Gs : v * g11 + w * g12 - d1 = 0).
      { apply Rmult_eq_reg_r with (g11 * g22 - g12 * g12); [|lra].
        replace ((v * g11 + w * g12 - d1) * (g11 * g22 - g12 * g12))
          with ((v * (g11 * g22 - g12 * g12)) * g11 + (w * (g11 * g22 - g12 * g12)) * g12 - d1 * (g11 * g22 - g12 * g12)) by ring.
        rewrite Ev, Ew. unfold vb, vc. ring. }
      assert (Gt : v * g12 + w * g22 - d2 = 0).
      { apply Rmult_eq_reg_r with (g11 * g22 - g12 * g12); [|lra].
        replace ((v * g12 + w * g22 - d2) * (g11 * g22 - g12 * g12))
          with ((v * (g11 * g22 - g12 * g12)) * g12 + (w * (g11 * g22 - g12 * g12)) * g22 - d2 * (g11 * g22 - g12 * g12)) by ring.
        rewrite Ev, Ew. unfold vb, vc. ring. }
      rewrite Gs, Gt. repeat split; try lra.
      + destruct H as [HH|[Ha [Hb Hc]]]; [exfalso; apply HH; reflexivity|].
        apply Rmult_le_reg_r with (g11 * g22 - g12 * g12); [lra|]. rewrite Ev. lra.
      + destruct H as [HH|[Ha [Hb Hc]]]; [exfalso; apply HH; reflexivity|].
        apply Rmult_le_reg_r with (g11 * g22 - g12 * g12); [lra|]. rewrite Ew. lra.
      + destruct H as [HH|[Ha [Hb Hc]]]; [exfalso; apply HH; reflexivity|].
        apply Rmult_le_reg_r with (g11 * g22 - g12 * g12); [lra|].
        replace ((v + w) * (g11 * g22 - g12 * g12)) with (v * (g11 * g22 - g12 * g12) + w * (g11 * g22 - g12 * g12)) by ring.
        rewrite Ev, Ew. unfold va in Ha. lra.
  Qed.


  (* exhaustiveness of the six vertex/edge tests: falling through all of them means the
     projection of p lies strictly inside the triangle *)
  Lemma interior_signs :
      ~ (d1 <= 0 /\ d2 <= 0) -> ~ (0 <= d3 /\ d4 <= d3) -> ~ (vc <= 0 /\ 0 <= d1 /\ d3 <= 0) ->
      ~ (0 <= d6 /\ d5 <= d6) -> ~ (vb <= 0 /\ 0 <= d2 /\ d6 <= 0) ->
      ~ (va <= 0 /\ 0 <= d4 - d3 /\ 0 <= d5 - d6) ->
      0 < va /\ 0 < vb /\ 0 < vc.
  Proof.
    intros N1 N2 N3 N4 N5 N6.
    pose proof DD_pos as HD. pose proof g11_pos as H11. pose proof g22p as H22. pose proof Lbc_pos as HL.
    unfold DD in HD.
    assert (Hvc : 0 < vc).
    { destruct (Rlt_dec 0 vc) as [|Hn]; [assumption|exfalso].
      assert (Htz : g11 * d2 - g12 * d1 <= 0) by (unfold vc in Hn; lra).
      destruct (vor_full g11 g22 g12 d1 d2 HD H11 H22 Htz) as [R|[R|[R|[R|[R|R]]]]].
      - apply N1; lra.
      - apply N2; unfold d3, d4; lra.
      - apply N3; unfold d3, vc; lra.
      - apply N4; unfold d5, d6; lra.
      - apply N5; unfold vb, d6; lra.
      - apply N6; unfold va, vb, vc, d3, d4, d5, d6; lra. }
    assert (Hvb : 0 < vb).
    { destruct (Rlt_dec 0 vb) as [|Hn]; [assumption|exfalso].
      assert (Htz : g22 * d1 - g12 * d2 <= 0) by (unfold vb in Hn; lra).
      assert (HD2 : 0 < g22 * g11 - g12 * g12) by lra.
      destruct (vor_full g22 g11 g12 d2 d1 HD2 H22 H11 Htz) as [R|[R|[R|[R|[R|R]]]]].
      - apply N1; lra.
      - apply N4; unfold d5, d6; lra.
      - apply N5; unfold d6, vb; lra.
      - apply N2; unfold d3, d4; lra.
      - apply N3; unfold vc, d3; lra.
      - apply N6; unfold va, vb, vc, d3, d4, d5, d6; lra. }
    split; [|split; assumption].
    destruct (Rlt_dec 0 va) as [|Hn]; [assumption|exfalso].
    assert (Eva' : (g11 - 2 * g12 + g22) * (- d3) - (g11 - g12) * (d4 - d3) = va)
      by (unfold va, vb, vc, d3, d4; ring).
    assert (Htz : (g11 - 2 * g12 + g22) * (- d3) - (g11 - g12) * (d4 - d3) <= 0) by lra.
    assert (HD3 : 0 < (g11 - 2 * g12 + g22) * g11 - (g11 - g12) * (g11 - g12)) by nra.
    destruct (vor_full (g11 - 2 * g12 + g22) g11 (g11 - g12) (d4 - d3) (- d3) HD3 HL H11 Htz) as [R|[R|[R|[R|[R|R]]]]].
    - apply N2; lra.
    - apply N4; unfold d3, d4, d5, d6 in *; lra.
    - apply N6; unfold d3, d4, d5, d6 in *; lra.
    - apply N1; unfold d3, d4 in *; lra.
    - apply N3. destruct R as [R1 [R2 R3]].
      replace (g11 * (d4 - d3) - (g11 - g12) * - d3) with vc in R1 by (unfold vc, d3, d4; ring).
      unfold d3 in *; lra.
    - apply N5. destruct R as [R1 [R2 R3]].
      replace ((g11 - 2 * g12 + g22) * g11 - (g11 - g12) * (g11 - g12) - (g11 * (d4 - d3) - (g11 - g12) * - d3) -
               ((g11 - 2 * g12 + g22) * - d3 - (g11 - g12) * (d4 - d3))) with vb in R1
        by (unfold vb, d3, d4; ring).
      unfold d3, d4, d6 in *; lra.
  Qed.

  Let K := kernel NumR p a b c.

  Lemma K_props :
    vx (k_bary K) = 1 - vy (k_bary K) - vz (k_bary K) /\
    k_dist K = F g11 g12 g22 d1 d2 pp (vy (k_bary K)) (vz (k_bary K)) /\
    KKT (vy (k_bary K)) (vz (k_bary K)) /\
    in_simplex (vy (k_bary K)) (vz (k_bary K)).
  Proof.
    pose proof (kernel_branch) as HB. fold K in HB.
    destruct (kbranch_props K HB) as [P1 [P2 [P3 P4]]].
    repeat split; try assumption; try apply P3; apply P4.
    all: inversion HB as [| | | | | |N1 N2 N3 N4 N5 N6 v w EK]; try (left; cbn; discriminate).
    all: right; destruct (interior_signs N1 N2 N3 N4 N5 N6) as [Ha [Hb Hc]]; lra.
  Qed.

  Lemma bary_sum_one_ : vx (k_bary K) + vy (k_bary K) + vz (k_bary K) = 1.
  Proof. destruct K_props as [P1 _]. lra. Qed.

  Lemma bary_nonneg_ : 0 <= vx (k_bary K) /\ 0 <= vy (k_bary K) /\ 0 <= vz (k_bary K).
  Proof. destruct K_props as [P1 [_ [_ [S1 [S2 S3]]]]]. lra. Qed.

  Lemma dist_bary_ : k_dist K = sqn (p -v bary_point (k_bary K)).
  Proof. destruct K_props as [P1 [P2 _]]. rewrite (bary_is_tri_point _ P1), dist_tri_point. exact P2. Qed.

  Lemma closest_ s t : 0 <= s -> 0 <= t -> s + t <= 1 -> k_dist K <= sqn (p -v tri_point s t).
  Proof.
    intros Hs Ht Hst. destruct K_props as [_ [P2 [[K0 [K1 K2]] _]]].
    rewrite dist_tri_point, P2. apply (kkt_opt g11 g12 g22 d1 d2 pp DD_pos g11_pos); assumption.
  Qed.
End KernelR.

(* ------------------------------------------------------------------ equivariance *)
From SC Require Import Rot.

Lemma kernel_gram' p a b c :
  kernel NumR p a b c =
  gkernel (sqn (b -v a)) ((b -v a) ·  (c -v a)) (sqn (c -v a)) ((b -v a) ·  (p -v a)) ((c -v a) ·  (p -v a)) (sqn (p -v a)).
Proof. exact (kernel_gram p a b c). Qed.

Lemma kernel_rigid M t p a b c : orthogonal M ->
  kernel NumR (rigid M t p) (rigid M t a) (rigid M t b) (rigid M t c) = kernel NumR p a b c.
Proof.
  intros HO. rewrite !kernel_gram'. rewrite !sqn_dot. rewrite !(dot_rigid M t) by assumption. reflexivity.
Qed.
