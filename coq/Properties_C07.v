(* Properties_C07.v — property C07: contact forces are reciprocal, short-ranged and push overlapping cells apart.
   Only statements; every proof is `exact <lemma of ContactProofsA.v>`.  Model: Contact.v (default contact model). *)
From Coq Require Import Reals Lra ZArith Bool List.
From Flocq Require Import Core.Raux.
From SC Require Import Num Vec3 VecR Kernel KernelProofs Grid Contact ContactProofsA.
From SC Require ContactTie ContactTieR.
Import ListNotations.
Local Open Scope R_scope.

Section C07.
  Variables (eps dmax inf c45 c90 lmin cut_adh cut_rep : R).
  Notation interactionR := (interaction NumR cut_adh cut_rep).
  Notation cut2_maxR := (cut2_max NumR cut_adh cut_rep).
  Notation resolveR := (resolve_contact NumR dmax c45 cut_adh cut_rep).
  Notation try_faceR := (try_face NumR dmax c45 c90 cut_adh cut_rep).
  Notation phaseR := (contact_phase NumR Zfloor Zceil eps dmax inf c45 c90 lmin cut_adh cut_rep).

  (* the closest point of approach the interaction uses *)
  Definition cpa (p a b c : vR) : vR := bary_point a b c (k_bary (kernel NumR p a b c)).

  (* reciprocity: the force on the node is minus the sum of the forces on the three nodes of the triangle *)
  Theorem interaction_net_force_zero : forall p a b c fnormal area rep t1 t2 fn fa fb fc, nondegenerate a b c ->
    interactionR p a b c fnormal area rep t1 t2 = Some (fn, fa, fb, fc) ->
    fn +v fa +v fb +v fc = mkv 0 0 0.
  Proof. exact (interaction_net_zero cut_adh cut_rep). Qed.

  (* short range: no force when the squared distance reaches the largest cut-off *)
  Theorem no_force_beyond_cutoff : forall p a b c fnormal area rep t1 t2,
    cut2_maxR <= k_dist (kernel NumR p a b c) -> interactionR p a b c fnormal area rep t1 t2 = None.
  Proof. exact (interaction_beyond_cutoff cut_adh cut_rep). Qed.

  (* a force exists exactly when the node is within range on the forbidden side of the triangle: behind it (inside
     the cell that owns it) for ordinary pairs; in front of it for an epithelial node against a matrix (type 1) face
     and for a nucleus (type 3) node against an epithelial face *)
  Definition forbidden_side (p a b c fnormal : vR) (t1 t2 : nat) : Prop :=
    let behind := (p -v cpa p a b c) ·  fnormal < 0 in
    if (Nat.eqb t1 0 && Nat.eqb t2 1) || (Nat.eqb t1 3 && Nat.eqb t2 0) then ~ behind else behind.
  Theorem force_iff_forbidden_side_within_range : forall p a b c fnormal area rep t1 t2, nondegenerate a b c ->
    (interactionR p a b c fnormal area rep t1 t2 <> None <->
     k_dist (kernel NumR p a b c) < cut2_maxR /\ forbidden_side p a b c fnormal t1 t2).
  Proof. exact (interaction_iff cut_adh cut_rep). Qed.

  (* direction: the node is pushed toward the closest point of the surface, the surface toward the node *)
  Theorem repulsion_direction : forall p a b c fnormal area rep t1 t2 fn fa fb fc, nondegenerate a b c ->
    0 <= area -> 0 <= rep ->
    interactionR p a b c fnormal area rep t1 t2 = Some (fn, fa, fb, fc) ->
    0 <= fn ·  (cpa p a b c -v p) /\
    0 <= fa ·  (p -v cpa p a b c) /\ 0 <= fb ·  (p -v cpa p a b c) /\ 0 <= fc ·  (p -v cpa p a b c).
  Proof. exact (interaction_direction cut_adh cut_rep). Qed.

  (* nothing happens between elements of the same cell (same persistent id) *)
  Theorem no_self_interaction : forall boxes gfs c1i n1i st fid c1 gf c2,
    nth_error st c1i = Some c1 -> nth_error gfs fid = Some gf -> nth_error st (fst gf) = Some c2 ->
    cc_id c1 = cc_id c2 ->
    try_faceR boxes gfs c1i n1i (Some st) fid = Some st \/ try_faceR boxes gfs c1i n1i (Some st) fid = None.
  Proof. exact (try_face_same_cell dmax c45 c90 cut_adh cut_rep). Qed.

  (* a coupling is only created between two nodes closer than the adhesion cut-off *)
  Theorem coupling_within_adhesion_cutoff : forall (n1 a b c : cnode (T:=R)) ia ib ic maxcurv i d,
    cut2_adh NumR cut_adh <= dmax ->
    cpl_choice NumR dmax c45 n1 a b c ia ib ic maxcurv = (i, d) -> d < cut2_adh NumR cut_adh ->
    exists fnode, In (i, fnode) [(ia, a); (ib, b); (ic, c)] /\ d = sqn (cn_pos n1 -v cn_pos fnode).
  Proof. exact (coupling_cutoff dmax c45 cut_adh). Qed.

  (* contact adds no net force to the tissue: one resolved contact, and the whole phase *)
  Definition total_force (st : state (T:=R)) : vR :=
    fold_right (fun c acc => fold_right (fun n a => cn_force n +v a) acc (cc_nodes c)) (mkv 0 0 0) st.

  Theorem resolved_contact_adds_no_net_force : forall st c1i n1i gf st',
    (forall ci f, In (ci, f) [gf] -> forall c, nth_error st ci = Some c ->
       forall a b cc, nth_error (cc_nodes c) (cf_n1 f) = Some a -> nth_error (cc_nodes c) (cf_n2 f) = Some b ->
       nth_error (cc_nodes c) (cf_n3 f) = Some cc -> nondegenerate (cn_pos a) (cn_pos b) (cn_pos cc)) ->
    resolveR st c1i n1i gf = Some st' -> total_force st' = total_force st.
  Proof. exact (resolve_total_force dmax c45 cut_adh cut_rep). Qed.

  (* ... and the whole contact phase: the sum of the forces of all nodes is unchanged *)
  Definition faces_nondegenerate (st : state (T:=R)) : Prop :=
    forall c f a b cc, In c st -> In f (cc_faces c) ->
      nth_error (cc_nodes c) (cf_n1 f) = Some a -> nth_error (cc_nodes c) (cf_n2 f) = Some b -> nth_error (cc_nodes c) (cf_n3 f) = Some cc ->
      nondegenerate (cn_pos a) (cn_pos b) (cn_pos cc).
  Theorem contact_phase_adds_no_net_force : forall st r s,
    faces_nondegenerate st -> phaseR st = Some (r, s) -> total_force r = total_force st.
  Proof. exact (phase_total_force eps dmax inf c45 c90 lmin cut_adh cut_rep). Qed.
End C07.
Print Assumptions contact_phase_adds_no_net_force.
Print Assumptions interaction_net_force_zero.
Print Assumptions no_force_beyond_cutoff.
Print Assumptions force_iff_forbidden_side_within_range.
Print Assumptions repulsion_direction.
Print Assumptions no_self_interaction.
Print Assumptions coupling_within_adhesion_cutoff.
Print Assumptions resolved_contact_adds_no_net_force.

(* non-vacuity: a node 0.05 behind a unit triangle, cut-offs 0.1: repelled with opposite forces *)
Example a_concrete_interaction :
  exists fn fa fb fc,
  interaction NumR (1/10) (1/10) (mkv (1/4) (1/4) (-1/20)) (mkv 0 0 0) (mkv 1 0 0) (mkv 0 1 0) (mkv 0 0 1) (1/2) 2 0 0 = Some (fn, fa, fb, fc).
Proof. exact concrete_interaction. Qed.

(* THE TIE TO THE SOURCE of the narrow phase (ContactTie.v): Narrow_gen.v is regenerated from resolve_contact of
   src/contact_models/contact_node_node_via_coupling.cpp and from the constructor of contact_model_abstract.cpp on every run; the
   coupling decision (three squared distances with their overrides, the choice of the closest face node, the test against the
   adhesion cut-off), the repulsion (kernel call, cut-off test, closest point, direction with its two reversals, force and its
   barycentric distribution) and the squared cut-offs are the model's, by reflexivity, for every number type; and
   Contact.resolve_contact is exactly "that decision, else that repulsion". *)
Theorem narrow_phase_model_is_what_the_source_says : ContactTie.narrow_phase_tie.
Proof. exact ContactTie.narrow_phase_model_is_what_the_source_says. Qed.
Print Assumptions narrow_phase_model_is_what_the_source_says.

(* WHAT THE REGENERATED CODE DOES: the two statements that carry the property, about the translated repulsion block of resolve_contact
   itself (Narrow_gen.interaction_gen over R; transferred through the equality above): the four forces it distributes sum to zero,
   and it applies none when the squared distance reaches the largest squared cut-off. *)
Theorem regenerated_repulsion_adds_no_net_force :
  forall (cut_adh cut_rep : R) (p a b c fnormal : vR) (area rep : R) (t1 t2 : nat) (fn fa fb fc : vR), nondegenerate a b c ->
    Narrow_gen.interaction_gen NumR (cut2_max NumR cut_adh cut_rep) p a b c fnormal area rep t1 t2 = Some (fn, fa, fb, fc) ->
    fn +v fa +v fb +v fc = mkv 0 0 0.
Proof. exact ContactTieR.generated_repulsion_net_zero. Qed.
Print Assumptions regenerated_repulsion_adds_no_net_force.

Theorem regenerated_repulsion_is_short_ranged :
  forall (cut_adh cut_rep : R) (p a b c fnormal : vR) (area rep : R) (t1 t2 : nat),
    cut2_max NumR cut_adh cut_rep <= k_dist (kernel NumR p a b c) ->
    Narrow_gen.interaction_gen NumR (cut2_max NumR cut_adh cut_rep) p a b c fnormal area rep t1 t2 = None.
Proof. exact ContactTieR.generated_repulsion_short_ranged. Qed.
Print Assumptions regenerated_repulsion_is_short_ranged.
