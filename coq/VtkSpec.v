(* VtkSpec.v — vocabulary of the C16 / C17 statements about Vtk.v *)
From Coq Require Import NArith Arith Bool List Lia.
From SC Require Import Vtk.
Import ListNotations.
Local Open Scope N_scope.

Arguments Ok {A} a.
Arguments Err {A} e.

Section Spec.
  Context {F V : Type}.
  Variable sem : F -> option V.

  Definition face_ids (f : N * N * N) : list N := let '(a, b, c) := f in [a; b; c].

  (* a compacted valid cell: three numerals per node, at least one face, every face id designates a node slot,
     every node slot is used by some face *)
  Definition good_cell (c : wcell (F:=F)) : Prop :=
    (exists n, length (w_coords c) = (3 * n)%nat) /\
    w_faces c <> [] /\
    (forall f i, In f (w_faces c) -> In i (face_ids f) -> i < nnodes c) /\
    (forall i, i < nnodes c -> exists f, In f (w_faces c) /\ In i (face_ids f)).

  (* what reading back is expected to give for one cell *)
  Definition expect_mesh (v : F -> V) (c : wcell (F:=F)) : rmesh (V:=V) :=
    mkrm (map v (w_coords c)) (map face_ids (w_faces c)).

  (* index safety of a mesh handed on by the reader *)
  Definition mesh_index_safe (m : rmesh (V:=V)) : Prop :=
    forall f i, In f (r_faces m) -> In i f -> (N.to_nat i * 3 + 3 <= length (r_coords m))%nat.
End Spec.
