(* RefineLoop.v — the control of local_mesh_refiner::refine_mesh (the while loop over the work set of edges), on the
   abstract mesh state of MeshOps.v.

     while(edge_to_check_set.size() > 0 && iteration < c->get_edge_set().size()){
        e_ab = pop first element;
        if      (|ab|^2 > l_max^2)                       { split_edge(e_ab); iteration++; }
        else if (|ab|^2 < l_min^2 && can_be_merged(e_ab)){ merge_edge(e_ab); iteration++; }
     }
     if(iteration == c->get_edge_set().size()) throw mesh_integrity_exception(...);

   Inputs of the model that the code computes elsewhere: the ORDER in which the work set yields its edges (a std::set
   ordered by an edge hash) and the node slot the cell store hands out for a new node — together the "pop script";
   and the number of edges left in the work set when the loop is left.  Everything else (which edge is operated on,
   with which operation, the counter, the guard, the exception) is computed.  The edge set of a closed surface has
   3F/2 elements. *)
From Coq Require Import NArith ZArith Bool List Lia.
From SC Require Import Num Vec3 Mesh MeshOps.
Import ListNotations.

Section Loop.
  Context {T : Type} (Nm : Num T).
  Notation mstate := (@mstate T).

  Inductive decision := DSplit | DMerge | DNone | DStuck.

  Definition nb_edges (st : mstate) : nat := Nat.div (3 * length (ms_faces st)) 2.

  (* can_be_merged: more than 4 nodes, and the two end points have exactly two common neighbours *)
  Definition can_merge (st : mstate) (a b : N) : bool :=
    Nat.ltb 4 (length (ms_nodes st)) && link_ok (ms_faces st) a b.

  Definition decide (lmin2 lmax2 : T) (st : mstate) (a b : N) : decision :=
    if negb (edge_exists (ms_faces st) a b) then DStuck else
    match sq_len Nm st a b with
    | None => DStuck
    | Some l =>
        if nltb Nm lmax2 l then DSplit
        else if nltb Nm l lmin2 then (if can_merge st a b then DMerge else DNone)
        else DNone
    end.

  (* one popped edge, with the slot of the node the operation creates (if it operates) *)
  Record pop := mkpop { p_a : N; p_b : N; p_new : N }.

  Inductive outcome :=
  | Returned (st : mstate) (iter : nat) (ops : list (@op)) (leftover : nat)   (* the loop was left, no exception *)
  | Threw (st : mstate) (iter : nat) (ops : list (@op))                       (* iteration == edge_set.size() *)
  | Diverged.                                                                 (* the script is not a run of the loop *)

  (* after the loop *)
  Definition after_loop (st : mstate) (iter : nat) (ops : list (@op)) (leftover : nat) : outcome :=
    if Nat.eqb iter (nb_edges st) then Threw st iter ops else Returned st iter ops leftover.

  (* ops are accumulated in reverse *)
  Fixpoint loop (dynamic : bool) (lmin2 lmax2 : T) (st : mstate) (iter : nat) (acc : list (@op)) (script : list pop) (leftover : nat)
    : outcome :=
    match script with
    | [] =>
        (* the loop is left because the work set is empty (leftover = 0) or because the guard failed *)
        if (Nat.eqb leftover 0) || negb (Nat.ltb iter (nb_edges st)) then after_loop st iter (rev acc) leftover else Diverged
    | p :: r =>
        if Nat.ltb iter (nb_edges st) then
          match decide lmin2 lmax2 st (p_a p) (p_b p) with
          | DSplit =>
              let o := OpSplit (p_a p) (p_b p) (p_new p) in
              match apply_op Nm dynamic st o with
              | Some st' => loop dynamic lmin2 lmax2 st' (S iter) (o :: acc) r leftover
              | None => Diverged
              end
          | DMerge =>
              let o := OpMerge (p_a p) (p_b p) (p_new p) in
              match apply_op Nm dynamic st o with
              | Some st' => loop dynamic lmin2 lmax2 st' (S iter) (o :: acc) r leftover
              | None => Diverged
              end
          | DNone => loop dynamic lmin2 lmax2 st iter acc r leftover
          | DStuck => Diverged
          end
        else Diverged        (* an edge was popped although the guard of the loop had failed *)
    end.

  Definition refine_loop (dynamic : bool) (lmin2 lmax2 : T) (st : mstate) (script : list pop) (leftover : nat) : outcome :=
    loop dynamic lmin2 lmax2 st 0 [] script leftover.

  (* what the loop saw at each pop (for the correspondence): (iteration, edge count, decision) *)
  Fixpoint loop_log (dynamic : bool) (lmin2 lmax2 : T) (st : mstate) (iter : nat) (script : list pop) : list (nat * nat * decision) :=
    match script with
    | [] => []
    | p :: r =>
        let d := decide lmin2 lmax2 st (p_a p) (p_b p) in
        (iter, nb_edges st, d) ::
        match d with
        | DSplit => match apply_op Nm dynamic st (OpSplit (p_a p) (p_b p) (p_new p)) with
                    | Some st' => loop_log dynamic lmin2 lmax2 st' (S iter) r | None => [] end
        | DMerge => match apply_op Nm dynamic st (OpMerge (p_a p) (p_b p) (p_new p)) with
                    | Some st' => loop_log dynamic lmin2 lmax2 st' (S iter) r | None => [] end
        | DNone => loop_log dynamic lmin2 lmax2 st iter r
        | DStuck => []
        end
    end.

  (* counting the operations of a trace *)
  Definition is_split (o : @op) : bool := match o with OpSplit _ _ _ => true | _ => false end.
  Definition is_merge (o : @op) : bool := match o with OpMerge _ _ _ => true | _ => false end.
  Definition nsplits (ops : list (@op)) : nat := length (filter is_split ops).
  Definition nmerges (ops : list (@op)) : nat := length (filter is_merge ops).
End Loop.
