(* ScheduleProofs.v — proofs about the model of Schedule.v: a schedule acts on each component only through its
   projection on that component (hence every interleaving of per-cell tasks equals the sequential loop), the
   exception handler protocol, the order-independence of simultaneous divisions, and the vector-event machine. *)
From Coq Require Import Arith Bool List NArith Permutation Lia.
From SC Require Import Population PopulationSpec PopulationProofs Schedule.
Import ListNotations.

(* ------------------------------------------------------------------------------------------------------------ *)
(* generic list facts *)

Lemma nth_error_all_eq : forall (A : Type) (l1 l2 : list A),
  (forall j, nth_error l1 j = nth_error l2 j) -> l1 = l2.
Proof.
  intros A l1; induction l1 as [|x r IH]; intros l2 Hall; destruct l2 as [|y r2].
  - reflexivity.
  - specialize (Hall 0); simpl in Hall; discriminate Hall.
  - specialize (Hall 0); simpl in Hall; discriminate Hall.
  - assert (Hhd : x = y) by (specialize (Hall 0); simpl in Hall; injection Hall as Hxy; exact Hxy).
    subst y. f_equal. apply IH. intros j. exact (Hall (S j)).
Qed.

Lemma existsb_perm : forall (B : Type) (f : B -> bool) (l l' : list B),
  Permutation l l' -> existsb f l = existsb f l'.
Proof.
  intros B f l l' HP; induction HP as [|x l l' HP IH|x y l|l l' l'' HP1 IH1 HP2 IH2].
  - reflexivity.
  - simpl. rewrite IH. reflexivity.
  - simpl. destruct (f x); destruct (f y); reflexivity.
  - rewrite IH1. exact IH2.
Qed.

(* ------------------------------------------------------------------------------------------------------------ *)
(* parallel loops *)

Section LoopProofs.
  Context {A : Type}.

  Lemma upd_length : forall (l : list A) i f, length (upd l i f) = length l.
  Proof.
    induction l as [|x r IH]; intros i f; destruct i as [|k]; simpl; try reflexivity.
    rewrite IH. reflexivity.
  Qed.

  Lemma upd_nth_error : forall (l : list A) i f j,
    nth_error (upd l i f) j = if Nat.eqb j i then option_map f (nth_error l j) else nth_error l j.
  Proof.
    induction l as [|x r IH]; intros i f j.
    - simpl. destruct (Nat.eqb j i); destruct j as [|j']; reflexivity.
    - destruct i as [|k]; destruct j as [|j']; simpl; try reflexivity.
      apply IH.
  Qed.

  Lemma proj_cons : forall (i j : nat) (f : A -> A) (r : list (step (A:=A))),
    proj j ((i, f) :: r) = if Nat.eqb j i then f :: proj j r else proj j r.
  Proof.
    intros i j f r. unfold proj. simpl. rewrite (Nat.eqb_sym i j).
    destruct (Nat.eqb j i); reflexivity.
  Qed.

  Lemma proj_app : forall (j : nat) (s1 s2 : list (step (A:=A))),
    proj j (s1 ++ s2) = proj j s1 ++ proj j s2.
  Proof.
    intros j s1 s2. unfold proj. rewrite filter_app, map_app. reflexivity.
  Qed.

  Lemma run_schedule_cons : forall (x : step (A:=A)) (r : list (step (A:=A))) (st : list A),
    run_schedule (x :: r) st = run_schedule r (upd st (fst x) (snd x)).
  Proof. intros x r st. reflexivity. Qed.

  Lemma run_schedule_length : forall (sched : list (step (A:=A))) (st : list A),
    length (run_schedule sched st) = length st.
  Proof.
    induction sched as [|x r IH]; intros st.
    - reflexivity.
    - rewrite run_schedule_cons, IH. apply upd_length.
  Qed.

  (* component j of the result is determined by the projection of the schedule on j *)
  Lemma run_nth_error : forall (sched : list (step (A:=A))) (st : list A) (j : nat),
    nth_error (run_schedule sched st) j =
    option_map (fun a => fold_left (fun x f => f x) (proj j sched) a) (nth_error st j).
  Proof.
    induction sched as [|x r IH]; intros st j.
    - simpl. destruct (nth_error st j); reflexivity.
    - destruct x as [i f]. rewrite run_schedule_cons, IH. simpl fst; simpl snd.
      rewrite upd_nth_error, proj_cons.
      destruct (Nat.eqb j i).
      + destruct (nth_error st j); reflexivity.
      + reflexivity.
  Qed.

  Lemma proj_task_steps : forall (i k : nat) (fs : list (A -> A)),
    proj i (task_steps k fs) = if Nat.eqb i k then fs else [].
  Proof.
    intros i k fs. induction fs as [|f r IH].
    - simpl. destruct (Nat.eqb i k); reflexivity.
    - unfold task_steps in *. simpl map. rewrite proj_cons, IH.
      destruct (Nat.eqb i k); reflexivity.
  Qed.

  Lemma proj_blocks : forall (l : list (list (A -> A))) (k i : nat),
    proj i (concat (map (fun it => task_steps (fst it) (snd it)) (combine (seq k (length l)) l))) =
    if Nat.ltb i k then [] else nth (i - k) l [].
  Proof.
    induction l as [|fs r IH]; intros k i.
    - simpl. destruct (Nat.ltb i k); [reflexivity|]. destruct (i - k); reflexivity.
    - simpl length. simpl seq. simpl combine. simpl map. simpl concat.
      rewrite proj_app, proj_task_steps, IH.
      destruct (Nat.eqb_spec i k) as [Heq|Hne].
      + subst i. destruct (Nat.ltb_spec k (S k)) as [_|Hbad]; [|lia].
        destruct (Nat.ltb_spec k k) as [Hbad|_]; [lia|].
        rewrite Nat.sub_diag. simpl. apply app_nil_r.
      + simpl app.
        destruct (Nat.ltb_spec i (S k)) as [Hlt|Hge]; destruct (Nat.ltb_spec i k) as [Hlt'|Hge']; try lia.
        * reflexivity.
        * replace (i - k) with (S (i - S k)) by lia. reflexivity.
  Qed.

  Lemma sequential_is_interleaving : forall (tasks : list (list (A -> A))), interleaving tasks (sequential tasks).
  Proof.
    intros tasks i. unfold sequential. rewrite proj_blocks.
    simpl. rewrite Nat.sub_0_r. reflexivity.
  Qed.
End LoopProofs.

Theorem same_projections_same_result : forall (A : Type) (s1 s2 : list (step (A:=A))) (st : list A),
  (forall i, proj i s1 = proj i s2) -> run_schedule s1 st = run_schedule s2 st.
Proof.
  intros A s1 s2 st Hproj. apply nth_error_all_eq. intros j.
  rewrite !run_nth_error, Hproj. reflexivity.
Qed.

Theorem interleaving_sequential : forall (A : Type) (tasks : list (list (A -> A))) (sched : list (step (A:=A))) (st : list A),
  interleaving tasks sched -> run_schedule sched st = run_schedule (sequential tasks) st.
Proof.
  intros A tasks sched st Hint. apply same_projections_same_result. intros i.
  rewrite (Hint i). symmetry. apply sequential_is_interleaving.
Qed.

Theorem untouched_component : forall (A : Type) (sched : list (step (A:=A))) (st : list A) (j : nat),
  proj j sched = [] -> nth_error (run_schedule sched st) j = nth_error st j.
Proof.
  intros A sched st j Hnil. rewrite run_nth_error, Hnil. simpl.
  destruct (nth_error st j); reflexivity.
Qed.

(* ------------------------------------------------------------------------------------------------------------ *)
(* exception handler *)

Section HandlerProofs.
  Context {E : Type}.

  Definition hslot (results : list (outcome (E:=E))) (slot : option E) (i : nat) : option E :=
    match nth i results Done with Threw e => Some e | Done => slot end.

  Lemma handler_fold : forall (results : list (outcome (E:=E))) order,
    handler results order = fold_left (hslot results) order None.
  Proof. reflexivity. Qed.

  Lemma hfold_none : forall (results : list (outcome (E:=E))) order slot,
    fold_left (hslot results) order slot = None <->
    slot = None /\ forall i, In i order -> nth i results Done = Done.
  Proof.
    intros results order; induction order as [|i r IH]; intros slot.
    - simpl. split.
      + intros Hs. split; [exact Hs|]. intros i Hi; destruct Hi.
      + intros [Hs _]. exact Hs.
    - simpl fold_left. rewrite IH. unfold hslot at 1. split.
      + intros [Hslot Hall]. destruct (nth i results Done) as [|e] eqn:Hi.
        * split; [exact Hslot|]. intros k [Hk|Hk]; [subst k; exact Hi|exact (Hall k Hk)].
        * discriminate Hslot.
      + intros [Hslot Hall]. split.
        * rewrite (Hall i (or_introl eq_refl)). exact Hslot.
        * intros k Hk. apply Hall. right. exact Hk.
  Qed.

  Lemma hfold_some : forall (results : list (outcome (E:=E))) order slot e,
    fold_left (hslot results) order slot = Some e ->
    slot = Some e \/ exists i, In i order /\ nth i results Done = Threw e.
  Proof.
    intros results order; induction order as [|i r IH]; intros slot e Hf.
    - simpl in Hf. left. exact Hf.
    - simpl fold_left in Hf. apply IH in Hf. destruct Hf as [Hs|[k [Hk Hnk]]].
      + unfold hslot in Hs. destruct (nth i results Done) as [|e'] eqn:Hi.
        * left. exact Hs.
        * right. exists i. split; [left; reflexivity|]. rewrite Hi. f_equal. injection Hs as He. exact He.
      + right. exists k. split; [right; exact Hk|exact Hnk].
  Qed.

  Lemma all_done_iff : forall (results : list (outcome (E:=E))) order,
    Permutation order (seq 0 (length results)) ->
    ((forall i, In i order -> nth i results Done = Done) <-> Forall (fun r => r = Done) results).
  Proof.
    intros results order HP. split.
    - intros Hall. apply Forall_forall. intros r Hr.
      destruct (In_nth results r Done Hr) as [i [Hlt Hnth]].
      rewrite <- Hnth. apply Hall.
      apply (Permutation_in i (Permutation_sym HP)). apply in_seq. lia.
    - intros HF i _. destruct (Nat.lt_ge_cases i (length results)) as [Hlt|Hge].
      + rewrite Forall_forall in HF. apply HF. apply nth_In. exact Hlt.
      + apply nth_overflow. exact Hge.
  Qed.
End HandlerProofs.

Theorem handler_spec : forall (E : Type) (results : list (outcome (E:=E))) (order : list nat),
  Permutation order (seq 0 (length results)) ->
  (handler results order = None <-> Forall (fun r => r = Done) results) /\
  (forall e, handler results order = Some e -> In (Threw e) results).
Proof.
  intros E results order HP. split.
  - rewrite handler_fold, hfold_none, <- (all_done_iff results order HP). split.
    + intros [_ Hall]. exact Hall.
    + intros Hall. split; [reflexivity|exact Hall].
  - intros e He. rewrite handler_fold in He. apply hfold_some in He.
    destruct He as [Hbad|[i [_ Hi]]]; [discriminate Hbad|].
    destruct (Nat.lt_ge_cases i (length results)) as [Hlt|Hge].
    + rewrite <- Hi. apply nth_In. exact Hlt.
    + rewrite (nth_overflow results Done Hge) in Hi. discriminate Hi.
Qed.

(* ------------------------------------------------------------------------------------------------------------ *)
(* simultaneous divisions *)

Lemma append_daughters_length : forall (ms ms' : list nat) (p : pop),
  length ms = length ms' -> append_daughters p ms = append_daughters p ms'.
Proof.
  induction ms as [|m r IH]; intros ms' p Hlen; destruct ms' as [|m' r']; simpl in Hlen; try discriminate Hlen.
  - reflexivity.
  - unfold append_daughters in *. simpl fold_left. apply IH. injection Hlen as Hlen'. exact Hlen'.
Qed.

Lemma remove_positions_ext : forall (ms ms' : list nat) (cells : list pcell) (k : nat),
  (forall j, existsb (Nat.eqb j) ms = existsb (Nat.eqb j) ms') ->
  remove_positions cells k ms = remove_positions cells k ms'.
Proof.
  intros ms ms' cells; induction cells as [|c r IH]; intros k Hex.
  - reflexivity.
  - simpl. rewrite (Hex k), (IH (S k) Hex). reflexivity.
Qed.

Lemma divide_perm : forall (ms ms' : list nat) (p : pop), Permutation ms ms' -> divide ms' p = divide ms p.
Proof.
  intros ms ms' p HP.
  destruct ms as [|m r]; destruct ms' as [|m' r'].
  - reflexivity.
  - exfalso. exact (Permutation_nil_cons HP).
  - exfalso. exact (Permutation_nil_cons (Permutation_sym HP)).
  - unfold divide.
    rewrite (append_daughters_length (m' :: r') (m :: r) p (Permutation_length (Permutation_sym HP))).
    rewrite (remove_positions_ext (m' :: r') (m :: r) _ 0
               (fun j => existsb_perm nat (Nat.eqb j) _ _ (Permutation_sym HP))).
    reflexivity.
Qed.

Theorem divide_order_irrelevant : forall p ms ms', PopInv p -> Permutation ms ms' -> NoDup ms ->
  (forall m, In m ms -> (m < length (p_cells p))%nat) ->
  ids (divide ms' p) = ids (divide ms p) /\ p_counter (divide ms' p) = p_counter (divide ms p).
Proof.
  intros p ms ms' _ HP _ _. rewrite (divide_perm ms ms' p HP). split; reflexivity.
Qed.

(* ------------------------------------------------------------------------------------------------------------ *)
(* vector-event machine *)

Theorem dangling_read_witness : exists es, v_stale (vrun es (mkvs 2 2 0 [] false)) = true.
Proof. exists [ReadBegin 1; Push; ReadEnd 1]. vm_compute. reflexivity. Qed.

Lemma vrun_cons : forall e r s, vrun (e :: r) s = vrun r (vstep s e).
Proof. reflexivity. Qed.

Lemma push_stale : forall s, v_stale (vstep s Push) = v_stale s.
Proof. intros s. simpl. destruct (Nat.ltb (v_size s) (v_cap s)); reflexivity. Qed.

Lemma pushes_keep_stale : forall r s,
  forallb (fun e => match e with Push => true | _ => false end) r = true -> v_stale (vrun r s) = v_stale s.
Proof.
  induction r as [|e r IH]; intros s Hall.
  - reflexivity.
  - simpl in Hall. apply andb_true_iff in Hall. destruct Hall as [He Hr].
    destruct e as [t|t|]; try discriminate He.
    rewrite vrun_cons, (IH _ Hr). apply push_stale.
Qed.

Theorem deferred_safe : forall es s, deferred es = true -> v_stale s = false ->
  (forall p, In p (v_pending s) -> snd p = v_gen s) -> v_stale (vrun es s) = false.
Proof.
  induction es as [|e r IH]; intros s Hdef Hstale Hpend.
  - exact Hstale.
  - destruct e as [t|t|].
    + rewrite vrun_cons. apply IH.
      * exact Hdef.
      * exact Hstale.
      * simpl. intros p [Hp|Hp]; [subst p; reflexivity|exact (Hpend p Hp)].
    + rewrite vrun_cons. apply IH.
      * exact Hdef.
      * simpl. rewrite Hstale. simpl.
        destruct (existsb (fun p => Nat.eqb (fst p) t && negb (Nat.eqb (snd p) (v_gen s))) (v_pending s)) eqn:Hex;
          [|reflexivity].
        apply existsb_exists in Hex. destruct Hex as [p [Hp Hb]].
        rewrite (Hpend p Hp), Nat.eqb_refl, andb_false_r in Hb. discriminate Hb.
      * simpl. intros p Hp. apply filter_In in Hp. destruct Hp as [Hp _]. exact (Hpend p Hp).
    + simpl in Hdef. rewrite vrun_cons, (pushes_keep_stale r _ Hdef), push_stale. exact Hstale.
Qed.
