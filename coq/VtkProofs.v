(* VtkProofs.v — proofs of the C16 statements about Vtk.v (writer / reader of the cell-data file, token level) *)
From Coq Require Import NArith Arith Bool List Lia.
From SC Require Import Vtk VtkSpec.
Import ListNotations.
Local Open Scope N_scope.

(* ------------------------------------------------------------------ generic list helpers *)
Lemma after_app_skip : forall {F : Type} (k : tok (F:=F) -> bool) pre t rest,
  (forall u, In u pre -> k u = false) -> k t = true -> after k (pre ++ t :: rest) = Some rest.
Proof.
  intros F k pre t rest Hpre Ht. induction pre as [|u pre IH]; cbn [app after].
  - now rewrite Ht.
  - rewrite (Hpre u (or_introl eq_refl)). apply IH. intros w Hw. apply Hpre. now right.
Qed.

Lemma after_none : forall {F : Type} (k : tok (F:=F) -> bool) l,
  (forall u, In u l -> k u = false) -> after k l = None.
Proof.
  intros F k l H. induction l as [|u l IH]; cbn [after]; [reflexivity|].
  rewrite (H u (or_introl eq_refl)). apply IH. intros w Hw. apply H. now right.
Qed.

Lemma take_X_map : forall {F : Type} (xs : list F) (rest : list (tok (F:=F))),
  (match rest with X _ :: _ => False | _ => True end) -> take_X (map X xs ++ rest) = xs.
Proof.
  intros F xs rest H. induction xs as [|x xs IH]; cbn [map app take_X].
  - destruct rest as [|[] r]; cbn [take_X]; try reflexivity. contradiction.
  - now rewrite IH.
Qed.

Lemma take_I_map : forall {F : Type} (ns : list N) (rest : list (tok (F:=F))),
  (match rest with I _ :: _ => False | _ => True end) -> take_I (map I ns ++ rest) = ns.
Proof.
  intros F ns rest H. induction ns as [|x ns IH]; cbn [map app take_I].
  - destruct rest as [|[] r]; cbn [take_I]; try reflexivity. contradiction.
  - now rewrite IH.
Qed.

Lemma sem_all_map : forall {F V : Type} (sem : F -> option V) (v : F -> V) xs,
  (forall x, In x xs -> sem x = Some (v x)) -> sem_all sem xs = Some (map v xs).
Proof.
  intros F V sem v xs H. induction xs as [|x xs IH]; cbn [sem_all map]; [reflexivity|].
  rewrite (H x (or_introl eq_refl)), IH; [reflexivity|]. intros y Hy. apply H. now right.
Qed.

(* ------------------------------------------------------------------ the simple rejections *)
Lemma reject_count : forall (F V : Type) (sem : F -> option V) (n : N) (xs : list F) (rest : list (tok (F:=F))) (vs : list V),
  (match rest with X _ :: _ => False | _ => True end) ->
  sem_all sem xs = Some vs -> N.of_nat (length vs) / 3 <> n ->
  read_points sem (KPoints :: I n :: map X xs ++ rest) = Err ECount.
Proof.
  intros F V sem n xs rest vs Hr Hs Hn. unfold read_points. cbn [after isK].
  rewrite (take_X_map xs rest Hr), Hs.
  destruct (N.eqb_spec (N.of_nat (length vs) / 3) n) as [E|E]; [contradiction|reflexivity].
Qed.

Lemma reject_number : forall (F V : Type) (sem : F -> option V) (n : N) (xs : list F) (rest : list (tok (F:=F))),
  (match rest with X _ :: _ => False | _ => True end) ->
  sem_all sem xs = None ->
  read_points sem (KPoints :: I n :: map X xs ++ rest) = Err EBadNumber.
Proof.
  intros F V sem n xs rest Hr Hs. unfold read_points. cbn [after isK].
  now rewrite (take_X_map xs rest Hr), Hs.
Qed.

Lemma reject_no_points : forall (F V : Type) (sem : F -> option V) (file : list (tok (F:=F))),
  (forall t, In t file -> t <> KPoints) -> read_file sem file = Err ENoPoints.
Proof.
  intros F V sem file H. unfold read_file, read_points.
  rewrite after_none; [reflexivity|].
  intros u Hu. specialize (H u Hu). destruct u; cbn; try reflexivity. now contradiction H.
Qed.

(* ------------------------------------------------------------------ index safety of whatever is accepted *)
Lemma index_of_bound : forall x l k i, index_of x l k = Some i -> k <= i /\ i < k + N.of_nat (length l).
Proof.
  intros x l. induction l as [|y l IH]; intros k i H; cbn [index_of] in H; [discriminate|].
  destruct (x =? y).
  - injection H as <-. cbn [length]. lia.
  - apply IH in H. cbn [length]. lia.
Qed.

Lemma coords_of_len : forall {V : Type} (pts : list V) g c, coords_of pts g = Some c -> length c = 3%nat.
Proof.
  intros V pts g c H. unfold coords_of in H. cbv zeta in H.
  destruct (Nat.leb_spec (N.to_nat (g * 3) + 3) (length pts)) as [L|L]; [|discriminate].
  replace c with (firstn 3 (skipn (N.to_nat (g * 3)) pts)) by congruence.
  rewrite firstn_length, skipn_length. lia.
Qed.

Lemma gather_len : forall {V : Type} (pts : list V) ids cs, gather pts ids = Some cs -> length cs = (3 * length ids)%nat.
Proof.
  intros V pts ids. induction ids as [|g ids IH]; intros cs H; cbn [gather] in H.
  - injection H as <-. reflexivity.
  - destruct (coords_of pts g) as [c|] eqn:Ec; [|discriminate].
    destruct (gather pts ids) as [cs'|] eqn:Eg; [|discriminate].
    injection H as <-. rewrite app_length, (coords_of_len _ _ _ Ec), (IH _ eq_refl). cbn [length]. lia.
Qed.

Lemma renumber_face_bound : forall ids f l, renumber_face ids f = Some l ->
  forall i, In i l -> i < N.of_nat (length ids).
Proof.
  intros ids f. induction f as [|x f IH]; intros l H i Hi; cbn [renumber_face fold_right] in H.
  - injection H as <-. destruct Hi.
  - fold (renumber_face ids f) in H.
    destruct (index_of x ids 0) as [k|] eqn:Ek; [|discriminate].
    destruct (renumber_face ids f) as [l'|] eqn:El; [|discriminate].
    injection H as <-. destruct Hi as [<-|Hi].
    + apply index_of_bound in Ek. lia.
    + now apply (IH _ eq_refl).
Qed.

Lemma all_some_in : forall {A : Type} (l : list (option A)) r, all_some l = Some r ->
  forall x, In x r -> In (Some x) l.
Proof.
  intros A l. induction l as [|[a|] l IH]; intros r H x Hx; cbn [all_some] in H.
  - injection H as <-. destruct Hx.
  - destruct (all_some l) as [r'|] eqn:E; cbn [option_map] in H; [|discriminate].
    injection H as <-. destruct Hx as [<-|Hx]; [now left|right; now apply (IH _ eq_refl)].
  - discriminate.
Qed.

Lemma map_res_in : forall {A B : Type} (f : A -> res B) l bs, map_res f l = Ok bs ->
  forall b, In b bs -> exists a, In a l /\ f a = Ok b.
Proof.
  intros A B f l. induction l as [|a l IH]; intros bs H b Hb; cbn [map_res] in H.
  - injection H as <-. destruct Hb.
  - destruct (f a) as [b0|e] eqn:Ea; [|discriminate].
    destruct (map_res f l) as [bs'|e] eqn:El; [|discriminate].
    injection H as <-. destruct Hb as [<-|Hb].
    + exists a. split; [now left|assumption].
    + destruct (IH _ eq_refl _ Hb) as [a' [Ha' Hf]]. exists a'. split; [now right|assumption].
Qed.

Lemma cell_mesh_safe : forall {V : Type} (pts : list V) rec m, cell_mesh pts rec = Ok m -> mesh_index_safe m.
Proof.
  intros V pts rec m H. unfold cell_mesh in H.
  destruct rec as [|nf body]; [discriminate|].
  destruct (parse_faces (S (length body)) body) as [faces|e]; [|discriminate].
  destruct (negb (N.of_nat (length faces) =? nf)); [discriminate|].
  destruct (gather pts (used_ids faces)) as [cs|] eqn:Eg; [|discriminate].
  destruct (all_some (map (renumber_face (used_ids faces)) faces)) as [fs|] eqn:Ef; [|discriminate].
  injection H as <-. intros f i Hf Hi. cbn [r_faces r_coords] in *.
  apply (all_some_in _ _ Ef) in Hf. apply in_map_iff in Hf. destruct Hf as [f0 [Hr _]].
  pose proof (renumber_face_bound _ _ _ Hr _ Hi) as Hb.
  rewrite (gather_len _ _ _ Eg). lia.
Qed.

Lemma read_safe : forall (F V : Type) (sem : F -> option V) (file : list (tok (F:=F))) ms tys,
  read_file sem file = Ok (ms, tys) -> Forall mesh_index_safe ms.
Proof.
  intros F V sem file ms tys H. unfold read_file in H.
  destruct (read_points sem file) as [pts|e]; [|discriminate].
  destruct (read_faces file) as [recs|e]; [|discriminate].
  destruct (map_res (cell_mesh pts) recs) as [ms'|e] eqn:Em; [|discriminate].
  destruct (read_types file) as [tys'|e]; [|discriminate].
  injection H as <- <-. apply Forall_forall. intros m Hm.
  destruct (map_res_in _ _ _ Em _ Hm) as [rec [_ Hc]]. now apply (cell_mesh_safe _ _ _ Hc).
Qed.

(* ------------------------------------------------------------------ parse_faces on written face records *)
Lemma parse_faces_flat : forall (faces : list (list N)) fuel, (length faces < fuel)%nat ->
  parse_faces fuel (flat_map (fun f => N.of_nat (length f) :: f) faces) = Ok faces.
Proof.
  induction faces as [|f faces IH]; intros fuel Hf; (destruct fuel as [|fuel]; [lia|]).
  - reflexivity.
  - cbn [flat_map app parse_faces]. rewrite Nat2N.id.
    destruct (Nat.ltb_spec (length (f ++ flat_map (fun f0 => N.of_nat (length f0) :: f0) faces)) (length f)) as [L|L].
    { rewrite app_length in L. lia. }
    rewrite skipn_app, skipn_all, Nat.sub_diag, firstn_app, firstn_all, Nat.sub_diag. cbn [skipn firstn app].
    rewrite app_nil_r. rewrite IH; [reflexivity|]. cbn [length] in Hf. lia.
Qed.

Lemma flat_faces_length : forall (faces : list (list N)),
  (length faces <= length (flat_map (fun f => N.of_nat (length f) :: f) faces))%nat.
Proof.
  induction faces as [|f faces IH]; cbn [flat_map length app]; [lia|]. rewrite app_length. lia.
Qed.

(* ------------------------------------------------------------------ used_ids: membership *)
Lemma insert_sorted_in : forall x l y, In y (insert_sorted x l) <-> y = x \/ In y l.
Proof.
  intros x l y. induction l as [|z l IH]; cbn [insert_sorted].
  - cbn [In]. intuition.
  - destruct (N.ltb_spec x z) as [L|L].
    + cbn [In]. intuition.
    + destruct (N.eqb_spec x z) as [E|E].
      * subst. cbn [In]. intuition.
      * cbn [In]. rewrite IH. intuition.
Qed.

Lemma fold_insert_in : forall f s y, In y (fold_left (fun s' x => insert_sorted x s') f s) <-> In y f \/ In y s.
Proof.
  induction f as [|x f IH]; intros s y; cbn [fold_left].
  - cbn [In]. intuition.
  - rewrite IH, insert_sorted_in. cbn [In]. intuition.
Qed.

Lemma fold_faces_in : forall faces s y,
  In y (fold_left (fun s f => fold_left (fun s' x => insert_sorted x s') f s) faces s) <-> In y (concat faces) \/ In y s.
Proof.
  induction faces as [|f faces IH]; intros s y; cbn [fold_left concat].
  - cbn [In]. intuition.
  - rewrite IH, fold_insert_in, in_app_iff. intuition.
Qed.

Lemma used_ids_in : forall faces y, In y (used_ids faces) <-> In y (concat faces).
Proof. intros faces y. unfold used_ids. rewrite fold_faces_in. cbn [In]. intuition. Qed.

Lemma gather_none : forall {V : Type} (pts : list V) ids g, In g ids -> coords_of pts g = None -> gather pts ids = None.
Proof.
  intros V pts ids g. induction ids as [|h ids IH]; intros Hin Hc; [destruct Hin|].
  cbn [gather]. destruct Hin as [->|Hin].
  - now rewrite Hc.
  - rewrite (IH Hin Hc). now destruct (coords_of pts h).
Qed.

Lemma reject_dangling : forall (V : Type) (pts : list V) (rec : list N) (nf : N) (faces : list (list N)) (g : N),
  rec = nf :: flat_map (fun f => N.of_nat (length f) :: f) faces -> N.of_nat (length faces) = nf ->
  In g (concat faces) -> (length pts < N.to_nat (g * 3) + 3)%nat ->
  cell_mesh pts rec = Err EDangling.
Proof.
  intros V pts rec nf faces g -> Hnf Hg Hlen. unfold cell_mesh.
  rewrite parse_faces_flat by (pose proof (flat_faces_length faces); lia).
  rewrite Hnf, N.eqb_refl. cbn [negb].
  rewrite (gather_none pts (used_ids faces) g); [reflexivity| now apply used_ids_in |].
  unfold coords_of. cbv zeta. destruct (Nat.leb_spec (N.to_nat (g * 3) + 3) (length pts)); [lia|reflexivity].
Qed.

(* ------------------------------------------------------------------ counts *)
Lemma fold_add_acc : forall {A : Type} (g : A -> N) (l : list A) (a : N),
  fold_left (fun a c => a + g c) l a = a + fold_left (fun a c => a + g c) l 0.
Proof.
  intros A g l. induction l as [|c l IH]; intros a; cbn [fold_left]; [lia|].
  rewrite (IH (a + g c)), (IH (0 + g c)). lia.
Qed.

Lemma total_nodes_cons : forall {F : Type} (c : wcell (F:=F)) r, total_nodes (c :: r) = nnodes c + total_nodes r.
Proof. intros F c r. unfold total_nodes. cbn [fold_left]. rewrite fold_add_acc. lia. Qed.

Lemma nnodes_spec : forall {F : Type} (c : wcell (F:=F)) n, length (w_coords c) = (3 * n)%nat -> nnodes c = N.of_nat n.
Proof.
  intros F c n H. unfold nnodes. rewrite H.
  replace (N.of_nat (3 * n)) with (N.of_nat n * 3) by lia. apply N.div_mul. discriminate.
Qed.

Lemma points_count : forall (F : Type) (cells : list (wcell (F:=F))),
  Forall (fun c => exists n, length (w_coords c) = (3 * n)%nat) cells ->
  N.of_nat (length (flat_map (fun c => w_coords c) cells)) = 3 * total_nodes cells.
Proof.
  intros F cells H. induction H as [|c r [n Hn] Hr IH].
  - reflexivity.
  - cbn [flat_map]. rewrite app_length, total_nodes_cons, (nnodes_spec c n Hn), Hn. lia.
Qed.

(* ------------------------------------------------------------------ used_ids: strictly sorted, hence an interval *)
Fixpoint ssorted (l : list N) : Prop :=
  match l with [] => True | x :: r => (forall y, In y r -> x < y) /\ ssorted r end.

Lemma insert_sorted_ssorted : forall x l, ssorted l -> ssorted (insert_sorted x l).
Proof.
  intros x l. induction l as [|z l IH]; intros Hs; cbn [insert_sorted].
  - cbn. split; [intros y []|exact Logic.I].
  - destruct Hs as [Hz Hl]. destruct (N.ltb_spec x z) as [L|L].
    + cbn [ssorted]. split; [|split; assumption].
      intros y [<-|Hy]; [assumption|]. specialize (Hz y Hy). lia.
    + destruct (N.eqb_spec x z) as [E|E].
      * cbn [ssorted]. split; assumption.
      * cbn [ssorted]. split; [|now apply IH].
        intros y Hy. apply insert_sorted_in in Hy. destruct Hy as [->|Hy]; [lia|now apply Hz].
Qed.

Lemma fold_insert_ssorted : forall f s, ssorted s -> ssorted (fold_left (fun s' x => insert_sorted x s') f s).
Proof.
  induction f as [|x f IH]; intros s Hs; cbn [fold_left]; [assumption|].
  apply IH. now apply insert_sorted_ssorted.
Qed.

Lemma used_ids_ssorted : forall faces, ssorted (used_ids faces).
Proof.
  intros faces. unfold used_ids. assert (H : ssorted []) by exact Logic.I. revert H. generalize (@nil N).
  induction faces as [|f faces IH]; intros s Hs; cbn [fold_left]; [assumption|].
  apply IH. now apply fold_insert_ssorted.
Qed.

Fixpoint seqN (off : N) (n : nat) : list N :=
  match n with O => [] | S k => off :: seqN (N.succ off) k end.

Lemma ssorted_interval : forall n off l, ssorted l ->
  (forall y, In y l <-> off <= y < off + N.of_nat n) -> l = seqN off n.
Proof.
  induction n as [|n IH]; intros off l Hs Hm.
  - destruct l as [|x l]; [reflexivity|]. exfalso. specialize (proj1 (Hm x) (or_introl eq_refl)). lia.
  - destruct l as [|x l].
    { exfalso. assert (Ho : off <= off < off + N.of_nat (S n)) by lia. apply Hm in Ho. destruct Ho. }
    destruct Hs as [Hx Hl].
    assert (Ex : x = off).
    { assert (Ho : off <= off < off + N.of_nat (S n)) by lia. apply Hm in Ho.
      pose proof (proj1 (Hm x) (or_introl eq_refl)) as Hxr.
      destruct Ho as [Ho|Ho]; [assumption|]. specialize (Hx off Ho). lia. }
    subst x. cbn [seqN]. f_equal. apply IH; [assumption|].
    intros y. split.
    + intros Hy. specialize (Hx y Hy). pose proof (proj1 (Hm y) (or_intror Hy)). lia.
    + intros Hy. assert (Hy' : off <= y < off + N.of_nat (S n)) by lia. apply Hm in Hy'.
      destruct Hy' as [E|Hy']; [lia|assumption].
Qed.

Lemma seqN_length : forall n off, length (seqN off n) = n.
Proof. induction n as [|n IH]; intros off; cbn [seqN length]; [reflexivity|now rewrite IH]. Qed.

Lemma index_of_seqN : forall n off k a, a < N.of_nat n -> index_of (a + off) (seqN off n) k = Some (k + a).
Proof.
  induction n as [|n IH]; intros off k a Ha; [lia|]. cbn [seqN index_of].
  destruct (N.eqb_spec (a + off) off) as [E|E].
  - f_equal. lia.
  - replace (a + off) with ((a - 1) + N.succ off) by lia. rewrite IH by lia. f_equal. lia.
Qed.

(* ------------------------------------------------------------------ gather over an interval of ids *)
Lemma firstn_add : forall {A : Type} a b (l : list A), firstn (a + b) l = firstn a l ++ firstn b (skipn a l).
Proof.
  intros A a. induction a as [|a IH]; intros b l; [reflexivity|].
  destruct l as [|x l]; cbn [Nat.add firstn skipn app].
  - now rewrite firstn_nil.
  - now rewrite IH.
Qed.

Lemma skipn_skipn' : forall {A : Type} a b (l : list A), skipn a (skipn b l) = skipn (b + a) l.
Proof.
  intros A a b. induction b as [|b IH]; intros l; [reflexivity|].
  destruct l as [|x l]; cbn [Nat.add skipn]; [now rewrite skipn_nil|apply IH].
Qed.

Lemma gather_seqN : forall {V : Type} n off (pts : list V), (N.to_nat (off * 3) + 3 * n <= length pts)%nat ->
  gather pts (seqN off n) = Some (firstn (3 * n) (skipn (N.to_nat (off * 3)) pts)).
Proof.
  intros V n. induction n as [|n IH]; intros off pts H.
  - reflexivity.
  - cbn [seqN gather]. unfold coords_of. cbv zeta.
    destruct (Nat.leb_spec (N.to_nat (off * 3) + 3) (length pts)) as [L|L]; [|lia].
    rewrite IH by lia.
    replace (N.to_nat (N.succ off * 3)) with (N.to_nat (off * 3) + 3)%nat by lia.
    rewrite <- skipn_skipn'. replace (3 * S n)%nat with (3 + 3 * n)%nat by lia.
    now rewrite firstn_add.
Qed.

(* ------------------------------------------------------------------ one written cell record, read back *)
Definition gface (off : N) (f : N * N * N) : list N := let '(a, b, c) := f in [a + off; b + off; c + off].
Definition rec_of {F : Type} (off : N) (c : wcell (F:=F)) : list N :=
  N.of_nat (length (w_faces c)) :: flat_map (fun f => N.of_nat (length f) :: f) (map (gface off) (w_faces c)).

Lemma concat_gface_in : forall off faces y,
  In y (concat (map (gface off) faces)) <-> exists f i, In f faces /\ In i (face_ids f) /\ y = i + off.
Proof.
  intros off faces y. rewrite in_concat. split.
  - intros [l [Hl Hy]]. apply in_map_iff in Hl. destruct Hl as [f [<- Hf]].
    destruct f as [[a b] c]. cbn [gface In] in Hy.
    destruct Hy as [<-|[<-|[<-|[]]]]; eexists; eexists; (split; [exact Hf|]); (split; [|reflexivity]); cbn; tauto.
  - intros [f [i [Hf [Hi ->]]]]. exists (gface off f). split; [now apply in_map|].
    destruct f as [[a b] c]. cbn [face_ids In] in Hi. cbn [gface In].
    destruct Hi as [<-|[<-|[<-|[]]]]; tauto.
Qed.

Lemma used_ids_good : forall {F : Type} (c : wcell (F:=F)) n off, good_cell c -> length (w_coords c) = (3 * n)%nat ->
  used_ids (map (gface off) (w_faces c)) = seqN off n.
Proof.
  intros F c n off [_ [_ [Hlt Hall]]] Hn. pose proof (nnodes_spec c n Hn) as En. rewrite En in *.
  apply ssorted_interval; [apply used_ids_ssorted|].
  intros y. rewrite used_ids_in, concat_gface_in. split.
  - intros [f [i [Hf [Hi ->]]]]. specialize (Hlt f i Hf Hi). lia.
  - intros Hy. destruct (Hall (y - off)) as [f [Hf Hi]]; [lia|].
    exists f, (y - off). repeat split; try assumption. lia.
Qed.

Lemma renumber_good : forall n off f, (forall i, In i (face_ids f) -> i < N.of_nat n) ->
  renumber_face (seqN off n) (gface off f) = Some (face_ids f).
Proof.
  intros n off [[a b] c] H. cbn [gface face_ids renumber_face fold_right].
  rewrite !index_of_seqN by (apply H; cbn; tauto). reflexivity.
Qed.

Lemma all_some_map : forall {A B : Type} (g : A -> option B) (h : A -> B) l,
  (forall f, In f l -> g f = Some (h f)) -> all_some (map g l) = Some (map h l).
Proof.
  intros A B g h l H. induction l as [|x l IH]; [reflexivity|]. cbn [map all_some].
  rewrite (H x (or_introl eq_refl)), IH; [reflexivity|]. intros f Hf. apply H. now right.
Qed.

Lemma cell_mesh_good : forall {F V : Type} (c : wcell (F:=F)) off (pts : list V),
  good_cell c -> (N.to_nat (off * 3) + length (w_coords c) <= length pts)%nat ->
  cell_mesh pts (rec_of off c) =
    Ok (mkrm (firstn (length (w_coords c)) (skipn (N.to_nat (off * 3)) pts)) (map face_ids (w_faces c))).
Proof.
  intros F V c off pts Hg Hlen. pose proof Hg as [[n Hn] [_ [Hlt _]]].
  unfold cell_mesh, rec_of.
  rewrite parse_faces_flat by (pose proof (flat_faces_length (map (gface off) (w_faces c))); lia).
  rewrite map_length, N.eqb_refl. cbn [negb].
  rewrite (used_ids_good c n off Hg Hn).
  rewrite gather_seqN by lia.
  rewrite map_map. rewrite (all_some_map _ face_ids).
  - now rewrite Hn.
  - intros f Hf. apply renumber_good. intros i Hi. rewrite <- (nnodes_spec c n Hn). now apply (Hlt f i).
Qed.

(* ------------------------------------------------------------------ all the records of a file *)
Lemma firstn_app_exact : forall {A : Type} n (l1 l2 : list A), length l1 = n -> firstn n (l1 ++ l2) = l1.
Proof. intros A n l1 l2 <-. rewrite firstn_app, firstn_all, Nat.sub_diag. cbn [firstn]. apply app_nil_r. Qed.
Lemma skipn_app_exact : forall {A : Type} n (l1 l2 : list A), length l1 = n -> skipn n (l1 ++ l2) = l2.
Proof. intros A n l1 l2 <-. rewrite skipn_app, skipn_all, Nat.sub_diag. reflexivity. Qed.

Definition recs {F : Type} (cells : list (wcell (F:=F))) (acc : N) : list (list N) :=
  map (fun oc => rec_of (fst oc) (snd oc)) (combine (offsets cells acc) cells).

Lemma map_res_cells : forall {F V : Type} (v : F -> V) (cells : list (wcell (F:=F))) acc (pts : list V),
  Forall good_cell cells ->
  skipn (N.to_nat (acc * 3)) pts = map v (flat_map (fun c => w_coords c) cells) ->
  (N.to_nat (acc * 3) <= length pts)%nat ->
  map_res (cell_mesh pts) (recs cells acc) = Ok (map (expect_mesh v) cells).
Proof.
  intros F V v cells. induction cells as [|c cells IH]; intros acc pts Hg Hs Hl.
  - reflexivity.
  - inversion Hg as [|c' r' Hc Hr]; subst c' r'. pose proof Hc as [[n Hn] _].
    unfold recs. cbn [offsets combine map fst snd map_res]. fold (recs cells (acc + nnodes c)).
    cbn [flat_map] in Hs. rewrite map_app in Hs.
    assert (Hlen : (N.to_nat (acc * 3) + length (w_coords c) <= length pts)%nat).
    { apply (f_equal (@length V)) in Hs. rewrite skipn_length, app_length, map_length in Hs. lia. }
    rewrite (cell_mesh_good c acc pts Hc Hlen).
    rewrite (nnodes_spec c n Hn).
    rewrite (IH (acc + N.of_nat n) pts Hr).
    + rewrite Hs, firstn_app_exact by apply map_length. reflexivity.
    + replace (N.to_nat ((acc + N.of_nat n) * 3)) with (N.to_nat (acc * 3) + 3 * n)%nat by lia.
      rewrite <- skipn_skipn', Hs. apply skipn_app_exact. now rewrite map_length.
    + lia.
Qed.

Lemma split_cells_flat : forall (rs : list (list N)) fuel, (length rs < fuel)%nat ->
  split_cells fuel (flat_map (fun f => N.of_nat (length f) :: f) rs) = Ok rs.
Proof.
  induction rs as [|f rs IH]; intros fuel Hf; (destruct fuel as [|fuel]; [lia|]).
  - reflexivity.
  - cbn [flat_map app split_cells]. rewrite Nat2N.id.
    destruct (Nat.ltb_spec (length (f ++ flat_map (fun f0 => N.of_nat (length f0) :: f0) rs)) (length f)) as [L|L].
    { rewrite app_length in L. lia. }
    rewrite skipn_app_exact, firstn_app_exact by reflexivity.
    rewrite IH; [reflexivity|]. cbn [length] in Hf. lia.
Qed.

Lemma face_toks_eq : forall {F : Type} off f,
  face_toks (F:=F) off f = map I (N.of_nat (length (gface off f)) :: gface off f).
Proof. intros F off [[a b] c]. reflexivity. Qed.

Lemma faces_toks_eq : forall {F : Type} off faces,
  flat_map (face_toks (F:=F) off) faces = map I (flat_map (fun f => N.of_nat (length f) :: f) (map (gface off) faces)).
Proof.
  intros F off faces. induction faces as [|f faces IH]; [reflexivity|].
  cbn [flat_map map]. rewrite IH, face_toks_eq, map_app. reflexivity.
Qed.

Lemma faces_ints_length : forall off faces,
  length (flat_map (fun f => N.of_nat (length f) :: f) (map (gface off) faces)) = (4 * length faces)%nat.
Proof.
  intros off faces. induction faces as [|[[a b] c] faces IH]; [reflexivity|].
  cbn [map flat_map gface length app]. rewrite IH. lia.
Qed.

Lemma cell_toks_eq : forall {F : Type} off (c : wcell (F:=F)),
  cell_toks off c = map I (N.of_nat (length (rec_of off c)) :: rec_of off c).
Proof.
  intros F off c. unfold cell_toks, rec_of. cbn [map length]. rewrite faces_toks_eq, faces_ints_length.
  f_equal. f_equal. lia.
Qed.

Lemma recs_toks_eq : forall {F : Type} (cells : list (wcell (F:=F))) acc,
  flat_map (fun oc => cell_toks (fst oc) (snd oc)) (combine (offsets cells acc) cells)
  = map I (flat_map (fun r => N.of_nat (length r) :: r) (recs cells acc)).
Proof.
  intros F cells. induction cells as [|c cells IH]; intros acc; [reflexivity|].
  unfold recs. cbn [offsets combine flat_map map fst snd]. fold (recs cells (acc + nnodes c)).
  rewrite IH, cell_toks_eq, map_app. reflexivity.
Qed.

Lemma recs_length : forall {F : Type} (cells : list (wcell (F:=F))) acc, length (recs cells acc) = length cells.
Proof.
  intros F cells. induction cells as [|c cells IH]; intros acc; [reflexivity|].
  unfold recs. cbn [offsets combine map length]. fold (recs cells (acc + nnodes c)). now rewrite IH.
Qed.

(* ------------------------------------------------------------------ the written file and its sections *)
Lemma after_skip_X : forall {F : Type} (k : tok (F:=F) -> bool) xs l,
  (forall x, k (X x) = false) -> after k (map X xs ++ l) = after k l.
Proof. intros F k xs l H. induction xs as [|x xs IH]; [reflexivity|]. cbn [map app after]. now rewrite H. Qed.
Lemma after_skip_I : forall {F : Type} (k : tok (F:=F) -> bool) ns l,
  (forall n, k (I n) = false) -> after k (map I ns ++ l) = after k l.
Proof. intros F k ns l H. induction ns as [|x ns IH]; [reflexivity|]. cbn [map app after]. now rewrite H. Qed.

Lemma flat_map_map_out : forall {A B C : Type} (g : B -> C) (h : A -> list B) l,
  flat_map (fun c => map g (h c)) l = map g (flat_map h l).
Proof. intros A B C g h l. induction l as [|x l IH]; [reflexivity|]. cbn [flat_map]. now rewrite IH, map_app. Qed.
Lemma repeat_map : forall {A B : Type} (g : A -> B) x n, repeat (g x) n = map g (repeat x n).
Proof. intros A B g x n. induction n as [|n IH]; [reflexivity|]. cbn [repeat map]. now rewrite IH. Qed.
Lemma forallb_repeat42 : forall n, forallb (N.eqb 42) (repeat 42 n) = true.
Proof. induction n as [|n IH]; [reflexivity|]. cbn [repeat forallb]. now rewrite IH. Qed.

Definition shaped {F : Type} (tn nc ti : N) (xs : list F) (ints : list N) (n42 : nat) (zeros tys : list N) : list (tok (F:=F)) :=
  KPoints :: I tn :: map X xs ++ KCells :: I nc :: I ti :: map I ints ++
  KCellTypes :: I nc :: map I (repeat 42 n42) ++
  KCellData :: I nc :: KOther :: I 1 :: I nc :: map I zeros ++
  KFieldTypeId :: I 1 :: I nc :: map I tys ++ [KOther].

Lemma write_file_shape : forall {F : Type} (cells : list (wcell (F:=F))),
  write_file cells =
  shaped (total_nodes cells) (N.of_nat (length cells)) (total_ints cells)
         (flat_map (fun c => w_coords c) cells)
         (flat_map (fun r => N.of_nat (length r) :: r) (recs cells 0))
         (length cells) (map (fun _ => 0) cells) (map (fun c => w_type c) cells).
Proof.
  intros F cells. unfold write_file, shaped. cbv zeta. cbn [app].
  rewrite recs_toks_eq, (flat_map_map_out X), (repeat_map I), !map_map. reflexivity.
Qed.

Ltac adv := repeat (cbn [after isK];
  first [rewrite after_skip_X by (intros; reflexivity) | rewrite after_skip_I by (intros; reflexivity)]);
  cbn [after isK].

Lemma read_points_shaped : forall {F V : Type} (sem : F -> option V) (v : F -> V) tn nc ti xs ints n42 zeros tys,
  (forall x, In x xs -> sem x = Some (v x)) -> N.of_nat (length xs) = 3 * tn ->
  read_points sem (shaped tn nc ti xs ints n42 zeros tys) = Ok (map v xs).
Proof.
  intros F V sem v tn nc ti xs ints n42 zeros tys Hs Hl. unfold read_points, shaped. cbn [after isK].
  rewrite take_X_map by exact Logic.I. rewrite (sem_all_map sem v xs Hs), map_length, Hl.
  replace (3 * tn) with (tn * 3) by lia. rewrite N.div_mul by discriminate. now rewrite N.eqb_refl.
Qed.

Lemma read_faces_shaped : forall {F : Type} tn ti (xs : list F) rs n42 zeros tys,
  (length rs <= n42)%nat ->
  read_faces (shaped tn (N.of_nat n42) ti xs (flat_map (fun r => N.of_nat (length r) :: r) rs) n42 zeros tys) = Ok rs.
Proof.
  intros F tn ti xs rs n42 zeros tys Hl. unfold read_faces, shaped. adv.
  rewrite take_I_map by exact Logic.I. rewrite forallb_repeat42, repeat_length, N.eqb_refl. cbn [negb].
  rewrite take_I_map by exact Logic.I.
  apply split_cells_flat. rewrite app_length, map_length. pose proof (flat_faces_length rs). lia.
Qed.

Lemma read_types_shaped : forall {F : Type} tn nc ti (xs : list F) ints n42 zeros tys,
  read_types (shaped tn nc ti xs ints n42 zeros tys) = Ok tys.
Proof.
  intros F tn nc ti xs ints n42 zeros tys. unfold read_types, shaped. adv.
  now rewrite take_I_map by exact Logic.I.
Qed.

(* ------------------------------------------------------------------ round trip *)
Lemma write_read : forall (F V : Type) (sem : F -> option V) (v : F -> V) (cells : list (wcell (F:=F))),
  cells <> [] -> Forall good_cell cells ->
  (forall c x, In c cells -> In x (w_coords c) -> sem x = Some (v x)) ->
  read_file sem (write_file cells) = Ok (map (expect_mesh v) cells, map (fun c => w_type c) cells).
Proof.
  intros F V sem v cells _ Hg Hs. rewrite write_file_shape. unfold read_file.
  rewrite (read_points_shaped sem v).
  - rewrite read_faces_shaped by (rewrite recs_length; lia).
    rewrite (map_res_cells v cells 0 _ Hg); [|reflexivity|cbn; lia].
    now rewrite read_types_shaped.
  - intros x Hx. apply in_flat_map in Hx. destruct Hx as [c [Hc Hx]]. now apply (Hs c x).
  - apply points_count. eapply Forall_impl; [|exact Hg]. intros c Hc. exact (proj1 Hc).
Qed.

(* ------------------------------------------------------------------ declared number of cell integers.
   The declared total (total_ints) is exactly the number of integer tokens of the CELLS section.  The form
   "tokens + number of cells = total_ints" does not hold (see cells_count_stated_form_refuted). *)
Lemma cell_toks_length : forall {F : Type} off (c : wcell (F:=F)),
  length (cell_toks off c) = (2 + 4 * length (w_faces c))%nat.
Proof.
  intros F off c. rewrite cell_toks_eq, map_length. unfold rec_of. cbn [length]. rewrite faces_ints_length. lia.
Qed.

Lemma cells_toks_length : forall {F : Type} (cells : list (wcell (F:=F))) acc,
  N.of_nat (length (flat_map (fun oc => cell_toks (F:=F) (fst oc) (snd oc)) (combine (offsets cells acc) cells)))
  = N.of_nat (length cells) + fold_left (fun a c => a + (1 + N.of_nat (length (w_faces c)) * 4)) cells 0.
Proof.
  intros F cells. induction cells as [|c cells IH]; intros acc; [reflexivity|].
  cbn [offsets combine flat_map fst snd fold_left length]. rewrite app_length, Nat2N.inj_add, IH, cell_toks_length.
  rewrite (fold_add_acc _ cells (0 + _)).
  generalize (fold_left (fun a c0 => a + (1 + N.of_nat (length (w_faces (F:=F) c0)) * 4)) cells 0). intros S0. lia.
Qed.

Lemma cells_count_tokens : forall (F : Type) (cells : list (wcell (F:=F))),
  N.of_nat (length (flat_map (fun oc => cell_toks (F:=F) (fst oc) (snd oc)) (combine (offsets cells 0) cells)))
  = total_ints cells.
Proof. intros F cells. rewrite cells_toks_length. unfold total_ints. now rewrite (fold_add_acc _ cells (N.of_nat _)). Qed.

Lemma cells_count_stated_form_refuted :
  ~ (forall (F : Type) (cells : list (wcell (F:=F))),
      N.of_nat (length (flat_map (fun oc => cell_toks (F:=F) (fst oc) (snd oc)) (combine (offsets cells 0) cells))) + N.of_nat (length cells)
      = total_ints cells).
Proof. intros H. specialize (H unit [mkwc [] [] 0]). discriminate H. Qed.
