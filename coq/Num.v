(* Num.v — the number structure every numeric model is written against.
   One polymorphic record, two instances: R (theorems) and PrimFloat.float (execution,
   bit-identical to C++ double compiled with -ffp-contract=off and no -ffast-math). *)
From Coq Require Import Reals ZArith Bool List Floats Lra.
Import ListNotations.

Record Num (T : Type) := mkNum {
  nzero : T;
  none_ : T;
  nadd : T -> T -> T;
  nsub : T -> T -> T;
  nmul : T -> T -> T;
  ndiv : T -> T -> T;
  nneg : T -> T;
  nsqrt : T -> T;
  nabs : T -> T;
  nltb : T -> T -> bool;     (* x <  y *)
  nleb : T -> T -> bool;     (* x <= y *)
  neqb : T -> T -> bool;     (* x == y *)
  nofZ : Z -> T;             (* exact for |z| < 2^53 *)
}.

Arguments nzero {T}. Arguments none_ {T}. Arguments nadd {T}. Arguments nsub {T}.
Arguments nmul {T}. Arguments ndiv {T}. Arguments nneg {T}. Arguments nsqrt {T}.
Arguments nabs {T}. Arguments nltb {T}. Arguments nleb {T}. Arguments neqb {T}.
Arguments nofZ {T}.

(* the C library functions the code calls; never axiomatised: on the float side they are
   arguments filled in by the OCaml driver with the same glibc the C++ uses *)
Record Libm (T : Type) := mkLibm {
  lcos : T -> T; lsin : T -> T; ltan : T -> T; lacos : T -> T;
  llog : T -> T; lexp : T -> T; lcbrt : T -> T; lpow : T -> T -> T;
}.
Arguments lcos {T}. Arguments lsin {T}. Arguments ltan {T}. Arguments lacos {T}.
Arguments llog {T}. Arguments lexp {T}. Arguments lcbrt {T}. Arguments lpow {T}.

(* ---------------------------------------------------------------- R instance *)
Definition Rltb (x y : R) : bool := if Rlt_dec x y then true else false.
Definition Rleb (x y : R) : bool := if Rle_dec x y then true else false.
Definition Reqb (x y : R) : bool := if Req_EM_T x y then true else false.

Definition NumR : Num R := {|
  nzero := 0%R; none_ := 1%R;
  nadd := Rplus; nsub := Rminus; nmul := Rmult; ndiv := Rdiv; nneg := Ropp;
  nsqrt := R_sqrt.sqrt; nabs := Rabs;
  nltb := Rltb; nleb := Rleb; neqb := Reqb;
  nofZ := IZR |}.

Lemma Rltb_true x y : Rltb x y = true <-> (x < y)%R.
Proof. unfold Rltb; destruct (Rlt_dec x y); split; intros; try discriminate; tauto. Qed.
Lemma Rltb_false x y : Rltb x y = false <-> (y <= x)%R.
Proof. unfold Rltb; destruct (Rlt_dec x y); split; intros; try discriminate; try lra; auto. Qed.
Lemma Rleb_true x y : Rleb x y = true <-> (x <= y)%R.
Proof. unfold Rleb; destruct (Rle_dec x y); split; intros; try discriminate; tauto. Qed.
Lemma Rleb_false x y : Rleb x y = false <-> (y < x)%R.
Proof. unfold Rleb; destruct (Rle_dec x y); split; intros; try discriminate; try lra; auto. Qed.
Lemma Reqb_true x y : Reqb x y = true <-> x = y.
Proof. unfold Reqb; destruct (Req_EM_T x y); split; intros; try discriminate; tauto. Qed.
Lemma Reqb_false x y : Reqb x y = false <-> x <> y.
Proof. unfold Reqb; destruct (Req_EM_T x y); split; intros; try discriminate; tauto. Qed.

(* ---------------------------------------------------------------- float instance *)
Fixpoint f_ofpos (p : positive) : float :=
  match p with
  | xH => 1%float
  | xO q => PrimFloat.mul 2%float (f_ofpos q)
  | xI q => PrimFloat.add (PrimFloat.mul 2%float (f_ofpos q)) 1%float
  end.
Definition f_ofZ (z : Z) : float :=
  match z with
  | Z0 => 0%float
  | Zpos p => f_ofpos p
  | Zneg p => PrimFloat.opp (f_ofpos p)
  end.

Definition NumF : Num float := {|
  nzero := 0%float; none_ := 1%float;
  nadd := PrimFloat.add; nsub := PrimFloat.sub; nmul := PrimFloat.mul; ndiv := PrimFloat.div;
  nneg := PrimFloat.opp; nsqrt := PrimFloat.sqrt; nabs := PrimFloat.abs;
  nltb := PrimFloat.ltb; nleb := PrimFloat.leb; neqb := PrimFloat.eqb;
  nofZ := f_ofZ |}.

(* generic helpers used by the models *)
Section Generic.
  Context {T : Type} (N : Num T).
  Definition nmin (x y : T) : T := if nltb N y x then y else x.   (* std::min(x,y) = (y<x)?y:x *)
  Definition nmax (x y : T) : T := if nltb N x y then y else x.   (* std::max(x,y) = (x<y)?y:x *)
  Definition ngtb (x y : T) : bool := nltb N y x.
  Definition ngeb (x y : T) : bool := nleb N y x.
  Definition ntwo : T := nofZ N 2.
  Definition nsq (x : T) : T := nmul N x x.
End Generic.
