#!/bin/bash
# setup: build the Coq development (full .vo), the extracted OCaml model runner and the cached
# objects of /repo's working tree.  Offline; everything from files on disk.
set -e
cd "$(dirname "$0")"
export OCAMLRUNPARAM=s=8M
cd coq
coq_makefile -f _CoqProject -o Makefile
timeout 3000 make -k -j16 || echo "some Coq targets failed (reported by the checks that need them)"
cd ..
python3 - <<'PY'
import sys; sys.path.insert(0, "harness")
import vlib
vlib.ocaml_model()
vlib.repo_objs()
print("setup ok")
PY
