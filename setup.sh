#!/bin/bash
# setup: build the Coq development (full .vo), the extracted OCaml model runner and the cached
# objects of /repo's working tree.  Offline; everything from files on disk.
set -e
cd "$(dirname "$0")"
export OCAMLRUNPARAM=s=8M
python3 - <<'PY'
import sys; sys.path.insert(0, "harness")
import vlib
ok, out = vlib.coq_make([], timeout=3000)
if not ok:
    print("some Coq targets failed (reported by the checks that need them):"); print(out[-2000:])
vlib.ocaml_model()
vlib.repo_objs()
print("setup ok")
PY
